"""Unit vm_core: essential-vm's synchronous core (error, stack, memory, alu, pred, repeat,
total_control_flow, state_read, access, sync dispatchers, vm exec loop) + the essential-types and
essential-asm items it uses.  One file, so a caller is checked against the same woven contract its
callee is proved against."""
import re
import os
from unit import Unit
from weave import FnSpec as F

NEEDS_ASM_EXPANSION = True
HERE = os.path.dirname(os.path.abspath(__file__))


def _read(name):
    with open(os.path.join(HERE, '..', 'prelude', name)) as f:
        return f.read()


def build(asm_expanded):
    u = Unit('vm_core')
    u.header = _read('header.rs')
    u.prelude = [_read('std.rs'), _read('vm_spec.rs')]

    # ------------------------------------------------------------------ crate root (lib.rs)
    root = u.module('', file='crates/vm/src/lib.rs', uses='''pub use crate::stack::Stack; pub use crate::memory::Memory; pub use crate::repeat::Repeat;
pub use crate::essential_asm as asm; pub use crate::essential_asm::Op; pub use crate::essential_types as types;
pub use crate::total_control_flow::ProgramControlFlow; pub use crate::state_read::{StateRead, StateReads}; pub use crate::op_access::OpAccess; pub use crate::cached::LazyCache; pub use crate::access::Access; pub use crate::vm::Vm;''')
    root.item('type Gas')
    root.item('struct GasLimit')
    root.trait('trait OpGasCost', [F('op_gas_cost', ensures='r == self.spec_cost(*op)', props=('C07',))],
               extra='    spec fn spec_cost(&self, op: Op) -> Gas;')
    # ------------------------------------------------------------------ essential-types
    ty = u.module('essential_types', file='crates/types/src/lib.rs', uses='')
    for t in ('type Word', 'type Key', 'type Value', 'type Hash', 'struct PredicateAddress'):
        ty.item(t)
    ty.item('struct ContentAddress', assumed_clone=True)
    ty.stub('#[verifier::external] impl core::fmt::Debug for ContentAddress { fn fmt(&self, f: &mut core::fmt::Formatter<\'_>) -> core::fmt::Result { f.write_str("ContentAddress") } }\n',
            'hand-written Debug impl of ContentAddress (crates/types/src/fmt.rs), needed only as a trait bound')
    sol = u.module('solution', file='crates/types/src/solution.rs', parent=ty, uses='use crate::essential_types::{Key, PredicateAddress, Value, Word};')
    for t in ('type SolutionIndex', 'struct Solution', 'struct Mutation'):
        sol.item(t)
    conv = u.module('convert', file='crates/types/src/convert.rs', parent=ty, uses='use crate::essential_types::*;')
    conv.spec('''pub uninterp spec fn spec_word_4_from_u8_32(b: [u8; 32]) -> [i64; 4];
pub uninterp spec fn spec_u8_32_from_word_4(w: [i64; 4]) -> [u8; 32];
''')
    conv.fn('word_4_from_u8_32', F('word_4_from_u8_32', mode='assumed', ensures='r == spec_word_4_from_u8_32(bytes)',
            note='32-element array pattern; proved inverse of u8_32_from_word_4 (big-endian) by the complete Kani harness convert_k1', props=('C12', 'C11')))
    conv.fn('u8_32_from_word_4', F('u8_32_from_word_4', mode='assumed', ensures='r == spec_u8_32_from_word_4(words)',
            note='array patterns; proved inverse of word_4_from_u8_32 (big-endian) by the complete Kani harness convert_k1', props=('C12', 'C11')))
    conv.fn('bytes_from_word', F('bytes_from_word', mode='external'))
    conv.fn('word_from_bytes', F('word_from_bytes', mode='external'))
    conv.fn('bool_from_word', F('bool_from_word', ensures='r == crate::w2b(word)', props=('C08', 'C09')))

    # ------------------------------------------------------------------ essential-vm: error
    er = u.module('error', file='crates/vm/src/error.rs', uses='''
use crate::essential_types::Word; use crate::Gas; use core::convert::Infallible;
use crate::ext::asm_errors as asm; use crate::ext::ed25519_dalek; use crate::ext::secp256k1;
''')
    for t in ('type ExecResult', 'type EvalResult', 'type OpResult', 'struct ExecError', 'enum EvalError', 'enum OpError',
              'struct OutOfGasError', 'enum StateReadArgError', 'enum AccessError', 'enum MissingAccessArgError',
              'enum AluError', 'enum CryptoError', 'type StackResult', 'enum StackError', 'enum LenWordsError',
              'type RepeatResult', 'enum RepeatError', 'type TotalControlFlowResult', 'enum TotalControlFlowError',
              'type MemoryResult', 'enum MemoryError', 'enum ParentMemoryError', 'type ComputeResult', 'enum ComputeError',
              'enum DecodeError', 'enum EncodeError'):
        er.item(t)

    er.stub('#[verifier::external] impl core::fmt::Debug for StackError { fn fmt(&self, f: &mut core::fmt::Formatter<\'_>) -> core::fmt::Result { f.write_str("StackError") } }\n',
            'derived Debug of StackError, needed only as the trait bound of Result::expect')
    er.spec('''
pub open spec fn err_plain<E>(e: OpError<E>) -> bool { !(e is Compute) && !(e is StateRead) && !(e is OutOfGas) }
impl<E> vstd::std_specs::convert::FromSpecImpl<StateReadArgError> for OpError<E> {
    open spec fn obeys_from_spec() -> bool { true }
    open spec fn from_spec(e: StateReadArgError) -> Self { match e { StateReadArgError::Memory(m) => OpError::Memory(m), StateReadArgError::Stack(s) => OpError::Stack(s) } } }
impl<E> vstd::std_specs::convert::FromSpecImpl<core::convert::Infallible> for OpError<E> {
    open spec fn obeys_from_spec() -> bool { false }
    open spec fn from_spec(e: core::convert::Infallible) -> Self { OpError::PcOverflow } }
''')
    er.impl('impl<E> From<core::convert::Infallible> for OpError<E>', [
        F('from', mode='assumed', note='D3: zero-arm match on an uninhabited argument (Verus: not yet implemented); can never be called', props=('C05',))])
    er.impl('impl<E> From<StateReadArgError> for OpError<E>', [F('from', ensures='err_plain(r)', props=('C05', 'C11'))])
    er.impl('impl<E> OpError<E>', [
        F('from_infallible', requires='err_plain(value)', ensures='err_plain(r)', props=('C05',))])

    # ------------------------------------------------------------------ essential-vm: stack
    st = u.module('stack', file='crates/vm/src/stack.rs', uses='''
use crate::essential_types::Word; use crate::error::{LenWordsError, StackError, StackResult};
use crate::essential_types::convert::bool_from_word; use crate::*;
''')
    st.item('struct Stack', assumed_clone=True)
    st.spec('''
impl View for Stack { type V = Seq<i64>; closed spec fn view(&self) -> Seq<i64> { self.0@ } }
broadcast use {crate::iter_items_array, crate::iter_items_vec};
''')
    WF = 'stack_wf(old(self)@)'
    WFE = 'stack_wf(final(self)@)'

    def sop(name, spec_fn, props=('C05', 'C08'), **kw):
        return F(name, requires=WF, ensures=WFE + """,
            match crate::%s(old(self)@%s) { Some(s) => r is Ok && final(self)@ =~= s, None => r is Err }""" % (spec_fn, kw.pop('extra', '')),
                 props=props, **kw)

    def popn(name, n, **kw):
        return F(name, requires=WF, ensures=WFE + """,
            old(self)@.len() >= %d ==> r is Ok && r->Ok_0@ =~= old(self)@.subrange(old(self)@.len() - %d, old(self)@.len() as int)
                 && final(self)@ =~= old(self)@.take(old(self)@.len() - %d),
            old(self)@.len() < %d ==> r is Err,
            final(self)@.len() <= old(self)@.len()""" % (n, n, n, n), props=('C05', 'C08'), **kw)

    def pop_push(name, nin, nout):
        """generic popN_pushM<F, E>(f)"""
        n = nin
        args = ', '.join('old(self)@[old(self)@.len() - %d]' % (n - k) for k in range(n)) if nin != 8 else None
        if nin == 8:
            call_req = 'forall|a: [Word; 8]| a@ == old(self)@.subrange(old(self)@.len() - 8, old(self)@.len() as int) ==> f.requires((a,))'
            ens_call = 'exists|a: [Word; 8], fr: Result<Word, E>| a@ == old(self)@.subrange(old(self)@.len() - 8, old(self)@.len() as int) && #[trigger] f.ensures((a,), fr) && '
            err_call = 'exists|a: [Word; 8]| a@ == old(self)@.subrange(old(self)@.len() - 8, old(self)@.len() as int) && #[trigger] f.ensures((a,), Err::<%s, E>(e))'
        else:
            call_req = 'f.requires((%s,))' % args
            err_call = 'f.ensures((' + args + ',), Err::<%s, E>(e))'
            ens_call = 'exists|fr: Result<%s, E>| #[trigger] f.ensures((%s,), fr) && ' % ('Word' if nout == 1 else '[Word; %d]' % nout, args)
        if nout == 1:
            okcase = 'Ok(x) => (t.len() < 4096 ==> r is Ok && final(self)@ =~= t.push(x)) && (t.len() >= 4096 ==> r is Err)'
        else:
            okcase = 'Ok(x) => (t.len() + %d <= 4096 ==> r is Ok && final(self)@ =~= t + x@) && (t.len() + %d > 4096 ==> r is Err)' % (nout, nout)
        rw = []
        return F(name, requires=WF + ', old(self)@.len() >= %d ==> %s' % (n, call_req),
                 ensures=WFE + """,
            old(self)@.len() < %d ==> r is Err,
            old(self)@.len() >= %d ==> ({ let t = old(self)@.take(old(self)@.len() - %d); %s match fr { %s, Err(e) => r == Err::<(), E>(e) } }),
            r matches Err(e) ==> (exists|se: StackError| vstd::std_specs::control_flow::spec_from::<E, StackError>(se, e)) || (%s)""" % (n, n, n, ens_call, okcase, err_call % ('Word' if nout == 1 else '[Word; %d]' % nout)),
                 rewrites=rw, props=('C05', 'C08'))

    LW_REQ = WF + ', crate::lw_ok(old(self)@) ==> forall|sl: &[Word]| sl@ == crate::lw_words(old(self)@) ==> f.requires((sl,))'
    st.impl('impl Stack', [
        ('const', 'SIZE_LIMIT'),
        sop('push', 'sp_push', extra=', word'),
        F('extend', mode='assumed', requires=WF, ensures=WFE + """,
            old(self)@.len() + crate::iter_items(words).len() <= 4096 ==> r is Ok && final(self)@ == old(self)@ + crate::iter_items(words),
            old(self)@.len() + crate::iter_items(words).len() > 4096 ==> r is Err""",
          note='generic IntoIterator loop: iterator laws of an abstract I cannot be discharged; bounded Kani check through public callers', props=('C05', 'C08')),
        sop('reserve_zeroed', 'sp_reserve'),
        F('reserve', requires=WF, ensures=WFE + ', final(self)@ == old(self)@', props=('C05',)),
        sop('load', 'sp_load'),
        sop('store', 'sp_store', rewrites=[]),
        sop('dup_from', 'sp_dup_from', closures={'.and_then(': {'params': 'i: usize', 'ret': 'o: Option<usize>',
            'ensures': 'o == (if i >= 1 { Some((i - 1) as usize) } else { None::<usize> })'}}),
        sop('swap_index', 'sp_swap_index'),
        sop('select', 'sp_select', inline_and_then=True,
            closures={'self.pop2_push1(': {'params': 'w0: Word, w1: Word', 'ret': 'o: Result<Word, StackError>',
                      'ensures': 'match crate::w2b(cond_w) { Some(c) => o == Ok::<Word, StackError>(if c { w1 } else { w0 }), None => o is Err }'}}),
        sop('select_range', 'sp_select_range'),
        F('pop', requires=WF, ensures=WFE + """,
            old(self)@.len() > 0 ==> r == Ok::<Word, StackError>(old(self)@.last()) && final(self)@ =~= old(self)@.drop_last(),
            old(self)@.len() == 0 ==> r is Err && final(self)@ == old(self)@""", props=('C05', 'C08')),
        popn('pop2', 2),
        popn('pop3', 3, rewrites=[]),
        popn('pop4', 4, rewrites=[]),
        popn('pop8', 8, rewrites=[]),
        pop_push('pop1_push1', 1, 1),
        pop_push('pop2_push1', 2, 1),
        pop_push('pop8_push1', 8, 1),
        pop_push('pop1_push2', 1, 2),
        pop_push('pop2_push2', 2, 2),
        pop_push('pop2_push4', 2, 4),
        F('pop_len', requires=WF, ensures=WFE + """,
            old(self)@.len() > 0 && old(self)@.last() >= 0 ==> r == Ok::<usize, StackError>(old(self)@.last() as usize) && final(self)@ =~= old(self)@.drop_last(),
            !(old(self)@.len() > 0 && old(self)@.last() >= 0) ==> r is Err,
            final(self)@.len() <= old(self)@.len()""", props=('C05', 'C08')),
        F('pop_len_words', requires=LW_REQ, ensures=WFE + """,
            !crate::lw_ok(old(self)@) ==> r is Err && final(self)@ == old(self)@,
            crate::lw_ok(old(self)@) ==> exists|sl: &[Word], fr: Result<O, E>| sl@ == crate::lw_words(old(self)@) && #[trigger] f.ensures((sl,), fr)
                && match fr { Ok(o) => r == Ok::<O, E>(o) && final(self)@ =~= crate::lw_rest(old(self)@), Err(e) => r == Err::<O, E>(e) && final(self)@ == old(self)@ },
            r matches Err(e) ==> (exists|se: StackError| vstd::std_specs::control_flow::spec_from::<E, StackError>(se, e))
                || (exists|sl: &[Word]| sl@ == crate::lw_words(old(self)@) && #[trigger] f.ensures((sl,), Err::<O, E>(e)))""",
          rewrites=[('R7', 'map_err(StackError::LenWords)', 'map_err(|e| StackError::LenWords(e))')], props=('C05', 'C08')),
        F('pop_words', requires=WF + ', num_words <= old(self)@.len() ==> forall|sl: &[Word]| sl@ == old(self)@.skip(old(self)@.len() - num_words) ==> f.requires((sl,))',
          ensures=WFE + """,
            num_words > old(self)@.len() ==> r is Err && final(self)@ == old(self)@,
            num_words <= old(self)@.len() ==> exists|sl: &[Word], fr: Result<O, E>| sl@ == old(self)@.skip(old(self)@.len() - num_words) && #[trigger] f.ensures((sl,), fr)
                && match fr { Ok(o) => r == Ok::<O, E>(o) && final(self)@ =~= old(self)@.take(old(self)@.len() - num_words), Err(e) => r == Err::<O, E>(e) && final(self)@ == old(self)@ },
            r matches Err(e) ==> (exists|se: StackError| vstd::std_specs::control_flow::spec_from::<E, StackError>(se, e))
                || (exists|sl: &[Word]| sl@ == old(self)@.skip(old(self)@.len() - num_words) && #[trigger] f.ensures((sl,), Err::<O, E>(e)))""",
          rewrites=[('R7', 'map_err(StackError::LenWords)', 'map_err(|e| StackError::LenWords(e))')], props=('C05', 'C08', 'C12')),
        F('pop_len_words2', requires=WF + """, crate::lw_ok(old(self)@) && crate::lw_ok(crate::lw_rest(old(self)@)) ==> forall|l: &[Word], rr: &[Word]|
                rr@ == crate::lw_words(old(self)@) && l@ == crate::lw_words(crate::lw_rest(old(self)@)) ==> f.requires((l, rr))""",
          ensures=WFE + """,
            !(crate::lw_ok(old(self)@) && crate::lw_ok(crate::lw_rest(old(self)@))) ==> r is Err && final(self)@ == old(self)@,
            crate::lw_ok(old(self)@) && crate::lw_ok(crate::lw_rest(old(self)@)) ==> exists|l: &[Word], rr: &[Word], fr: Result<O, E>|
                rr@ == crate::lw_words(old(self)@) && l@ == crate::lw_words(crate::lw_rest(old(self)@)) && #[trigger] f.ensures((l, rr), fr)
                && match fr { Ok(o) => r == Ok::<O, E>(o) && final(self)@ =~= crate::lw_rest(crate::lw_rest(old(self)@)), Err(e) => r == Err::<O, E>(e) && final(self)@ == old(self)@ }""",
          rewrites=[('R7', 'let (rest, rhs) = slice_split_len_words(self).map_err(StackError::LenWords)?;', 'let (rest, rhs) = slice_split_len_words(self).map_err(|e| StackError::LenWords(e))?;'),
                    ('R7', 'let (rest, lhs) = slice_split_len_words(rest).map_err(StackError::LenWords)?;', 'let (rest, lhs) = slice_split_len_words(rest).map_err(|e| StackError::LenWords(e))?;')],
          props=('C05', 'C08')),
    ])
    st.fn('slice_split_len_words', F('slice_split_len_words', ensures="""
            crate::lw_ok(slice@) ==> r is Ok && r->Ok_0.0@ =~= crate::lw_rest(slice@) && r->Ok_0.1@ =~= crate::lw_words(slice@),
            !crate::lw_ok(slice@) ==> r is Err""", props=('C05', 'C08')))
    st.fn('slice_split_len', F('slice_split_len', ensures="""
            len <= slice@.len() ==> r is Ok && r->Ok_0.0@ =~= slice@.take(slice@.len() - len) && r->Ok_0.1@ =~= slice@.skip(slice@.len() - len),
            len > slice@.len() ==> r is Err""", props=('C05', 'C08')))
    st.impl('impl core::ops::Deref for Stack', [('type', 'Target'), F('deref', ensures='r@ == self@', props=('C05',))])
    st.spec('''impl vstd::std_specs::convert::TryFromSpecImpl<Vec<Word>> for Stack {
    open spec fn obeys_try_from_spec() -> bool { false }
    open spec fn try_from_spec(v: Vec<Word>) -> Result<Self, Self::Error> { Err(StackError::Overflow) } }
''')
    st.impl('impl TryFrom<Vec<Word>> for Stack', [('type', 'Error'),
            F('try_from', ensures='vec@.len() <= 4096 ==> r is Ok && r->Ok_0@ == vec@ && stack_wf(r->Ok_0@), vec@.len() > 4096 ==> r is Err', props=('C05',))])

    # ------------------------------------------------------------------ essential-asm op enums (macro-expanded text)
    am = u.module('essential_asm', file=asm_expanded, uses='pub use crate::essential_types::Word; use crate::essential_types;')
    for e in ('Op', 'Stack', 'Pred', 'Alu', 'Access', 'Crypto', 'TotalControlFlow', 'Memory', 'ParentMemory', 'StateRead', 'Compute'):
        am.item(['mod op', 'enum ' + e], extra_attrs='#[derive(Clone, Copy, PartialEq, Eq)]\n')
    u.log.rw('D5', 'essential_asm', 'expanded `impl Clone/Copy/PartialEq/Eq for <op enum>`', '#[derive(Clone, Copy, PartialEq, Eq)] (what asm-gen emits)')

    # ------------------------------------------------------------------ memory
    me = u.module('memory', file='crates/vm/src/memory.rs', uses='use crate::essential_types::Word; use crate::error::MemoryError; use crate::*;')
    me.item('struct Memory')
    me.spec('''impl View for Memory { type V = Seq<i64>; closed spec fn view(&self) -> Seq<i64> { self.0@ } }
impl Memory { pub open spec fn load_spec(&self, address: i64) -> Option<i64> { if 0 <= address < self@.len() { Some(self@[address as int]) } else { None } } }
// T-std: #[derive(Default)] on a struct of Vecs yields empty Vecs
pub assume_specification [<Memory as core::default::Default>::default] () -> (r: Memory) ensures r@ =~= Seq::<i64>::empty();
''')
    MW, MWE = 'mem_wf(old(self)@)', 'mem_wf(final(self)@)'
    me.impl('impl Memory', [
        ('const', 'SIZE_LIMIT'),
        F('new', ensures='r@ == Seq::<i64>::empty()', props=('C05', 'C10')),
        F('alloc', requires=MW, ensures=MWE + """,
            0 <= size && old(self)@.len() + size <= 10240 ==> r is Ok && final(self)@ =~= old(self)@ + zeros(size as nat),
            !(0 <= size && old(self)@.len() + size <= 10240) ==> r is Err && final(self)@ == old(self)@""", props=('C05', 'C08')),
        F('store', requires=MW, ensures=MWE + """,
            0 <= address < old(self)@.len() ==> r is Ok && final(self)@ =~= old(self)@.update(address as int, value),
            !(0 <= address < old(self)@.len()) ==> r is Err && final(self)@ == old(self)@""", props=('C05', 'C08')),
        F('load', ensures="""
            0 <= address < self@.len() ==> r == Ok::<Word, MemoryError>(self@[address as int]),
            !(0 <= address < self@.len()) ==> r is Err""", props=('C05', 'C08')),
        F('store_range', requires=MW, ensures=MWE + """,
            0 <= address && address + values@.len() <= old(self)@.len() ==> r is Ok &&
                final(self)@ =~= old(self)@.take(address as int) + values@ + old(self)@.skip(address + values@.len()),
            !(0 <= address && address + values@.len() <= old(self)@.len()) ==> r is Err && final(self)@ == old(self)@,
            final(self)@.len() == old(self)@.len()""", props=('C05', 'C08', 'C11')),
        F('load_range', ensures="""
            0 <= address && 0 <= size && address + size <= self@.len() ==> r is Ok && r->Ok_0@ =~= self@.subrange(address as int, address + size),
            !(0 <= address && 0 <= size && address + size <= self@.len()) ==> r is Err""", props=('C05', 'C08')),
        F('free', requires=MW, ensures=MWE + """,
            0 <= new_len <= old(self)@.len() ==> r is Ok && final(self)@ =~= old(self)@.take(new_len as int),
            !(0 <= new_len <= old(self)@.len()) ==> r is Err && final(self)@ == old(self)@""", props=('C05', 'C08')),
        F('len', requires='mem_wf(self@)', ensures='r == Ok::<Word, MemoryError>(self@.len() as i64)',
          props=('C05', 'C08')),
        F('is_empty', ensures='r == (self@.len() == 0)', props=('C05',)),
    ])
    me.spec('''impl vstd::std_specs::convert::TryFromSpecImpl<Vec<Word>> for Memory {
    open spec fn obeys_try_from_spec() -> bool { false }
    open spec fn try_from_spec(v: Vec<Word>) -> Result<Self, Self::Error> { Err(MemoryError::Overflow) } }
''')
    me.impl('impl TryFrom<Vec<Word>> for Memory', [('type', 'Error'),
            F('try_from', ensures='words@.len() <= 10240 ==> r is Ok && r->Ok_0@ == words@, words@.len() > 10240 ==> r is Err', props=('C05',))])
    me.impl('impl core::ops::Deref for Memory', [('type', 'Target'), F('deref', ensures='r@ == self@', props=('C05',))])

    # ------------------------------------------------------------------ alu
    al = u.module('alu', file='crates/vm/src/alu.rs', uses='use crate::essential_types::Word; use crate::error::{AluError, OpResult}; use crate::*; broadcast use crate::spec_from_is_from;')

    def alu(name, sp, **kw):
        return F(name, ensures='match crate::%s(a, b) { Some(v) => r is Ok && r->Ok_0 == v, None => r is Err }, r matches Err(e) ==> e is Alu' % sp, props=('C05', 'C08'), **kw)
    al.fn('add', alu('add', 'sp_add'))
    al.fn('sub', alu('sub', 'sp_sub'))
    al.fn('mul', alu('mul', 'sp_mul'))
    al.fn('div', alu('div', 'sp_div', head_proof='if b != 0 { crate::lemma_rust_div(a as int, b as int); }'))
    al.fn('mod_', alu('mod_', 'sp_mod', head_proof='if b != 0 { crate::lemma_rust_div(a as int, b as int); }'))
    al.fn('shl', alu('shl', 'sp_shl'))
    al.fn('shr', alu('shr', 'sp_shr'))
    al.fn('arithmetic_shr', alu('arithmetic_shr', 'sp_shri'))
    al.item('const BITS_IN_WORD', rewrites=[('R11', 'const BITS_IN_WORD: Word = core::mem::size_of::<Word>() as Word * 8;',
        'exec const BITS_IN_WORD: Word ensures BITS_IN_WORD == 64 { core::mem::size_of::<Word>() as Word * 8 }')])
    al.fn('check_shift_bounds', F('check_shift_bounds', ensures='0 <= b < 64 ==> r is Ok, !(0 <= b < 64) ==> r is Err, r matches Err(e) ==> e is Alu', props=('C05', 'C08')))

    # ------------------------------------------------------------------ pred
    pr = u.module('pred', file='crates/vm/src/pred.rs', uses='use crate::error::{OpError, OpResult, StackError}; use crate::essential_types::Word; use crate::*; use crate::sets::decode_set; use std::collections::HashSet; broadcast use crate::spec_from_is_from;')
    pr.fn('eq_range', F('eq_range', requires='stack_wf(old(stack)@)', ensures="""stack_wf(final(stack)@), r matches Err(e) ==> crate::error::err_plain(e),
            match crate::sp_eq_range(old(stack)@) { Some(s) => r is Ok && final(stack)@ =~= s, None => r is Err }""",
          closures={'pop_len_words::<_, _, OpError>(': {'params': 'words: &[Word]', 'ret': 'o: Result<bool, OpError>', 'requires': 'len <= words@.len()',
                    'ensures': 'o == Ok::<bool, OpError>(words@.take(len as int) == words@.skip(len as int))'}},
          hints=[('Ok(a == b)', 'before', 'assert(<[i64] as vstd::std_specs::cmp::PartialEqSpec<[i64]>>::obeys_eq_spec()); assert((a@ == b@) == (a@ =~= b@));'),
                 ('stack.push(eq.into())?;', 'before', '''let t = old(stack)@.drop_last(); let l = len as int; let base = t.len() - 2 * l;
                    let w = crate::lw_words(t.push(double));
                    assert(w =~= t.subrange(base, t.len() as int));
                    assert(w.take(l) =~= t.subrange(base, base + l));
                    assert(w.skip(l) =~= t.subrange(base + l, base + 2 * l));
                    assert(crate::lw_rest(t.push(double)) =~= t.take(base));''')],
          props=('C05', 'C08')))

    pr.fn('eq_set', F('eq_set', mode='assumed', requires='stack_wf(old(stack)@)', ensures='stack_wf(final(stack)@), r matches Err(e) ==> crate::error::err_plain(e)',
          note='decode_set is a from_fn closure with captured mutable state and HashSet<&[Word]> equality: outside Verus; Kani cannot run std HashSet. NOT VERIFIED: only the bound/err-class part of the contract is assumed, the set-equality result is not claimed',
          props=('C05', 'C08')))
    se = u.module('sets', file='crates/vm/src/sets.rs', uses='use crate::error::{DecodeError, OpResult, StackError}; use crate::essential_types::Word;')
    se.fn('decode_set', F('decode_set', mode='external', note='only referenced from the external body of pred::eq_set'))

    # ------------------------------------------------------------------ repeat
    rp = u.module('repeat', file='crates/vm/src/repeat.rs', uses="""use crate::essential_types::{convert::bool_from_word, Word};
use crate::error::{OpResult, RepeatError, RepeatResult, StackError}; use crate::*; broadcast use crate::spec_from_is_from;""")
    rp.item('struct Repeat')
    rp.item('struct Slot')
    rp.item('enum Direction')
    rp.spec("""
pub struct SlotS { pub counter: i64, pub up: Option<i64>, pub start: int }
impl View for Slot { type V = SlotS;
    closed spec fn view(&self) -> SlotS { SlotS { counter: self.counter, up: match self.limit { Direction::Up(l) => Some(l), Direction::Down => None }, start: self.repeat_index as int } } }
impl View for Repeat { type V = Seq<SlotS>; closed spec fn view(&self) -> Seq<SlotS> { self.stack@.map_values(|s: Slot| s@) } }
pub assume_specification [<Repeat as core::default::Default>::default] () -> (r: Repeat) ensures r@ =~= Seq::<SlotS>::empty();
""")
    RW, RWE = 'repeat_wf(old(self)@)', 'repeat_wf(final(self)@)'
    rp.fn('repeat', F('repeat', params={'repeat': 'repeat_'}, requires='stack_wf(old(stack)@), repeat_wf(old(repeat_)@)', ensures="""
            stack_wf(final(stack)@), repeat_wf(final(repeat_)@), r matches Err(e) ==> crate::error::err_plain(e),
            match crate::sp_repeat_begin(pc as int, old(stack)@, old(repeat_)@) {
                Some((s, rs)) => r is Ok && final(stack)@ =~= s && final(repeat_)@ =~= rs,
                None => r is Err && final(repeat_)@ == old(repeat_)@ }""",
          rewrites=[],
          props=('C05', 'C09')))
    rp.impl('impl Repeat', [
        F('new', ensures='r@ =~= Seq::<SlotS>::empty()', props=('C09',)),
        F('repeat_from', requires=RW, ensures=RWE + """,
            old(self)@.len() < 4096 ==> r is Ok && final(self)@ =~= old(self)@.push(SlotS { counter: amount, up: None, start: location as int }),
            old(self)@.len() >= 4096 ==> r is Err && final(self)@ == old(self)@""", props=('C05', 'C09')),
        F('repeat_to', requires=RW, ensures=RWE + """,
            old(self)@.len() < 4096 ==> r is Ok && final(self)@ =~= old(self)@.push(SlotS { counter: 0, up: Some(limit), start: location as int }),
            old(self)@.len() >= 4096 ==> r is Err && final(self)@ == old(self)@""", props=('C05', 'C09')),
        F('counter', ensures="""self@.len() > 0 ==> r == Ok::<Word, RepeatError>(self@.last().counter), self@.len() == 0 ==> r is Err""",
          closures={'.map(': {'params': 's: &Slot', 'ret': 'c: Word', 'ensures': 'c == s@.counter'}}, props=('C05', 'C09', 'C12')),
        F('repeat', requires=RW, ensures=RWE + """,
            old(self)@.len() == 0 ==> r is Err && final(self)@ == old(self)@,
            old(self)@.len() > 0 ==> ({ let sl = old(self)@.last(); let rest = old(self)@.drop_last();
                match crate::sp_repeat_end(sl) {
                    (None, _) => r == Ok::<Option<usize>, RepeatError>(None) && final(self)@ =~= rest,
                    (Some(sl2), _) => r == Ok::<Option<usize>, RepeatError>(Some(sl.start as usize)) && final(self)@ =~= rest.push(sl2) } })""",
          props=('C05', 'C09')),
    ])

    # ------------------------------------------------------------------ total_control_flow
    tc = u.module('total_control_flow', file='crates/vm/src/total_control_flow.rs', uses="""
use crate::error::{OpError, OpResult, StackError, TotalControlFlowError}; use crate::{Gas, Stack};
use crate::essential_types::convert::bool_from_word; use crate::*; broadcast use crate::spec_from_is_from;""")
    tc.item('enum ProgramControlFlow')
    tc.spec('''
// where execution continues after an op at `pc` whose step returned `c` (C09)
pub open spec fn ctrl_next(pc: usize, c: Option<ProgramControlFlow>) -> int { match c {
    None => pc + 1, Some(ProgramControlFlow::Pc(n)) => n as int, Some(ProgramControlFlow::ComputeResult((p, _, _))) => p as int,
    Some(ProgramControlFlow::Halt) => pc as int, Some(ProgramControlFlow::ComputeEnd) => pc + 1 } }
// whether execution stops after that op (halt0 = the machine's halt flag before the run)
pub open spec fn ctrl_stops(c: Option<ProgramControlFlow>, halt0: bool) -> bool { match c {
    Some(ProgramControlFlow::Halt) => true, Some(ProgramControlFlow::ComputeEnd) => true,
    Some(ProgramControlFlow::ComputeResult((_, _, h))) => halt0 || h, _ => false } }
pub open spec fn ctrl_kind_ok(op: crate::Op, c: Option<ProgramControlFlow>) -> bool { match c {
    None => !(op is Compute),
    Some(x) => match op {
        crate::Op::Stack(o) => x is Pc, crate::Op::TotalControlFlow(o) => x is Pc || x is Halt,
        crate::Op::Compute(o) => (o is ComputeEnd ==> x is ComputeEnd) && (o is Compute ==> x is ComputeResult), _ => false } } }
''')
    tc.fn('jump_if', F('jump_if', requires='stack_wf(old(stack)@)', ensures="""stack_wf(final(stack)@), r matches Err(e) ==> crate::error::err_plain(e),
            old(stack)@.len() < 2 ==> r is Err,
            old(stack)@.len() >= 2 ==> ({ let n = old(stack)@.len() as int;
                final(stack)@ =~= old(stack)@.take(n - 2) &&
                match crate::sp_jump_target(pc as int, old(stack)@[n - 2], old(stack)@[n - 1]) {
                    None => r is Err,
                    Some(None) => r is Ok && r->Ok_0 is None,
                    Some(Some(p)) => r is Ok && r->Ok_0 == Some(ProgramControlFlow::Pc(p as usize)) } })""",
          rewrites=[],
          props=('C05', 'C09')))
    tc.fn('halt_if', F('halt_if', requires='stack_wf(old(stack)@)', ensures="""stack_wf(final(stack)@), r matches Err(e) ==> crate::error::err_plain(e),
            old(stack)@.len() < 1 ==> r is Err,
            old(stack)@.len() >= 1 ==> final(stack)@ =~= old(stack)@.drop_last() && match w2b(old(stack)@.last()) {
                None => r is Err,
                Some(false) => r is Ok && r->Ok_0 is None,
                Some(true) => r is Ok && r->Ok_0 == Some(ProgramControlFlow::Halt) }""", props=('C05', 'C09')))
    tc.fn('panic_if', F('panic_if', requires='stack_wf(old(stack)@)', ensures="""stack_wf(final(stack)@), r matches Err(e) ==> crate::error::err_plain(e),
            old(stack)@.len() < 1 ==> r is Err,
            old(stack)@.len() >= 1 ==> final(stack)@ =~= old(stack)@.drop_last() && match w2b(old(stack)@.last()) {
                None => r is Err, Some(false) => r is Ok,
                // the panic carries the stack at the time of the panic (operand popped)
                Some(true) => r matches Err(crate::error::OpError::TotalControlFlow(crate::error::TotalControlFlowError::Panic(v))) && v@ =~= old(stack)@.drop_last() }""",
          # R14: `X.iter().copied().collect()` into a Vec is `X.to_vec()` (T-std: a copied slice iterator yields the elements in order)
          rewrites=[('R14', 'stack.iter().copied().collect()', 'stack.to_vec()')],
          props=('C05', 'C09')))

    # ------------------------------------------------------------------ access
    ac = u.module('access', file='crates/vm/src/access.rs', uses="""
use crate::error::{AccessError, MissingAccessArgError, OpResult, OpError, err_plain}; use crate::repeat::Repeat; use crate::Stack;
use crate::essential_types::{convert::{u8_32_from_word_4, word_4_from_u8_32, spec_word_4_from_u8_32}, solution::{Solution, SolutionIndex}, Value, Word};
use std::sync::Arc; use crate::*;
broadcast use {crate::spec_from_is_from, crate::iter_items_array, crate::iter_items_vec, crate::axiom_vec_i64_len, crate::axiom_slice_vec_i64_len};""")
    ac.item('struct Access', assumed_clone=True)
    ac.spec("""
pub open spec fn access_wf(a: Access) -> bool { a.index < a.solutions@.len() }
""")
    ac.impl('impl Access', [
        F('this_solution', requires='access_wf(*self)', ensures='*r == self.solutions@[self.index as int]', props=('C05', 'C12')),
    ])
    SWS = 'stack_wf(old(stack)@)'
    ac.fn('predicate_data', F('predicate_data', requires=SWS, ensures="""stack_wf(final(stack)@), r matches Err(e) ==> err_plain(e),
            match crate::sp_pred_data(old(stack)@, this_predicate_data.deep_view()) { Some(s) => r is Ok && final(stack)@ =~= s, None => r is Err }""",
        # R14: `extend(X.iter().copied())` pushes the elements of X in order, i.e. `extend(X.to_vec())` (T-std)
        rewrites=[('R14', 'stack.extend(words.iter().copied())', 'stack.extend(words.to_vec())')],
        head_proof='assert(this_predicate_data.deep_view().len() == this_predicate_data@.len()); assert(forall|i: int| 0 <= i < this_predicate_data@.len() ==> #[trigger] this_predicate_data.deep_view()[i] == this_predicate_data@[i]@);',
        props=('C05', 'C12')))
    ac.fn('predicate_data_len', F('predicate_data_len', requires=SWS, ensures="""stack_wf(final(stack)@),
            match crate::sp_pred_data_len(old(stack)@, this_predicate_data.deep_view()) { Some(s) => r is Ok && final(stack)@ =~= s, None => r is Err }""",
        head_proof='assert(this_predicate_data.deep_view().len() == this_predicate_data@.len()); assert(forall|i: int| 0 <= i < this_predicate_data@.len() ==> #[trigger] this_predicate_data.deep_view()[i] == this_predicate_data@[i]@);',
        props=('C05', 'C12')))
    ac.fn('this_address', F('this_address', requires=SWS, ensures="""stack_wf(final(stack)@), r matches Err(e) ==> err_plain(e),
            old(stack)@.len() + 4 <= 4096 ==> r is Ok && final(stack)@ =~= old(stack)@ + spec_word_4_from_u8_32(solution.predicate_to_solve.predicate.0)@,
            old(stack)@.len() + 4 > 4096 ==> r is Err""", props=('C05', 'C12')))
    ac.fn('this_contract_address', F('this_contract_address', requires=SWS, ensures="""stack_wf(final(stack)@), r matches Err(e) ==> err_plain(e),
            old(stack)@.len() + 4 <= 4096 ==> r is Ok && final(stack)@ =~= old(stack)@ + spec_word_4_from_u8_32(solution.predicate_to_solve.contract.0)@,
            old(stack)@.len() + 4 > 4096 ==> r is Err""", props=('C05', 'C12')))
    ac.fn('repeat_counter', F('repeat_counter', params={'repeat': 'repeat_'}, requires=SWS, ensures="""stack_wf(final(stack)@), r matches Err(e) ==> err_plain(e),
            repeat_@.len() > 0 && old(stack)@.len() < 4096 ==> r is Ok && final(stack)@ =~= old(stack)@.push(repeat_@.last().counter),
            !(repeat_@.len() > 0 && old(stack)@.len() < 4096) ==> r is Err""", props=('C05', 'C09', 'C12')))
    ac.fn('predicate_data_slots', F('predicate_data_slots', requires=SWS, ensures="""stack_wf(final(stack)@), r matches Err(e) ==> err_plain(e),
            match crate::sp_pred_data_slots(old(stack)@, predicate_data.deep_view()) { Some(s) => r is Ok && final(stack)@ =~= s, None => r is Err }""",
        head_proof='assert(predicate_data.deep_view().len() == predicate_data@.len());',
        props=('C05', 'C12')))
    ac.fn('resolve_predicate_data_range', F('resolve_predicate_data_range', ensures="""
            slot_ix < predicate_data@.len() && value_range_ix.start <= value_range_ix.end && value_range_ix.end <= predicate_data@[slot_ix as int]@.len()
                ==> r is Ok && r->Ok_0@ =~= predicate_data@[slot_ix as int]@.subrange(value_range_ix.start as int, value_range_ix.end as int),
            !(slot_ix < predicate_data@.len() && value_range_ix.start <= value_range_ix.end && value_range_ix.end <= predicate_data@[slot_ix as int]@.len()) ==> r is Err""",
        props=('C05', 'C12')))
    ac.fn('resolve_predicate_data_len', F('resolve_predicate_data_len', ensures="""
            slot_ix < predicate_data@.len() ==> r == Ok::<usize, AccessError>(predicate_data@[slot_ix as int]@.len() as usize),
            slot_ix >= predicate_data@.len() ==> r is Err""",
        closures={'.map(': {'params': 'slot: &Value', 'ret': 'l: usize', 'ensures': 'l == slot@.len()'}}, props=('C05', 'C12')))
    ac.fn('range_from_start_len', F('range_from_start_len', ensures="""
            0 <= start && 0 <= len && start + len <= usize::MAX ==> r is Some && r->Some_0.start == start && r->Some_0.end == start + len,
            !(0 <= start && 0 <= len && start + len <= usize::MAX) ==> r is None""", props=('C05', 'C12')))
    ac.fn('predicate_exists', F('predicate_exists', mode='assumed_sig', requires=SWS, ensures='stack_wf(final(stack)@), r matches Err(e) ==> err_plain(e)',
          note='LazyCache (OnceLock<HashSet>) + SHA-256: external; only the resource-bound / error-class part is assumed here', props=('C05', 'C12')))
    ca = u.module('cached', file='crates/vm/src/cached.rs', uses='use crate::essential_types::{solution::Solution, Hash}; use std::{collections::HashSet, sync::{Arc, OnceLock}};')
    ca.item('struct LazyCache', extra_attrs='#[verifier::external_body]\n')
    oa = u.module('op_access', file='crates/vm/src/op_access.rs', uses='use crate::*;')
    oa.trait('trait OpAccess', [F('op_access', ensures='r == self.spec_op_access(index)', props=('C07', 'C09', 'C14'))],
             extra='    spec fn spec_op_access(&self, index: usize) -> Option<Result<Self::Op, Self::Error>>;')
    # `&[Op]` (Vm::exec_ops / eval_ops): the element is cloned through an arbitrary `Op: Clone`; its result is an uninterpreted function of the element
    oa.spec('''pub uninterp spec fn cloned_elem<T>(t: T) -> T;
''')
    oa.impl('impl<Op> OpAccess for &[Op] where Op: Clone + Send + Sync,', [
        ('type', 'Op'), ('type', 'Error'),
        ('spec', '''    open spec fn spec_op_access(&self, index: usize) -> Option<Result<Self::Op, Self::Error>> {
        // `index < usize::MAX` is implied by `index < len` (a slice length is a usize); stated because Verus does not bound `self@.len()`
        if index < self@.len() && index < usize::MAX { Some(Ok(cloned_elem(self@[index as int]))) } else { None } }'''),
        F('op_access', mode='assumed', note='`.get(i).cloned().map(Ok)` through an arbitrary `Op: Clone`: the clone is an uninterpreted, deterministic function of the element (the trait documents "the same index always returns the same operation"); presence / absence by index is what exec_ops relies on', props=('C05', 'C07', 'C09'))], trait_impl=True)
    # compute children and the checker hand the program on as Arc<T>: it forwards to T
    oa.impl('impl<T> OpAccess for Arc<T> where T: OpAccess,', [
        ('type', 'Op'), ('type', 'Error'),
        ('spec', '''    open spec fn spec_op_access(&self, index: usize) -> Option<Result<Self::Op, Self::Error>> { (**self).spec_op_access(index) }'''),
        F('op_access', props=('C14',))], trait_impl=True)
    # ------------------------------------------------------------------ sync dispatchers
    sy = u.module('sync', file='crates/vm/src/sync.rs', uses="""
use crate::{alu, asm, error::{OpError, OpResult, ParentMemoryError, err_plain}, pred, repeat, total_control_flow, Memory, ProgramControlFlow, Repeat, Stack, StateReads, state_read::StateRead};
use crate::essential_types::ContentAddress; use crate::compute::ComputeInputs; use crate::{access, Access, GasLimit, LazyCache, OpAccess, OpGasCost, Vm, Op};
use crate::essential_asm; use crate::essential_types::Word; use crate::*; use std::sync::Arc;
broadcast use {crate::spec_from_is_from, crate::iter_items_array, crate::iter_items_vec};""")
    sy.spec("""
pub open spec fn sp_alu(op: asm::Alu, a: i64, b: i64) -> Option<i64> { match op {
    asm::Alu::Add => sp_add(a, b), asm::Alu::Sub => sp_sub(a, b), asm::Alu::Mul => sp_mul(a, b), asm::Alu::Div => sp_div(a, b),
    asm::Alu::Mod => sp_mod(a, b), asm::Alu::Shl => sp_shl(a, b), asm::Alu::Shr => sp_shr(a, b), asm::Alu::ShrI => sp_shri(a, b) } }
// binary predicate ops: [lhs, rhs] -> [result]
pub open spec fn sp_pred2(op: asm::Pred, a: i64, b: i64) -> i64 { match op {
    asm::Pred::Eq => b2w(a == b), asm::Pred::Gt => b2w(a > b), asm::Pred::Lt => b2w(a < b), asm::Pred::Gte => b2w(a >= b), asm::Pred::Lte => b2w(a <= b),
    asm::Pred::And => b2w(a != 0 && b != 0), asm::Pred::Or => b2w(a != 0 || b != 0), asm::Pred::BitAnd => a & b, asm::Pred::BitOr => a | b,
    _ => 0 } }
pub open spec fn pred_is_binary(op: asm::Pred) -> bool { !(op is Not) && !(op is EqRange) && !(op is EqSet) }
pub open spec fn sp_pred(op: asm::Pred, s: Seq<i64>) -> Option<Seq<i64>> {
    let n = s.len() as int;
    if op is EqRange { sp_eq_range(s) }
    else if op is Not { if n >= 1 { Some(s.drop_last().push(b2w(s[n - 1] == 0))) } else { None } }
    else if n >= 2 { Some(s.take(n - 2).push(sp_pred2(op, s[n - 2], s[n - 1]))) } else { None } }
pub open spec fn sp_stack(op: asm::Stack, s: Seq<i64>) -> Option<Seq<i64>> { match op {
    asm::Stack::Push(w) => sp_push(s, w), asm::Stack::Pop => sp_pop(s), asm::Stack::Dup => sp_dup(s), asm::Stack::DupFrom => sp_dup_from(s),
    asm::Stack::Swap => sp_swap(s), asm::Stack::SwapIndex => sp_swap_index(s), asm::Stack::Select => sp_select(s),
    asm::Stack::SelectRange => sp_select_range(s), asm::Stack::Reserve => sp_reserve(s), asm::Stack::Load => sp_load(s),
    asm::Stack::Store => sp_store(s), asm::Stack::Drop => sp_drop(s), _ => None } }
pub open spec fn sp_memory(op: asm::Memory, s: Seq<i64>, m: Seq<i64>) -> Option<(Seq<i64>, Seq<i64>)> { match op {
    asm::Memory::Alloc => sp_mem_alloc(s, m), asm::Memory::Free => sp_mem_free(s, m), asm::Memory::Load => sp_mem_load(s, m),
    asm::Memory::Store => sp_mem_store(s, m), asm::Memory::LoadRange => sp_mem_load_range(s, m), asm::Memory::StoreRange => sp_mem_store_range(s, m) } }
""")
    SW = 'stack_wf(old(stack)@)'
    SWE = 'stack_wf(final(stack)@)'
    sy.fn('step_op_alu', F('step_op_alu', requires=SW, ensures=SWE + """,
            r matches Err(e) ==> err_plain(e),
            old(stack)@.len() < 2 ==> r is Err,
            old(stack)@.len() >= 2 ==> ({ let n = old(stack)@.len() as int;
                match sp_alu(op, old(stack)@[n - 2], old(stack)@[n - 1]) {
                    Some(v) => r is Ok && final(stack)@ =~= old(stack)@.take(n - 2).push(v),
                    None => r is Err } })""", props=('C05', 'C08')))

    def R9(params, body, typed, ret, ens):
        return ('R9', '|%s| %s' % (params, body), '|%s| -> (o: %s) ensures %s { %s }' % (typed, ret, ens, body))
    OW = 'OpResult<Word>'

    def pc2(variant, spec):
        return ('asm::Pred::%s =>' % variant, {'params': 'a: Word, b: Word', 'ret': 'o: ' + OW, 'ensures': 'o == Ok::<Word, OpError>(%s)' % spec})
    sy.fn('step_op_pred', F('step_op_pred', requires=SW, ensures=SWE + """,
            r matches Err(e) ==> err_plain(e),
            !(op is EqSet) ==> match sp_pred(op, old(stack)@) { Some(s) => r is Ok && final(stack)@ =~= s, None => r is Err }""",
        closures=dict([pc2('Eq', 'b2w(a == b)'), pc2('Gt', 'b2w(a > b)'), pc2('Lt', 'b2w(a < b)'), pc2('Gte', 'b2w(a >= b)'), pc2('Lte', 'b2w(a <= b)'),
                       pc2('And', 'b2w(a != 0 && b != 0)'), pc2('Or', 'b2w(a != 0 || b != 0)'), pc2('BitAnd', 'a & b'), pc2('BitOr', 'a | b'),
                       ('asm::Pred::Not =>', {'params': 'a: Word', 'ret': 'o: ' + OW, 'ensures': 'o == Ok::<Word, OpError>(b2w(a == 0))'})]),
        props=('C05', 'C08')))

    FROM_STACK = ('R7', '.map_err(From::from)', '.map_err(|e: crate::error::StackError| -> (o: OpError) ensures o == OpError::<core::convert::Infallible>::Stack(e) { From::from(e) })', 'all')
    NONE_MAP = lambda before: ('R9', before, '.map(|_u: ()| -> (o: Option<ProgramControlFlow>) ensures o is None { None })')
    sy.fn('step_op_stack', F('step_op_stack', requires=SW + ', repeat_wf(old(repeat)@)', ensures=SWE + """, repeat_wf(final(repeat)@),
            r matches Err(e) ==> err_plain(e),
            op is RepeatEnd ==> final(stack)@ == old(stack)@ && (old(repeat)@.len() == 0 ==> r is Err) && (old(repeat)@.len() > 0 ==> ({
                let sl = old(repeat)@.last(); let rest = old(repeat)@.drop_last();
                match sp_repeat_end(sl) {
                    (None, _) => r is Ok && r->Ok_0 is None && final(repeat)@ =~= rest,
                    (Some(sl2), _) => r is Ok && r->Ok_0 == Some(ProgramControlFlow::Pc(sl.start as usize)) && final(repeat)@ =~= rest.push(sl2) } })),
            op is Repeat ==> match sp_repeat_begin(pc as int, old(stack)@, old(repeat)@) {
                    Some((s, rs)) => r is Ok && r->Ok_0 is None && final(stack)@ =~= s && final(repeat)@ =~= rs,
                    None => r is Err && final(repeat)@ == old(repeat)@ },
            !(op is RepeatEnd) && !(op is Repeat) ==> final(repeat)@ == old(repeat)@ &&
                match sp_stack(op, old(stack)@) { Some(s) => r is Ok && r->Ok_0 is None && final(stack)@ =~= s, None => r is Err }""",
        rewrites=[('R7', '.map(ProgramControlFlow::Pc)', '.map(|p: usize| -> (o: ProgramControlFlow) ensures o == ProgramControlFlow::Pc(p) { ProgramControlFlow::Pc(p) })'),
                  FROM_STACK],
        closures={'asm::Stack::Drop =>': {'params': '_w: &[Word]', 'ret': 'o: OpResult<()>', 'ensures': 'o is Ok'},
                  'asm::Stack::Dup =>': {'params': 'w: Word', 'ret': 'o: OpResult<[Word; 2]>', 'ensures': 'o is Ok && o->Ok_0@ == seq![w, w]'},
                  'asm::Stack::Swap =>': {'params': 'a: Word, b: Word', 'ret': 'o: OpResult<[Word; 2]>', 'ensures': 'o is Ok && o->Ok_0@ == seq![b, a]'},
                  'asm::Stack::Pop =>': {'params': '_w: Word', 'ret': 'o: ()'},
                  'r.map(': {'params': '_u: ()', 'ret': 'o: Option<ProgramControlFlow>', 'ensures': 'o is None'}},
        props=('C05', 'C08', 'C09')))
    sy.fn('step_op_total_control_flow', F('step_op_total_control_flow', requires=SW, ensures=SWE + """,
            r matches Err(e) ==> err_plain(e),
            op is Halt ==> final(stack)@ == old(stack)@ && r is Ok && r->Ok_0 == Some(ProgramControlFlow::Halt),
            !(op is Halt) && old(stack)@.len() < (if op is JumpIf { 2int } else { 1int }) ==> r is Err,
            op is JumpIf && old(stack)@.len() >= 2 ==> ({ let n = old(stack)@.len() as int;
                final(stack)@ =~= old(stack)@.take(n - 2) &&
                match crate::sp_jump_target(pc as int, old(stack)@[n - 2], old(stack)@[n - 1]) {
                    None => r is Err, Some(None) => r is Ok && r->Ok_0 is None,
                    Some(Some(p)) => r is Ok && r->Ok_0 == Some(ProgramControlFlow::Pc(p as usize)) } }),
            op is HaltIf && old(stack)@.len() >= 1 ==> final(stack)@ =~= old(stack)@.drop_last() && match w2b(old(stack)@.last()) {
                None => r is Err, Some(false) => r is Ok && r->Ok_0 is None, Some(true) => r is Ok && r->Ok_0 == Some(ProgramControlFlow::Halt) },
            op is PanicIf && old(stack)@.len() >= 1 ==> final(stack)@ =~= old(stack)@.drop_last() && match w2b(old(stack)@.last()) {
                None => r is Err, Some(false) => r is Ok && r->Ok_0 is None, Some(true) => r is Err }""",
        closures={'panic_if(stack).map(': {'params': '_u: ()', 'ret': 'o: Option<ProgramControlFlow>', 'ensures': 'o is None'}}, props=('C05', 'C09')))

    def marm(name, sp, **kw):
        return F(name, requires=SW + ', mem_wf(old(memory)@)', ensures=SWE + """, mem_wf(final(memory)@), r matches Err(e) ==> err_plain(e),
            match crate::%s(old(stack)@, old(memory)@) { Some((s, m)) => r is Ok && final(stack)@ =~= s && final(memory)@ =~= m, None => r is Err }""" % sp,
                 props=('C05', 'C08'), **kw)
    sy.fn_r8('step_op_memory', F('step_op_memory', requires=SW + ', mem_wf(old(memory)@)', ensures=SWE + """, mem_wf(final(memory)@),
            r matches Err(e) ==> err_plain(e),
            match sp_memory(op, old(stack)@, old(memory)@) { Some((s, m)) => r is Ok && final(stack)@ =~= s && final(memory)@ =~= m, None => r is Err }""",
        props=('C05', 'C08')), {
        'Alloc': marm('step_op_memory__Alloc', 'sp_mem_alloc'),
        'Store': marm('step_op_memory__Store', 'sp_mem_store', rewrites=[]),
        'Load': marm('step_op_memory__Load', 'sp_mem_load', closures={0: {'params': 'addr: Word', 'ret': 'o: OpResult<Word>', 'ensures': 'match memory.load_spec(addr) { Some(w) => o == Ok::<Word, OpError>(w), None => o matches Err(e) && e is Memory }'}}),
        'Free': marm('step_op_memory__Free', 'sp_mem_free'),
        'LoadRange': marm('step_op_memory__LoadRange', 'sp_mem_load_range', rewrites=[]),
        'StoreRange': marm('step_op_memory__StoreRange', 'sp_mem_store_range', mode='assumed',
                           note='closure captures `memory` mutably (Verus: unsupported); callees pop_len_words and Memory::store_range are verified; composition is Kani K2'),
    })

    sy.fn('step_op_parent_memory', F('step_op_parent_memory', requires=SW, ensures=SWE + """,
            r matches Err(e) ==> err_plain(e),
            parent_memory@.len() == 0 ==> r is Err,
            parent_memory@.len() > 0 ==> ({ let m = (*parent_memory@.last())@;
                match (match op { asm::ParentMemory::Load => crate::sp_mem_load(old(stack)@, m), asm::ParentMemory::LoadRange => crate::sp_mem_load_range(old(stack)@, m) }) {
                    Some((s, m2)) => r is Ok && final(stack)@ =~= s, None => r is Err } })""",
        closures={0: {'params': 'addr: Word', 'ret': 'o: OpResult<Word>', 'ensures': 'match memory.load_spec(addr) { Some(w) => o == Ok::<Word, OpError>(w), None => o matches Err(e) && err_plain(e) }'}},
        props=('C05', 'C08', 'C10')))

    # ------------------------------------------------------------------ state_read
    sr = u.module('state_read', file='crates/vm/src/state_read.rs', uses="""
use crate::error::{MemoryError, OpError, OpResult, StackError, StateReadArgError, err_plain}; use crate::{Memory, Stack};
use crate::essential_types::{convert::u8_32_from_word_4, ContentAddress, Key, Value, Word}; use crate::*;
broadcast use crate::spec_from_is_from;""")
    sr.spec('''
pub open spec fn read_outcome<E>(res: Result<Seq<Seq<i64>>, E>, r: Result<(), OpError<E>>, m0: Seq<i64>, m1: Seq<i64>, addr: int) -> bool {
    match res { Err(e) => r matches Err(e2) && e2 == OpError::<E>::StateRead(e),
                Ok(vals) => if crate::layout_fits(m0, addr, vals) { r is Ok && m1 =~= crate::layout_k(m0, addr, vals, vals.len() as int) }
                            else { r matches Err(e) && err_plain(e) } } }
''')
    sr.trait('trait StateRead', [F('key_range', ensures="""match self.spec_key_range(contract_addr, key@, num_values) {
            Ok(vs) => r is Ok && r->Ok_0.deep_view() == vs, Err(e) => r == Err::<Vec<Vec<Word>>, Self::Error>(e) }""", props=('C11',))],
             extra='    spec fn spec_key_range(&self, contract_addr: ContentAddress, key: Seq<i64>, num_values: usize) -> Result<Seq<Seq<i64>>, Self::Error>;')
    sr.trait('trait StateReads', [F('pre', ensures='*r == self.spec_pre()'), F('post', ensures='*r == self.spec_post()')],
             extra='    spec fn spec_pre(&self) -> Self::Pre;\n    spec fn spec_post(&self) -> Self::Post;')
    sr.fn('pop_memory_address', F('pop_memory_address', requires=SW, ensures=SWE + """,
            old(stack)@.len() > 0 && old(stack)@.last() >= 0 ==> r == Ok::<usize, StateReadArgError>(old(stack)@.last() as usize) && final(stack)@ =~= old(stack)@.drop_last(),
            !(old(stack)@.len() > 0 && old(stack)@.last() >= 0) ==> r is Err""", props=('C05', 'C11')))
    sr.fn('pop_key_range_args', F('pop_key_range_args', requires=SW, ensures=SWE + """,
            match crate::sp_key_args(old(stack)@) {
                Some((key, n, rest)) => r is Ok && r->Ok_0.0@ =~= key && r->Ok_0.1 == n as usize && final(stack)@ =~= rest,
                None => r is Err }""",
        closures={'pop_len_words::<_, _, StackError>(': {'params': 'words: &[Word]', 'ret': 'o: Result<Vec<Word>, StackError>', 'ensures': 'o is Ok && o->Ok_0@ =~= words@'}},
        props=('C05', 'C11')))
    sr.fn('write_values_to_memory', F('write_values_to_memory', requires='mem_wf(old(memory)@)', ensures="""mem_wf(final(memory)@),
            final(memory)@.len() == old(memory)@.len(),
            crate::layout_fits(old(memory)@, mem_addr as int, values.deep_view()) ==> r is Ok &&
                final(memory)@ =~= crate::layout_k(old(memory)@, mem_addr as int, values.deep_view(), values@.len() as int),
            !crate::layout_fits(old(memory)@, mem_addr as int, values.deep_view()) ==> r is Err""",
        head_ghost='let ghost mem_addr0 = mem_addr as int;', attrs=['#[verifier::loop_isolation(false)]'],
        head_proof='crate::lemma_fits(values.deep_view()); assert(values.deep_view().len() == values@.len());',
        loops={0: {'iter_name': 'it', 'head_proof': """crate::lemma_fits(values.deep_view()); assert(values.deep_view().len() == values@.len());
                assert(values.deep_view()[it.index@ as int] == value@);
                let ghost vals = values.deep_view(); let ghost idx = it.index@ as int; let ghost n = vals.len() as int;
                assert(crate::sum_lens(vals, idx + 1) == crate::sum_lens(vals, idx) + vals[idx].len());
                assert(0 <= crate::sum_lens(vals, idx));
                assert(crate::sum_lens(vals, idx + 1) <= crate::sum_lens(vals, n));
                assert(0 <= crate::sum_lens(vals, n));""", 'invariant': """
            mem_wf(memory@), memory@.len() == old(memory)@.len(), values_len == values@.len(), index_len_pairs_len == 2 * values_len,
            it.seq() == values@,
            mem_addr0 == mem_addr - 2 * it.index@, value_addr == crate::val_addr(mem_addr0 as int, values.deep_view(), it.index@ as int),
            0 <= mem_addr0, mem_addr0 + 2 * values_len <= i64::MAX,
            crate::val_addr(mem_addr0 as int, values.deep_view(), it.index@ as int) <= memory@.len() || it.index@ == 0,
            memory@ =~= crate::layout_k(old(memory)@, mem_addr0 as int, values.deep_view(), it.index@ as int)"""}},
        props=('C05', 'C11')))

    SR_MAP = ('R7', '.map_err(OpError::StateRead)', '.map_err(|e: S::Error| -> (o: OpError<S::Error>) ensures o == OpError::<S::Error>::StateRead(e) { OpError::StateRead(e) })')
    RD_ENS = """stack_wf(final(stack)@),
            match crate::sp_key_args(old(stack)@) {
                None => r matches Err(e) && err_plain(e),
                Some((key, n, rest)) => %s }"""
    sr.fn('read_key_range', F('read_key_range', requires=SW, ensures=RD_ENS % """final(stack)@ =~= rest &&
                    match state_read.spec_key_range(*contract_addr, key, n as usize) {
                        Ok(vals) => r is Ok && r->Ok_0.deep_view() == vals,
                        Err(e) => r matches Err(e2) && e2 == OpError::<S::Error>::StateRead(e) }""",
        rewrites=[SR_MAP], props=('C05', 'C11')))
    sr.fn('read_key_range_ext', F('read_key_range_ext', requires=SW, ensures=RD_ENS % """
                    if rest.len() < 4 { r matches Err(e) && err_plain(e) } else {
                        final(stack)@ =~= rest.take(rest.len() - 4) &&
                        exists|a: [i64; 4]| a@ == rest.skip(rest.len() - 4) &&
                        match state_read.spec_key_range(ContentAddress(crate::essential_types::convert::spec_u8_32_from_word_4(a)), key, n as usize) {
                            Ok(vals) => r is Ok && r->Ok_0.deep_view() == vals,
                            Err(e) => r matches Err(e2) && e2 == OpError::<S::Error>::StateRead(e) } }""",
        rewrites=[SR_MAP], props=('C05', 'C11')))
    KR_ENS = """stack_wf(final(stack)@), mem_wf(final(memory)@), final(memory)@.len() == old(memory)@.len(),
            match crate::sp_read_args(old(stack)@) {
                None => r matches Err(e) && err_plain(e),
                Some((key, n, addr, rest)) => %s }"""
    LAY = "crate::state_read::read_outcome(%s, r, old(memory)@, final(memory)@, addr)"
    sr.fn('key_range', F('key_range', requires=SW + ', mem_wf(old(memory)@)', ensures=KR_ENS % ("final(stack)@ =~= rest && " + LAY % 'state_read.spec_key_range(*contract_addr, key, n as usize)'),
          props=('C05', 'C11')))
    sr.fn('key_range_ext', F('key_range_ext', requires=SW + ', mem_wf(old(memory)@)', ensures=KR_ENS % ("""
                    if rest.len() < 4 { r matches Err(e) && err_plain(e) } else {
                        final(stack)@ =~= rest.take(rest.len() - 4) &&
                        exists|a: [i64; 4]| a@ == rest.skip(rest.len() - 4) && """ + LAY % 'state_read.spec_key_range(ContentAddress(crate::essential_types::convert::spec_u8_32_from_word_4(a)), key, n as usize)' + " }"),
          props=('C05', 'C11')))
    sy.fn('step_op_state_reads', F('step_op_state_reads', requires=SW + ', mem_wf(old(memory)@)', ensures="""
            stack_wf(final(stack)@), mem_wf(final(memory)@), final(memory)@.len() == old(memory)@.len(),
            match crate::sp_read_args(old(stack)@) {
                None => r matches Err(e) && err_plain(e),
                Some((key, n, addr, rest)) => ({
                    let ext = op is KeyRangeExtern || op is PostKeyRangeExtern;
                    let post = op is PostKeyRange || op is PostKeyRangeExtern;
                    if ext && rest.len() < 4 { r matches Err(e) && err_plain(e) }
                    else if ext { final(stack)@ =~= rest.take(rest.len() - 4) && exists|a: [i64; 4]| a@ == rest.skip(rest.len() - 4) &&
                        crate::state_read::read_outcome(
                            if post { state.spec_post().spec_key_range(ContentAddress(crate::essential_types::convert::spec_u8_32_from_word_4(a)), key, n as usize) }
                            else { state.spec_pre().spec_key_range(ContentAddress(crate::essential_types::convert::spec_u8_32_from_word_4(a)), key, n as usize) },
                            r, old(memory)@, final(memory)@, addr) }
                    else { final(stack)@ =~= rest && crate::state_read::read_outcome(
                            if post { state.spec_post().spec_key_range(*contract_addr, key, n as usize) } else { state.spec_pre().spec_key_range(*contract_addr, key, n as usize) },
                            r, old(memory)@, final(memory)@, addr) } }) }""",
          props=('C05', 'C11', 'C03')))

    sy.fn('step_op_access', F('step_op_access', params={'repeat': 'repeat_'}, requires=SW + ', crate::access::access_wf(access)', ensures=SWE + """,
            r matches Err(e) ==> err_plain(e), final(repeat_)@ == old(repeat_)@,
            ({ let sol = access.solutions@[access.index as int];
               match op {
                asm::Access::PredicateData => match crate::sp_pred_data(old(stack)@, sol.predicate_data.deep_view()) { Some(s) => r is Ok && final(stack)@ =~= s, None => r is Err },
                asm::Access::PredicateDataLen => match crate::sp_pred_data_len(old(stack)@, sol.predicate_data.deep_view()) { Some(s) => r is Ok && final(stack)@ =~= s, None => r is Err },
                asm::Access::PredicateDataSlots => match crate::sp_pred_data_slots(old(stack)@, sol.predicate_data.deep_view()) { Some(s) => r is Ok && final(stack)@ =~= s, None => r is Err },
                asm::Access::ThisAddress => if old(stack)@.len() + 4 <= 4096 { r is Ok && final(stack)@ =~= old(stack)@ + crate::essential_types::convert::spec_word_4_from_u8_32(sol.predicate_to_solve.predicate.0)@ } else { r is Err },
                asm::Access::ThisContractAddress => if old(stack)@.len() + 4 <= 4096 { r is Ok && final(stack)@ =~= old(stack)@ + crate::essential_types::convert::spec_word_4_from_u8_32(sol.predicate_to_solve.contract.0)@ } else { r is Err },
                asm::Access::RepeatCounter => if old(repeat_)@.len() > 0 && old(stack)@.len() < 4096 { r is Ok && final(stack)@ =~= old(stack)@.push(old(repeat_)@.last().counter) } else { r is Err },
                asm::Access::PredicateExists => true } })""",
        rewrites=[('R7', '.map_err(From::from)', '.map_err(|e: crate::error::AccessError| -> (o: OpError) ensures o == OpError::<core::convert::Infallible>::Access(e) { From::from(e) })')],
        props=('C05', 'C12', 'C09')))

    # ------------------------------------------------------------------ compute (assumed) + vm
    cm = u.module('compute', file='crates/vm/src/compute.rs', uses="""
use crate::error::{ComputeError, ExecError, MemoryError, OpError, OpResult}; use crate::{Access, Gas, GasLimit, LazyCache, Memory, Op, OpAccess, OpGasCost, Repeat, Stack, StateReads, Vm};
use std::sync::Arc; use crate::*;""")
    cm.item('const MAX_COMPUTE_DEPTH')
    cm.item('struct ComputeInputs')
    cm.fn('compute', F('compute', mode='assumed_sig',
          requires='stack_wf(old(inputs.stack)@), mem_wf(old(inputs.memory)@)',
          ensures='stack_wf(final(inputs.stack)@), mem_wf(final(inputs.memory)@), r matches Err(e) ==> e is Compute',
          note='rayon fork/join of child VMs: outside Verus (closures capturing &mut, rayon) and Kani (threads); only the resource-bound part of its contract is assumed here; the join (compute_effects) is Kani K2',
          props=('C05', 'C07', 'C10')))
    vmm = u.module('vm', file='crates/vm/src/vm.rs', uses="""
use crate::error::{EvalError, EvalResult, ExecError, OpError, OutOfGasError, err_plain}; use crate::sync::step_op;
use crate::{Access, Gas, GasLimit, LazyCache, Memory, Op, OpAccess, OpGasCost, ProgramControlFlow, Repeat, Stack, StateReads};
use crate::essential_types::convert::bool_from_word; use std::sync::Arc; use crate::*;
broadcast use crate::spec_from_is_from;""")
    vmm.item('struct Vm')
    vmm.spec("""
pub open spec fn vm_wf(vm: Vm) -> bool {
    stack_wf(vm.stack@) && mem_wf(vm.memory@) && repeat_wf(vm.repeat@) && vm.parent_memory@.len() <= 1 }
""")

    sy.fn('step_op_crypto', F('step_op_crypto', mode='assumed_sig', requires=SW, ensures=SWE + ', r matches Err(e) ==> err_plain(e)',
          note='SHA-256 / ed25519 / secp256k1 primitives are external crates (FFI); only the resource-bound / error-class part is assumed', props=('C05', 'C12')))
    sy.fn('step_op_compute', F('step_op_compute', requires='stack_wf(old(inputs.stack)@), mem_wf(old(inputs.memory)@)',
          ensures="""stack_wf(final(inputs.stack)@), mem_wf(final(inputs.memory)@), r matches Err(e) ==> e is Compute,
            op is ComputeEnd ==> r is Ok && r->Ok_0 == ProgramControlFlow::ComputeEnd && final(inputs.stack)@ == old(inputs.stack)@ && final(inputs.memory)@ == old(inputs.memory)@,
            op is Compute && r is Ok ==> r->Ok_0 is ComputeResult""",
          rewrites=[('R7', '.map(ProgramControlFlow::ComputeResult)', '.map(|t: (usize, Gas, bool)| -> (o: ProgramControlFlow) ensures o == ProgramControlFlow::ComputeResult(t) { ProgramControlFlow::ComputeResult(t) })')],
          props=('C05', 'C10')))

    sy.fn('step_op', F('step_op', requires='crate::vm::vm_wf(*old(vm)), crate::access::access_wf(access)', ensures="""
            crate::vm::vm_wf(*final(vm)), final(vm).pc == old(vm).pc, final(vm).halt == old(vm).halt,
            final(vm).parent_memory@ == old(vm).parent_memory@,
            r matches Ok(c) ==> crate::total_control_flow::ctrl_kind_ok(op, c),
            r matches Err(e) ==> !(e is OutOfGas)""",
        rewrites=[('R9', '.map(|_| None)', '.map(|_u: ()| -> (o: Option<ProgramControlFlow>) ensures o is None { None })', 'all'),
                  ('R7', '.map_err(OpError::from_infallible)', '.map_err(|e: OpError| -> (o: OpError<S::Error>) requires err_plain(e) ensures err_plain(o) { OpError::from_infallible(e) })', 'all'),
                  ('R7', '.map(Some)', '.map(|c: ProgramControlFlow| -> (o: Option<ProgramControlFlow>) ensures o == Some(c) { Some(c) })')],
        props=('C05', 'C07', 'C09', 'C10')))

    vmm.spec("""
// cost of the ops fetched at the visited program counters
pub open spec fn trace_cost<OA: OpAccess<Op = Op>, OG: OpGasCost>(oa: OA, og: OG, pcs: Seq<usize>) -> int decreases pcs.len() {
    if pcs.len() == 0 { 0 } else {
        trace_cost(oa, og, pcs.drop_last()) + (match oa.spec_op_access(pcs.last()) { Some(Ok(op)) => og.spec_cost(op) as int, _ => 0 }) } }
pub open spec fn trace_fetched<OA: OpAccess<Op = Op>>(oa: OA, pcs: Seq<usize>) -> bool {
    forall|i: int| 0 <= i < pcs.len() ==> (#[trigger] oa.spec_op_access(pcs[i])) matches Some(Ok(_)) }
// the visited program counters form a path: each step continues where the previous op's control-flow result says (C09)
pub open spec fn path_ok<OA: OpAccess<Op = Op>>(oa: OA, pc0: usize, halt0: bool, pcs: Seq<usize>, ctrls: Seq<Option<ProgramControlFlow>>) -> bool {
    pcs.len() == ctrls.len() && (pcs.len() > 0 ==> pcs[0] == pc0)
    && (forall|i: int| 0 <= i < pcs.len() ==> (match #[trigger] oa.spec_op_access(pcs[i]) { Some(Ok(op)) => crate::total_control_flow::ctrl_kind_ok(op, ctrls[i]), _ => false }))
    && (forall|i: int| 0 <= i < pcs.len() - 1 ==> !crate::total_control_flow::ctrl_stops(#[trigger] ctrls[i], halt0)
            && pcs[i + 1] as int == crate::total_control_flow::ctrl_next(pcs[i], ctrls[i])) }
// how a successful run ends: after a stopping op (Halt / ComputeEnd / halting Compute) or when the pc leaves the program
pub open spec fn run_end_ok<OA: OpAccess<Op = Op>>(oa: OA, pc0: usize, halt0: bool, pcs: Seq<usize>, ctrls: Seq<Option<ProgramControlFlow>>, pc_end: usize, halt_end: bool) -> bool {
    if pcs.len() == 0 { pc_end == pc0 && halt_end == halt0 && oa.spec_op_access(pc0) is None } else {
        let c = ctrls.last(); let p = pcs.last();
        pc_end as int == crate::total_control_flow::ctrl_next(p, c)
        && (crate::total_control_flow::ctrl_stops(c, halt0) || oa.spec_op_access(pc_end) is None)
        && halt_end == (halt0 || (c matches Some(ProgramControlFlow::ComputeResult((_, _, h))) && h)) } }
""")
    EXEC_ENS = """vm_wf(*final(self)),
            r matches Ok(g) ==> g <= gas_limit.total && exists|pcs: Seq<usize>, child: Seq<u64>, ctrls: Seq<Option<ProgramControlFlow>>|
                trace_fetched(op_access, pcs) && g == trace_cost(op_access, *op_gas_cost, pcs) + crate::sum_u64(child)
                && path_ok(op_access, old(self).pc, old(self).halt, pcs, ctrls)
                && run_end_ok(op_access, old(self).pc, old(self).halt, pcs, ctrls, final(self).pc, final(self).halt),
            r matches Err(ExecError(p, e)) ==> p == final(self).pc,
            r matches Err(ExecError(p, OpError::OutOfGas(oog))) ==> (op_access.spec_op_access(p) matches Some(Ok(_))) ==>
                oog.limit == gas_limit.total && oog.spent <= gas_limit.total && oog.spent + oog.op_gas > gas_limit.total"""
    EXEC_INV = """vm_wf(*self), crate::access::access_wf(access), op_access.spec_op_access(usize::MAX) is None,
                gas_spent <= gas_limit.total, trace_fetched(op_access, pcs),
                gas_spent == trace_cost(op_access, *op_gas_cost, pcs) + crate::sum_u64(child),
                path_ok(op_access, old(self).pc, old(self).halt, pcs, ctrls), steps == pcs.len()"""
    EXEC_INV_NB = """self.halt == old(self).halt, pcs.len() == 0 ==> self.pc == old(self).pc,
                pcs.len() > 0 ==> !crate::total_control_flow::ctrl_stops(ctrls.last(), old(self).halt) && self.pc as int == crate::total_control_flow::ctrl_next(pcs.last(), ctrls.last())"""
    EXEC_LOOP_ENS = 'run_end_ok(op_access, old(self).pc, old(self).halt, pcs, ctrls, self.pc, self.halt)'
    EXEC_KW = dict(
          requires='vm_wf(*old(self)), crate::access::access_wf(access), op_access.spec_op_access(usize::MAX) is None',
          head_ghost='let ghost mut pcs: Seq<usize> = Seq::empty(); let ghost mut child: Seq<u64> = Seq::empty(); let ghost mut ctrls: Seq<Option<ProgramControlFlow>> = Seq::empty(); let ghost mut steps: nat = 0;',
          rewrites=[('R3', 'self.halt |= halt;', 'self.halt = self.halt || halt;'),
                    ],
          closures={'res.map_err(': {'params': 'err: OA::Error', 'ret': 'o: ExecError<S::Error>', 'ensures': 'o.0 == self.pc'},
                    'checked_add(op_gas).filter(': {'params': 'spent_r: &u64', 'ret': 'b: bool', 'ensures': 'b == (*spent_r <= gas_limit.total)', 'body_prefix': 'let spent = *spent_r;'},
                    'checked_add(gas).filter(': {'params': 'spent_r: &u64', 'ret': 'b: bool', 'ensures': 'b == (*spent_r <= gas_limit.total)', 'body_prefix': 'let spent = *spent_r;'}},
          hints=[('gas_spent = next_spent;', 'after', 'let old_pcs = pcs; pcs = pcs.push(self.pc); assert(pcs.drop_last() =~= old_pcs);'),
                 # C07 "stops before that operation has any effect": an op is executed only after it has been charged
                 ('let res = step_op(', 'before', 'assert(pcs.len() == steps + 1 && pcs.last() == self.pc && gas_spent <= gas_limit.total); steps = steps + 1;'),
                 ('match update {', 'before', 'let old_ctrls = ctrls; ctrls = ctrls.push(update); assert(ctrls.drop_last() =~= old_ctrls);'),
                 ('self.pc = pc;', 'before', 'let old_child = child; child = child.push(gas); assert(child.drop_last() =~= old_child);')])
    vmm.impl('impl Vm', [
        F('exec', attrs=['#[verifier::exec_allows_no_decreases_clause]'], ensures=EXEC_ENS, loops={0: {'invariant': EXEC_INV, 'invariant_except_break': EXEC_INV_NB, 'ensures': EXEC_LOOP_ENS}},
          props=('C05', 'C07', 'C09', 'C10'), **EXEC_KW),
        # second weaving of the same text: termination for positive costs (C07), variant = remaining gas
        F('exec', rename='exec__term', ensures=EXEC_ENS, canary=False,
          loops={0: {'invariant': EXEC_INV + ', forall|o: Op| #[trigger] op_gas_cost.spec_cost(o) >= 1', 'invariant_except_break': EXEC_INV_NB, 'ensures': EXEC_LOOP_ENS,
                     'decreases': 'gas_limit.total - gas_spent'}},
          props=('C07',), **dict(EXEC_KW, requires=EXEC_KW['requires'] + ', forall|o: Op| #[trigger] op_gas_cost.spec_cost(o) >= 1')),
        F('exec_ops', requires='vm_wf(*old(self)), crate::access::access_wf(access)', ensures=re.sub(r'(?<!spec_)op_access', 'ops', EXEC_ENS), props=('C05', 'C07', 'C09')),
        F('eval_ops', requires='vm_wf(*old(self)), crate::access::access_wf(access)',
          ensures="""vm_wf(*final(self)),
            r matches Ok(b) ==> final(self).stack@.len() > 0 && w2b(final(self).stack@.last()) == Some(b),
            r matches Err(EvalError::InvalidEvaluation(st)) ==> final(self).stack@.len() == 0 || w2b(final(self).stack@.last()) is None""", props=('C05', 'C09')),
        F('eval', requires='vm_wf(*old(self)), crate::access::access_wf(access), op_access.spec_op_access(usize::MAX) is None',
          ensures="""vm_wf(*final(self)),
            r matches Ok(b) ==> final(self).stack@.len() > 0 && w2b(final(self).stack@.last()) == Some(b),
            r matches Err(EvalError::InvalidEvaluation(st)) ==> final(self).stack@.len() == 0 || w2b(final(self).stack@.last()) is None""",
          rewrites=[('R1', 'Some(&w) => w,', 'Some(w_r) => *w_r,'),
                    ],
          closures={'.ok_or_else(': {'ret': 'o: EvalError<S::Error>', 'ensures': 'o is InvalidEvaluation'}},
          props=('C05', 'C09')),
    ])
    return u
