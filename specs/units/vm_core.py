"""Unit vm_core: essential-vm's synchronous core (error, stack, memory, alu, pred, repeat,
total_control_flow, state_read, access, sync dispatchers, vm exec loop) + the essential-types and
essential-asm items it uses.  One file, so a caller is checked against the same woven contract its
callee is proved against."""
import os
from unit import Unit
from weave import FnSpec as F

HERE = os.path.dirname(os.path.abspath(__file__))


def _read(name):
    with open(os.path.join(HERE, '..', 'prelude', name)) as f:
        return f.read()


def build(asm_expanded):
    u = Unit('vm_core')
    u.header = _read('header.rs')
    u.prelude = [_read('std.rs'), _read('vm_spec.rs')]

    # ------------------------------------------------------------------ crate root (lib.rs)
    root = u.module('', file='crates/vm/src/lib.rs', uses='pub use crate::stack::Stack;')
    root.item('type Gas')
    root.item('struct GasLimit')
    # ------------------------------------------------------------------ essential-types
    ty = u.module('essential_types', file='crates/types/src/lib.rs', uses='')
    for t in ('type Word', 'type Key', 'type Value', 'type Hash', 'struct ContentAddress', 'struct PredicateAddress'):
        ty.item(t)
    conv = u.module('convert', file='crates/types/src/convert.rs', parent=ty, uses='use crate::essential_types::*;')
    conv.fn('bool_from_word', F('bool_from_word', ensures='r == crate::w2b(word)', props=('C08', 'C09')))

    # ------------------------------------------------------------------ essential-vm: error
    er = u.module('error', file='crates/vm/src/error.rs', uses='''
use crate::essential_types::Word; use crate::Gas; use core::convert::Infallible;
use crate::ext::asm_errors as asm; use crate::ext::ed25519_dalek; use crate::ext::secp256k1;
''')
    for t in ('type ExecResult', 'type EvalResult', 'type OpResult', 'struct ExecError', 'enum EvalError', 'enum OpError',
              'struct OutOfGasError', 'enum StateReadArgError', 'enum AccessError', 'enum MissingAccessArgError',
              'enum AluError', 'enum CryptoError', 'type StackResult', 'enum StackError', 'enum LenWordsError',
              'type RepeatResult', 'enum RepeatError', 'type TotalControlFlowResult', 'enum TotalControlFlowError',
              'type MemoryResult', 'enum MemoryError', 'enum ParentMemoryError', 'type ComputeResult', 'enum ComputeError',
              'enum DecodeError', 'enum EncodeError'):
        er.item(t)

    # ------------------------------------------------------------------ essential-vm: stack
    st = u.module('stack', file='crates/vm/src/stack.rs', uses='''
use crate::essential_types::Word; use crate::error::{LenWordsError, StackError, StackResult};
use crate::essential_types::convert::bool_from_word; use crate::*;
''')
    st.item('struct Stack')
    st.spec('''
impl View for Stack { type V = Seq<i64>; closed spec fn view(&self) -> Seq<i64> { self.0@ } }
broadcast use {crate::iter_items_array, crate::iter_items_vec};
''')
    WF = 'stack_wf(old(self)@)'
    WFE = 'stack_wf(final(self)@)'

    def sop(name, spec_fn, props=('C05', 'C08'), **kw):
        return F(name, requires=WF, ensures=WFE + """,
            match crate::%s(old(self)@%s) { Some(s) => r is Ok && final(self)@ =~= s, None => r is Err }""" % (spec_fn, kw.pop('extra', '')),
                 props=props, **kw)

    def popn(name, n, **kw):
        return F(name, requires=WF, ensures=WFE + """,
            old(self)@.len() >= %d ==> r is Ok && r->Ok_0@ =~= old(self)@.subrange(old(self)@.len() - %d, old(self)@.len() as int)
                 && final(self)@ =~= old(self)@.take(old(self)@.len() - %d),
            old(self)@.len() < %d ==> r is Err,
            final(self)@.len() <= old(self)@.len()""" % (n, n, n, n), props=('C05', 'C08'), **kw)

    R2_pop2 = ('R2', 'let [w0, w1] = self.pop2()?;', 'let t2 = self.pop2()?; let w0 = t2[0]; let w1 = t2[1];')

    def pop_push(name, nin, nout):
        """generic popN_pushM<F, E>(f)"""
        n = nin
        args = ', '.join('old(self)@[old(self)@.len() - %d]' % (n - k) for k in range(n)) if nin != 8 else None
        if nin == 8:
            call_req = 'forall|a: [Word; 8]| a@ == old(self)@.subrange(old(self)@.len() - 8, old(self)@.len() as int) ==> f.requires((a,))'
            ens_call = 'exists|a: [Word; 8], fr: Result<Word, E>| a@ == old(self)@.subrange(old(self)@.len() - 8, old(self)@.len() as int) && #[trigger] f.ensures((a,), fr) && '
        else:
            call_req = 'f.requires((%s,))' % args
            ens_call = 'exists|fr: Result<%s, E>| #[trigger] f.ensures((%s,), fr) && ' % ('Word' if nout == 1 else '[Word; %d]' % nout, args)
        if nout == 1:
            okcase = 'Ok(x) => (t.len() < 4096 ==> r is Ok && final(self)@ =~= t.push(x)) && (t.len() >= 4096 ==> r is Err)'
        else:
            okcase = 'Ok(x) => (t.len() + %d <= 4096 ==> r is Ok && final(self)@ =~= t + x@) && (t.len() + %d > 4096 ==> r is Err)' % (nout, nout)
        rw = []
        if nin == 2:
            rw = [R2_pop2]
        return F(name, requires=WF + ', old(self)@.len() >= %d ==> %s' % (n, call_req),
                 ensures=WFE + """,
            old(self)@.len() < %d ==> r is Err,
            old(self)@.len() >= %d ==> ({ let t = old(self)@.take(old(self)@.len() - %d); %s match fr { %s, Err(e) => r is Err } })""" % (n, n, n, ens_call, okcase),
                 rewrites=rw, props=('C05', 'C08'))

    LW_REQ = WF + ', crate::lw_ok(old(self)@) ==> forall|sl: &[Word]| sl@ == crate::lw_words(old(self)@) ==> f.requires((sl,))'
    st.impl('impl Stack', [
        ('const', 'SIZE_LIMIT'),
        sop('push', 'sp_push', extra=', word'),
        F('extend', mode='assumed', requires=WF, ensures=WFE + """,
            old(self)@.len() + crate::iter_items(words).len() <= 4096 ==> r is Ok && final(self)@ == old(self)@ + crate::iter_items(words),
            old(self)@.len() + crate::iter_items(words).len() > 4096 ==> r is Err""",
          note='generic IntoIterator loop: iterator laws of an abstract I cannot be discharged; bounded Kani check through public callers', props=('C05', 'C08')),
        sop('reserve_zeroed', 'sp_reserve'),
        sop('load', 'sp_load'),
        sop('store', 'sp_store', rewrites=[('R2', 'let [word, ix] = self.pop2()?;', 'let t2 = self.pop2()?; let word = t2[0]; let ix = t2[1];')]),
        sop('dup_from', 'sp_dup_from', rewrites=[('R9', '|i| i.checked_sub(1)',
            '|i: usize| -> (o: Option<usize>) ensures o == (if i >= 1 { Some((i - 1) as usize) } else { None::<usize> }) { i.checked_sub(1) }')]),
        sop('swap_index', 'sp_swap_index'),
        sop('select', 'sp_select', mode='assumed', note='closure captures &mut self (Verus: unsupported); Kani K2 through step_op_stack(Select)'),
        sop('select_range', 'sp_select_range'),
        F('pop', requires=WF, ensures=WFE + """,
            old(self)@.len() > 0 ==> r == Ok::<Word, StackError>(old(self)@.last()) && final(self)@ =~= old(self)@.drop_last(),
            old(self)@.len() == 0 ==> r is Err && final(self)@ == old(self)@""", props=('C05', 'C08')),
        popn('pop2', 2),
        popn('pop3', 3, rewrites=[('R2', 'let [w0, w1] = self.pop2()?;', 'let t2 = self.pop2()?; let w0 = t2[0]; let w1 = t2[1];')]),
        popn('pop4', 4, rewrites=[('R2', 'let [w0, w1, w2] = self.pop3()?;', 'let t3 = self.pop3()?; let w0 = t3[0]; let w1 = t3[1]; let w2 = t3[2];')]),
        popn('pop8', 8, rewrites=[('R2', 'let [w4, w5, w6, w7] = self.pop4()?;', 'let t4 = self.pop4()?; let w4 = t4[0]; let w5 = t4[1]; let w6 = t4[2]; let w7 = t4[3];'),
                                  ('R2', 'let [w0, w1, w2, w3] = self.pop4()?;', 'let u4 = self.pop4()?; let w0 = u4[0]; let w1 = u4[1]; let w2 = u4[2]; let w3 = u4[3];')]),
        pop_push('pop1_push1', 1, 1),
        pop_push('pop2_push1', 2, 1),
        pop_push('pop8_push1', 8, 1),
        pop_push('pop1_push2', 1, 2),
        pop_push('pop2_push2', 2, 2),
        pop_push('pop2_push4', 2, 4),
        F('pop_len', requires=WF, ensures=WFE + """,
            old(self)@.len() > 0 && old(self)@.last() >= 0 ==> r == Ok::<usize, StackError>(old(self)@.last() as usize) && final(self)@ =~= old(self)@.drop_last(),
            !(old(self)@.len() > 0 && old(self)@.last() >= 0) ==> r is Err,
            final(self)@.len() <= old(self)@.len()""", props=('C05', 'C08')),
        F('pop_len_words', requires=LW_REQ, ensures=WFE + """,
            !crate::lw_ok(old(self)@) ==> r is Err && final(self)@ == old(self)@,
            crate::lw_ok(old(self)@) ==> exists|sl: &[Word], fr: Result<O, E>| sl@ == crate::lw_words(old(self)@) && #[trigger] f.ensures((sl,), fr)
                && match fr { Ok(o) => r == Ok::<O, E>(o) && final(self)@ =~= crate::lw_rest(old(self)@), Err(e) => r is Err && final(self)@ == old(self)@ }""",
          rewrites=[('R7', 'map_err(StackError::LenWords)', 'map_err(|e| StackError::LenWords(e))')], props=('C05', 'C08')),
    ])
    st.fn('slice_split_len_words', F('slice_split_len_words', ensures="""
            crate::lw_ok(slice@) ==> r is Ok && r->Ok_0.0@ =~= crate::lw_rest(slice@) && r->Ok_0.1@ =~= crate::lw_words(slice@),
            !crate::lw_ok(slice@) ==> r is Err""", props=('C05', 'C08')))
    st.fn('slice_split_len', F('slice_split_len', ensures="""
            len <= slice@.len() ==> r is Ok && r->Ok_0.0@ =~= slice@.take(slice@.len() - len) && r->Ok_0.1@ =~= slice@.skip(slice@.len() - len),
            len > slice@.len() ==> r is Err""", props=('C05', 'C08')))
    st.impl('impl core::ops::Deref for Stack', [('type', 'Target'), F('deref', ensures='r@ == self@', props=('C05',))])
    return u
