"""Unit hash_core: essential-hash content addresses (C17, C04 address clause)."""
import os
from unit import Unit
from weave import FnSpec as F
import types_core

HERE = os.path.dirname(os.path.abspath(__file__))
NEEDS_ASM_EXPANSION = False


def _read(name):
    with open(os.path.join(HERE, '..', 'prelude', name)) as f:
        return f.read()


def build(_exp=None):
    u = Unit('hash_core')
    u.header = _read('header.rs')
    u.prelude = [_read('std.rs'), _read('types_spec.rs'), _read('hash_spec.rs')]
    types_core.add_types(u, 'essential_types', 'crate::essential_types')
    root = u.module('', file='crates/hash/src/lib.rs', uses='use crate::essential_types::{ContentAddress, Hash, Word};')
    root.spec('''
// D4: stand-in for the external serde::Serialize marker bound (no methods are called from verified code)
pub trait Serialize {}
impl Serialize for crate::essential_types::solution::Solution {}
pub open spec fn ca_le(a: ContentAddress, b: ContentAddress) -> bool { ord_le(a, b) }
pub broadcast axiom fn ca_le_total(a: ContentAddress, b: ContentAddress) ensures #[trigger] ord_le(a, b) || #[trigger] ord_le(b, a);
pub broadcast axiom fn ca_le_antisym(a: ContentAddress, b: ContentAddress) requires #[trigger] ord_le(a, b), #[trigger] ord_le(b, a) ensures a == b;
pub broadcast axiom fn ca_le_trans(a: ContentAddress, b: ContentAddress, c: ContentAddress) requires #[trigger] ord_le(a, b), #[trigger] ord_le(b, c) ensures ord_le(a, c);
pub open spec fn addr_chunks(s: Seq<ContentAddress>) -> Seq<Seq<u8>> { s.map_values(|a: ContentAddress| a.0@) }
pub open spec fn chunks_match(cs: Seq<Seq<u8>>, s: Seq<ContentAddress>) -> bool { cs.len() == s.len() && forall|k: int| 0 <= k < cs.len() ==> #[trigger] cs[k] == s[k].0@ }
// the canonical (sorted) arrangement of a multiset of addresses
pub open spec fn is_sorted_perm(t: Seq<ContentAddress>, s: Seq<ContentAddress>) -> bool { sorted_le(t) && t.to_multiset() == s.to_multiset() }
pub open spec fn sorted_of(s: Seq<ContentAddress>) -> Seq<ContentAddress> { choose|t: Seq<ContentAddress>| is_sorted_perm(t, s) }
// C17 / C04: the address of a solution set = SHA-256 of its solutions' addresses in sorted order
pub open spec fn set_addr_spec(addrs: Seq<ContentAddress>) -> ContentAddress { ContentAddress(sha256(concat_bytes(addr_chunks(sorted_of(addrs))))) }
// C17: the address of a contract = SHA-256 of its predicates' addresses in sorted order followed by the salt
pub open spec fn contract_addr_spec(addrs: Seq<ContentAddress>, salt: Hash) -> ContentAddress {
    ContentAddress(sha256(concat_bytes(addr_chunks(sorted_of(addrs)).push(salt@)))) }
pub proof fn lemma_sorted_unique(a: Seq<ContentAddress>, b: Seq<ContentAddress>)
    requires sorted_le(a), sorted_le(b), a.to_multiset() == b.to_multiset()
    ensures a == b
{
    broadcast use {ca_le_total, ca_le_antisym, ca_le_trans};
    let leq = |x: ContentAddress, y: ContentAddress| ord_le(x, y);
    assert(vstd::relations::total_ordering(leq)) by {
        assert forall|x: ContentAddress| #[trigger] leq(x, x) by { ca_le_total(x, x); }
        assert forall|x: ContentAddress, y: ContentAddress| #[trigger] leq(x, y) && #[trigger] leq(y, x) implies x == y by { ca_le_antisym(x, y); }
        assert forall|x: ContentAddress, y: ContentAddress, z: ContentAddress| #[trigger] leq(x, y) && #[trigger] leq(y, z) implies leq(x, z) by { ca_le_trans(x, y, z); }
        assert forall|x: ContentAddress, y: ContentAddress| #[trigger] leq(x, y) || #[trigger] leq(y, x) by { ca_le_total(x, y); }
    }
    assert(vstd::relations::sorted_by(a, leq));
    assert(vstd::relations::sorted_by(b, leq));
    vstd::seq_lib::lemma_sorted_unique(a, b, leq);
}
// order independence: permuting the addresses does not change the canonical arrangement, hence not the address
pub proof fn lemma_addr_order_independent(a: Seq<ContentAddress>, b: Seq<ContentAddress>, salt: Hash)
    requires a.to_multiset() == b.to_multiset(), exists|t: Seq<ContentAddress>| is_sorted_perm(t, a)
    ensures set_addr_spec(a) == set_addr_spec(b), contract_addr_spec(a, salt) == contract_addr_spec(b, salt)
{
    let t = sorted_of(a);
    assert(is_sorted_perm(t, b));
    let t2 = sorted_of(b);
    lemma_sorted_unique(t, t2);
}
''', label='lemmas_addr', props=('C17', 'C04'))
    hbi = ('`for bytes in iter { hasher.update(bytes) }` into the external sha2 hasher: assumed to be SHA-256 of the concatenation of the chunks fed')
    root.fn('hash_bytes', F('hash_bytes', mode='assumed_sig', ensures='r == sha256(bytes@)', note='external sha2 hasher', props=('C17',)))
    root.fn('hash', F('hash', mode='assumed_sig', ensures='r == sha256(postcard_bytes(*t))', note='external postcard + sha2', props=('C17',)))
    root.spec('''// addresses yielded by an `impl IntoIterator<Item = ContentAddress>` argument
pub uninterp spec fn ca_items<I>(i: I) -> Seq<ContentAddress>;
// T-std: an iterator passed as `impl IntoIterator` is consumed to the end by collect(): its items are its remaining items
pub uninterp spec fn drained<I>(i: I) -> bool;
pub broadcast axiom fn axiom_ca_items_iter<J: Iterator<Item = ContentAddress>>(j: J)
    requires vstd::std_specs::iter::IteratorSpec::obeys_prophetic_iter_laws(&j)
    ensures #[trigger] ca_items(j) == vstd::std_specs::iter::IteratorSpec::remaining(&j), vstd::std_specs::iter::IteratorSpec::will_return_none(&j);
// T-std: `arg.into_iter()` of an `impl IntoIterator<Item = ContentAddress>` argument is a well-behaved iterator over ca_items(arg)
pub broadcast axiom fn axiom_into_iter_items<I: IntoIterator<Item = ContentAddress>>(i: I, j: I::IntoIter)
    requires #[trigger] call_ensures(<I as IntoIterator>::into_iter, (i,), j)
    ensures vstd::std_specs::iter::IteratorSpec::obeys_prophetic_iter_laws(&j), vstd::std_specs::iter::IteratorSpec::remaining(&j) == ca_items(i);
pub open spec fn solution_addrs_of(sols: Seq<crate::essential_types::solution::Solution>) -> Seq<ContentAddress> { sols.map_values(|s: crate::essential_types::solution::Solution| s.addr_spec()) }
// chunks yielded by the iterator handed to hash_bytes_iter
pub uninterp spec fn chunk_items<I>(i: I) -> Seq<Seq<u8>>;
// T-std: hash_bytes_iter drains its argument (`for bytes in iter`); a drained `inner.map(f)` yields f(x) for every remaining x of inner, in order
// T-std: hash_bytes_iter drains its argument (`for bytes in iter`); a drained `inner.map(f)` yields f(x) for every remaining x of inner, in order
''')
    root.fn('hash_bytes_iter', F('hash_bytes_iter', mode='assumed_sig', ensures='r == sha256(concat_bytes(chunk_items(iter)))', note=hbi, props=('C17', 'C04')))
    root.trait('trait Address', [F('content_address', ensures='r == self.addr_spec()', props=('C17',))], extra='    spec fn addr_spec(&self) -> ContentAddress;')
    root.fn('content_addr', F('content_addr', ensures='r == t.addr_spec()', props=('C17',)))

    # ---- types used by the address impls
    et = [m for m in u.modules if m.name == 'essential_types'][0]
    pm = [m for m in et.sub if m.name == 'predicate'][0]
    pm.item('struct Program', file='crates/types/src/predicate.rs')
    cm = u.module('contract', file='crates/types/src/contract.rs', parent=et, uses='use crate::essential_types::{predicate::Predicate, Hash}; use crate::*;')
    cm.item('struct Contract')
    pe = [m for m in pm.sub if m.name == 'encode'][0]
    pe.item('enum PredicateEncodeError')
    pm.uses += ' use crate::essential_types::predicate::encode::PredicateEncodeError;'
    pm.spec('''// items of the byte iterator returned by Predicate::encode
pub uninterp spec fn encoded_items<I>(i: I) -> Seq<u8>;
''')
    ENC = '''predicate.nodes@.len() <= 1000 && predicate.edges@.len() <= 1000 ==> r is Ok && crate::essential_types::predicate::encoded_items(r->Ok_0) == crate::enc_predicate(predicate.starts(), predicate.addrs(), predicate.edges@),
            !(predicate.nodes@.len() <= 1000 && predicate.edges@.len() <= 1000) ==> r is Err'''
    pe.fn('encode_predicate', F('encode_predicate', mode='assumed', ensures=ENC,
          note='chain/flat_map iterator expression (outside Verus): NOT verified (a Kani harness on 1-2 node shapes exhausted memory)', props=('C17', 'C18')))
    pm.impl('impl Predicate', [F('encode', ensures='''self.nodes@.len() <= 1000 && self.edges@.len() <= 1000 ==> r is Ok && encoded_items(r->Ok_0) == crate::enc_predicate(self.starts(), self.addrs(), self.edges@),
            !(self.nodes@.len() <= 1000 && self.edges@.len() <= 1000) ==> r is Err''',
            props=('C17', 'C18'))])
    ai = u.module('address_impl', file='crates/hash/src/address_impl.rs', uses='''use crate::Address; use crate::*;
use crate::essential_types::{contract::Contract, predicate::{Predicate, Program}, solution::{Solution, SolutionSet}, ContentAddress};''')
    ai.impl('impl Address for Program', [('spec', 'open spec fn addr_spec(&self) -> ContentAddress { ContentAddress(sha256(self.0@)) }'),
            F('content_address', props=('C17',))])
    ai.impl('impl Address for Solution', [('spec', 'open spec fn addr_spec(&self) -> ContentAddress { ContentAddress(sha256(postcard_bytes(*self))) }'),
            F('content_address', props=('C17', 'C04'))])
    ai.impl('impl Address for SolutionSet', [('spec', 'uninterp spec fn addr_spec(&self) -> ContentAddress;'),
            F('content_address', mode='assumed', ensures='r == self.addr_spec()', note='delegates to solution_set_addr::from_set (see there): functional result not verified', props=('C17', 'C04'))])
    ca = u.module('contract_addr', file='crates/hash/src/contract_addr.rs', uses='use crate::essential_types::{contract::Contract, ContentAddress, Hash}; use crate::*;\nbroadcast use crate::axiom_into_iter_items;')
    ca.fn('from_predicate_addrs_slice', F('from_predicate_addrs_slice', mode='assumed',
          ensures='r == contract_addr_spec(old(predicate_addrs)@, *salt), is_sorted_perm(final(predicate_addrs)@, old(predicate_addrs)@)',
          note='`.chain(Some(salt))` is rejected by Verus and slice::sort is outside CBMC: NOT verified (sort, then hash the sorted addresses followed by the salt)', props=('C17',)))
    ca.fn('from_predicate_addrs', F('from_predicate_addrs', ensures='r == contract_addr_spec(crate::ca_items(predicate_addrs), *salt)', props=('C17',)))
    ca.fn('from_contract', F('from_contract', props=('C17',)))
    ai.impl('impl Address for Contract', [('spec', 'uninterp spec fn addr_spec(&self) -> ContentAddress;'),
            F('content_address', mode='assumed', ensures='r == self.addr_spec()', note='delegates to contract_addr::from_contract (Map adapter): functional result not verified', props=('C17',))])
    ai.impl('impl Address for Predicate', [('spec', '''open spec fn addr_spec(&self) -> ContentAddress {
        if self.nodes@.len() <= 1000 && self.edges@.len() <= 1000 { ContentAddress(sha256(crate::enc_predicate(self.starts(), self.addrs(), self.edges@))) } else { ContentAddress(crate::zero_hash()) } }'''),
            F('content_address', mode='assumed', ensures='r == self.addr_spec()',
              note='`let .. else` + collect() of an opaque `impl Iterator`: outside Verus; NOT verified', props=('C17',))])
    ss = u.module('solution_set_addr', file='crates/hash/src/solution_set_addr.rs', uses='use crate::essential_types::{solution::SolutionSet, ContentAddress}; use crate::*;\nbroadcast use crate::axiom_into_iter_items;')
    # The slice is sorted in place (a permutation of the input) before it is hashed: the canonical arrangement that makes the address
    # independent of the order of the solutions (lemma_addr_order_independent).  That the bytes fed to the hasher are the addresses of that
    # slice in order (`.iter().map(|addr| &addr.0[..])`) could not be carried through vstd's Map adapter specification: NOT verified.
    ss.fn('from_solution_addrs_slice', F('from_solution_addrs_slice', rename='from_solution_addrs_slice__sorted',
          ensures='is_sorted_perm(final(solution_addrs)@, old(solution_addrs)@)',
          closures={0: {'params': 'addr: &ContentAddress', 'ret': 'c: &[u8]', 'ensures': 'c@ =~= addr.0@'}},
          props=('C17', 'C04')))
    ss.fn('from_solution_addrs_slice', F('from_solution_addrs_slice', mode='assumed',
          ensures='r == set_addr_spec(old(solution_addrs)@), is_sorted_perm(final(solution_addrs)@, old(solution_addrs)@)',
          note='the sorted-permutation clause is verified (from_solution_addrs_slice__sorted); ASSUMED: the chunks fed to the hasher by '
               '`.iter().map(|addr| &addr.0[..])` are the addresses of the sorted slice in order (vstd Map adapter spec could not carry it)',
          props=('C17', 'C04')))
    ss.fn('from_solution_addrs', F('from_solution_addrs', ensures='r == set_addr_spec(crate::ca_items(solution_addrs))', props=('C17', 'C04')))
    # from_set maps content_addr over the solutions (`.iter().map(..)`): vstd cannot establish its iterator laws for the Map adapter here,
    # so only panic-freedom is verified; its one-line composition with from_solution_addrs is NOT verified functionally
    ss.fn('from_set', F('from_set', props=('C17', 'C04')))
    return u
