"""Unit check_core: essential-check validators, post-state overlay and predicate-graph helpers (C16, C04, C03, C01, C06)."""
import os
from unit import Unit
from weave import FnSpec as F
import types_core

HERE = os.path.dirname(os.path.abspath(__file__))
NEEDS_ASM_EXPANSION = False


def _read(name):
    with open(os.path.join(HERE, '..', 'prelude', name)) as f:
        return f.read()


def build(_exp=None):
    u = Unit('check_core')
    u.header = _read('header.rs')
    u.prelude = [_read('std.rs'), _read('types_spec.rs'), _read('check_spec.rs')]
    types_core.add_types(u, 'essential_types', 'crate::essential_types')

    # essential-vm items the checker's data types mention
    vmm = u.module('vm', file='crates/vm/src/memory.rs', uses='use crate::essential_types::Word; use crate::*;')
    vmm.item('struct Memory')
    vmm.spec('impl View for Memory { type V = Seq<i64>; closed spec fn view(&self) -> Seq<i64> { self.0@ } }\n')
    vmm.impl('impl core::ops::Deref for Memory', [('type', 'Target'), F('deref', ensures='r@ == self@')])
    vmm.item('type Gas', file='crates/vm/src/lib.rs')

    so = u.module('solution', file='crates/check/src/solution.rs', uses="""
use crate::essential_types::{predicate::{Predicate, Node}, solution::{Solution, SolutionIndex, SolutionSet, Mutation}, Key, PredicateAddress, Word, ContentAddress, Value};
use crate::vm::{Gas, Memory}; use crate::ext::{vm_error, asm::FromBytesError};
use std::collections::{BTreeMap, HashMap, HashSet}; use std::sync::Arc; use crate::*;
broadcast use {crate::spec_from_is_from, crate::key_model_slot_ref, crate::key_model_slot, crate::key_model_key, crate::key_model_ca};""")
    for c in ('MAX_PREDICATE_DATA', 'MAX_SOLUTIONS', 'MAX_STATE_MUTATIONS', 'MAX_VALUE_SIZE', 'MAX_KEY_SIZE'):
        so.item('const ' + c)
    for e in ('InvalidSolutionSet', 'InvalidSolution', 'KvError', 'InvalidSetStateMutations'):
        so.item('enum ' + e)
    so.fn('check_value_size', F('check_value_size', ensures='r is Ok <==> value@.len() <= 10000', props=('C16', 'C04')))
    so.fn('check_key_size', F('check_key_size', ensures='r is Ok <==> value@.len() <= 1000', props=('C16', 'C04')))

    so.spec('''
// C16/C04: the documented mutation limits of a solution set
pub open spec fn slot_of(set: SolutionSet, i: int, j: int) -> (ContentAddress, Key) {
    (set.solutions@[i].predicate_to_solve.contract, set.solutions@[i].state_mutations@[j].key) }
// the slots of the mutations that precede position (i, j) in iteration order
pub open spec fn before(i2: int, j2: int, i: int, j: int) -> bool { i2 < i || (i2 == i && j2 < j) }
pub open spec fn seen_ok(set: SolutionSet, keys: Set<(&ContentAddress, &Key)>, i: int, j: int) -> bool {
    (forall|i2: int, j2: int| mut_ix(set, i2, j2) && before(i2, j2, i, j) ==>
        keys.contains((&set.solutions@[i2].predicate_to_solve.contract, &set.solutions@[i2].state_mutations@[j2].key))
        && (#[trigger] set.solutions@[i2].state_mutations@[j2]).key@.len() <= 1000 && set.solutions@[i2].state_mutations@[j2].value@.len() <= 10000)
    && (forall|k: (&ContentAddress, &Key)| keys.contains(k) ==> exists|i2: int, j2: int| mut_ix(set, i2, j2) && before(i2, j2, i, j)
        && *k.0 == set.solutions@[i2].predicate_to_solve.contract && *k.1 == #[trigger] set.solutions@[i2].state_mutations@[j2].key)
    && (forall|i2: int, j2: int, i3: int, j3: int| mut_ix(set, i2, j2) && mut_ix(set, i3, j3) && before(i2, j2, i, j) && before(i3, j3, i, j) && (i2 != i3 || j2 != j3)
        ==> #[trigger] slot_of(set, i2, j2) != #[trigger] slot_of(set, i3, j3)) }
pub open spec fn mut_ix(set: SolutionSet, i: int, j: int) -> bool { 0 <= i < set.solutions@.len() && 0 <= j < set.solutions@[i].state_mutations@.len() }
pub open spec fn mutations_ok(set: SolutionSet) -> bool {
    crate::essential_types::solution::sum_mut_lens(set.solutions@) <= 1000
    && (forall|i: int, j: int| mut_ix(set, i, j) ==> (#[trigger] set.solutions@[i].state_mutations@[j]).key@.len() <= 1000
            && set.solutions@[i].state_mutations@[j].value@.len() <= 10000)
    // at most one mutation per slot (contract, key) in the whole set
    && (forall|i: int, j: int, i2: int, j2: int| mut_ix(set, i, j) && mut_ix(set, i2, j2) && (i != i2 || j != j2)
            ==> #[trigger] slot_of(set, i, j) != #[trigger] slot_of(set, i2, j2)) }
''')
    so.fn('check_set_state_mutations', F('check_set_state_mutations', ensures='r is Ok <==> mutations_ok(*set)',
        loops={0: {'iter_name': 'its', 'invariant': '''crate::essential_types::solution::sum_mut_lens(set.solutions@) <= 1000, its.seq().len() == set.solutions@.len(), (forall|k: int| 0 <= k < its.seq().len() ==> *(#[trigger] its.seq()[k]) == set.solutions@[k]),
                    seen_ok(*set, mut_keys@, its.index@ as int, 0)'''},
               1: {'iter_name': 'itm', 'invariant': '''crate::essential_types::solution::sum_mut_lens(set.solutions@) <= 1000, its.seq().len() == set.solutions@.len(), (forall|k: int| 0 <= k < its.seq().len() ==> *(#[trigger] its.seq()[k]) == set.solutions@[k]),
                    0 <= its.index@ < set.solutions@.len(), *solution == set.solutions@[its.index@ as int], itm.seq().len() == solution.state_mutations@.len(), (forall|k: int| 0 <= k < itm.seq().len() ==> *(#[trigger] itm.seq()[k]) == solution.state_mutations@[k]),
                    seen_ok(*set, mut_keys@, its.index@ as int, itm.index@ as int)''',
                   'head_proof': '''let i = its.index@ as int; let j = itm.index@ as int;
                    assert(0 <= j < itm.seq().len()); assert(mutation == itm.seq()[j]); assert(*mutation == set.solutions@[i].state_mutations@[j]); assert(mut_ix(*set, i, j));'''}},
        hints=[('return Err(InvalidSetStateMutations::MultipleMutationsForSlot(', 'before', '''let i = its.index@ as int; let j = itm.index@ as int;
                    let k = (&solution.predicate_to_solve.contract, &mutation.key);
                    assert(mut_keys@.contains(k));
                    let (i2, j2) = choose|i2: int, j2: int| mut_ix(*set, i2, j2) && before(i2, j2, i, j)
                        && *k.0 == set.solutions@[i2].predicate_to_solve.contract && *k.1 == #[trigger] set.solutions@[i2].state_mutations@[j2].key;
                    assert(slot_of(*set, i2, j2) == slot_of(*set, i, j));''')],
        props=('C16', 'C04', 'C06')))
    return u
