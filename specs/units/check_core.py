"""Unit check_core: essential-check validators, post-state overlay and predicate-graph helpers (C16, C04, C03, C01, C06)."""
import os
from unit import Unit
from weave import FnSpec as F
import types_core

HERE = os.path.dirname(os.path.abspath(__file__))
NEEDS_ASM_EXPANSION = False


def _read(name):
    with open(os.path.join(HERE, '..', 'prelude', name)) as f:
        return f.read()


def build(_exp=None):
    u = Unit('check_core')
    u.header = _read('header.rs')
    u.prelude = [_read('std.rs'), _read('types_spec.rs'), _read('check_spec.rs')]
    types_core.add_types(u, 'essential_types', 'crate::essential_types')

    # essential-vm items the checker's data types mention
    vmm = u.module('vm', file='crates/vm/src/memory.rs', uses='use crate::essential_types::Word; use crate::*;')
    vmm.item('struct Memory')
    vmm.spec('impl View for Memory { type V = Seq<i64>; closed spec fn view(&self) -> Seq<i64> { self.0@ } }\n')
    vmm.impl('impl core::ops::Deref for Memory', [('type', 'Target'), F('deref', ensures='r@ == self@')])
    vmm.item('type Gas', file='crates/vm/src/lib.rs')

    so = u.module('solution', file='crates/check/src/solution.rs', uses="""
use crate::essential_types::{predicate::{Predicate, Node}, solution::{Solution, SolutionIndex, SolutionSet, Mutation}, Key, PredicateAddress, Word, ContentAddress, Value};
use crate::vm::{Gas, Memory}; use crate::ext::{vm_error, asm::FromBytesError};
use std::collections::{BTreeMap, HashMap, HashSet}; use std::sync::Arc; use crate::*;
broadcast use crate::spec_from_is_from;""")
    for c in ('MAX_PREDICATE_DATA', 'MAX_SOLUTIONS', 'MAX_STATE_MUTATIONS', 'MAX_VALUE_SIZE', 'MAX_KEY_SIZE'):
        so.item('const ' + c)
    for e in ('InvalidSolutionSet', 'InvalidSolution', 'KvError', 'InvalidSetStateMutations'):
        so.item('enum ' + e)
    so.fn('check_value_size', F('check_value_size', ensures='r is Ok <==> value@.len() <= 10000', props=('C16', 'C04')))
    so.fn('check_key_size', F('check_key_size', ensures='r is Ok <==> value@.len() <= 1000', props=('C16', 'C04')))
    return u
