"""Unit check_core: essential-check validators, post-state overlay and predicate-graph helpers (C16, C04, C03, C01, C06)."""
import os
from unit import Unit
from weave import FnSpec as F
import types_core

HERE = os.path.dirname(os.path.abspath(__file__))
NEEDS_ASM_EXPANSION = False


def _read(name):
    with open(os.path.join(HERE, '..', 'prelude', name)) as f:
        return f.read()


def build(_exp=None):
    u = Unit('check_core')
    u.header = _read('header.rs')
    u.prelude = [_read('std.rs'), _read('types_spec.rs'), _read('check_spec.rs')]
    types_core.add_types(u, 'essential_types', 'crate::essential_types')

    # essential-vm items the checker's data types mention
    vmm = u.module('vm', file='crates/vm/src/memory.rs', uses='use crate::essential_types::{Word, ContentAddress, Key}; use crate::*;')
    vmm.item('struct Memory')
    vmm.spec('impl View for Memory { type V = Seq<i64>; closed spec fn view(&self) -> Seq<i64> { self.0@ } }\n')
    vmm.impl('impl core::ops::Deref for Memory', [('type', 'Target'), F('deref', ensures='r@ == self@')])
    vmm.item('type Gas', file='crates/vm/src/lib.rs')
    vmm.spec('pub mod error { pub use crate::ext::vm_error::*; }\n')
    vmm.trait('trait StateRead', [F('key_range', ensures="""match self.spec_key_range(contract_addr, key@, num_values) {
            Ok(vs) => r is Ok && r->Ok_0.deep_view() == vs, Err(e) => r == Err::<Vec<Vec<Word>>, Self::Error>(e) }""", props=('C03',))],
             file='crates/vm/src/state_read.rs',
             extra='    spec fn spec_key_range(&self, contract_addr: ContentAddress, key: Seq<i64>, num_values: usize) -> Result<Seq<Seq<i64>>, Self::Error>;')

    so = u.module('solution', file='crates/check/src/solution.rs', uses="""
use crate::essential_types::{predicate::{Predicate, Node}, solution::{Solution, SolutionIndex, SolutionSet, Mutation}, Key, PredicateAddress, Word, ContentAddress, Value};
use crate::vm::{self, Gas, Memory, StateRead}; use crate::ext::{vm_error, asm::FromBytesError};
use std::collections::{BTreeMap, HashMap, HashSet}; use std::sync::Arc; use crate::*;
broadcast use {crate::spec_from_is_from, crate::key_model_slot_ref, crate::key_model_slot, crate::key_model_key, crate::key_model_ca, crate::vec_default_empty};""")
    for c in ('MAX_PREDICATE_DATA', 'MAX_SOLUTIONS', 'MAX_STATE_MUTATIONS', 'MAX_VALUE_SIZE', 'MAX_KEY_SIZE'):
        so.item('const ' + c)
    for e in ('InvalidSolutionSet', 'InvalidSolution', 'KvError', 'InvalidSetStateMutations'):
        so.item('enum ' + e)
    so.fn('check_value_size', F('check_value_size', ensures='r is Ok <==> value@.len() <= 10000', props=('C16', 'C04')))
    so.fn('check_key_size', F('check_key_size', ensures='r is Ok <==> value@.len() <= 1000', props=('C16', 'C04')))

    so.spec('''
// C16/C04: the documented mutation limits of a solution set
pub open spec fn slot_of(set: SolutionSet, i: int, j: int) -> (ContentAddress, Key) {
    (set.solutions@[i].predicate_to_solve.contract, set.solutions@[i].state_mutations@[j].key) }
// the slots of the mutations that precede position (i, j) in iteration order
pub open spec fn before(i2: int, j2: int, i: int, j: int) -> bool { i2 < i || (i2 == i && j2 < j) }
pub open spec fn seen_ok(set: SolutionSet, keys: Set<(&ContentAddress, &Key)>, i: int, j: int) -> bool {
    (forall|i2: int, j2: int| mut_ix(set, i2, j2) && before(i2, j2, i, j) ==>
        keys.contains((&set.solutions@[i2].predicate_to_solve.contract, &set.solutions@[i2].state_mutations@[j2].key))
        && (#[trigger] set.solutions@[i2].state_mutations@[j2]).key@.len() <= 1000 && set.solutions@[i2].state_mutations@[j2].value@.len() <= 10000)
    && (forall|k: (&ContentAddress, &Key)| keys.contains(k) ==> exists|i2: int, j2: int| mut_ix(set, i2, j2) && before(i2, j2, i, j)
        && *k.0 == set.solutions@[i2].predicate_to_solve.contract && *k.1 == #[trigger] set.solutions@[i2].state_mutations@[j2].key)
    && (forall|i2: int, j2: int, i3: int, j3: int| mut_ix(set, i2, j2) && mut_ix(set, i3, j3) && before(i2, j2, i, j) && before(i3, j3, i, j) && (i2 != i3 || j2 != j3)
        ==> #[trigger] slot_of(set, i2, j2) != #[trigger] slot_of(set, i3, j3)) }
pub open spec fn mut_ix(set: SolutionSet, i: int, j: int) -> bool { 0 <= i < set.solutions@.len() && 0 <= j < set.solutions@[i].state_mutations@.len() }
pub open spec fn mutations_ok(set: SolutionSet) -> bool {
    crate::essential_types::solution::sum_mut_lens(set.solutions@) <= 1000
    && (forall|i: int, j: int| mut_ix(set, i, j) ==> (#[trigger] set.solutions@[i].state_mutations@[j]).key@.len() <= 1000
            && set.solutions@[i].state_mutations@[j].value@.len() <= 10000)
    // at most one mutation per slot (contract, key) in the whole set
    && (forall|i: int, j: int, i2: int, j2: int| mut_ix(set, i, j) && mut_ix(set, i2, j2) && (i != i2 || j != j2)
            ==> #[trigger] slot_of(set, i, j) != #[trigger] slot_of(set, i2, j2)) }
''')
    so.fn('check_set_state_mutations', F('check_set_state_mutations', ensures='r is Ok <==> mutations_ok(*set)',
        loops={0: {'iter_name': 'its', 'invariant': '''crate::essential_types::solution::sum_mut_lens(set.solutions@) <= 1000, its.seq().len() == set.solutions@.len(), (forall|k: int| 0 <= k < its.seq().len() ==> *(#[trigger] its.seq()[k]) == set.solutions@[k]),
                    seen_ok(*set, mut_keys@, its.index@ as int, 0)'''},
               1: {'iter_name': 'itm', 'invariant': '''crate::essential_types::solution::sum_mut_lens(set.solutions@) <= 1000, its.seq().len() == set.solutions@.len(), (forall|k: int| 0 <= k < its.seq().len() ==> *(#[trigger] its.seq()[k]) == set.solutions@[k]),
                    0 <= its.index@ < set.solutions@.len(), *solution == set.solutions@[its.index@ as int], itm.seq().len() == solution.state_mutations@.len(), (forall|k: int| 0 <= k < itm.seq().len() ==> *(#[trigger] itm.seq()[k]) == solution.state_mutations@[k]),
                    seen_ok(*set, mut_keys@, its.index@ as int, itm.index@ as int)''',
                   'head_proof': '''let i = its.index@ as int; let j = itm.index@ as int;
                    assert(0 <= j < itm.seq().len()); assert(mutation == itm.seq()[j]); assert(*mutation == set.solutions@[i].state_mutations@[j]); assert(mut_ix(*set, i, j));'''}},
        hints=[('return Err(InvalidSetStateMutations::MultipleMutationsForSlot(', 'before', '''let i = its.index@ as int; let j = itm.index@ as int;
                    let k = (&solution.predicate_to_solve.contract, &mutation.key);
                    assert(mut_keys@.contains(k));
                    let (i2, j2) = choose|i2: int, j2: int| mut_ix(*set, i2, j2) && before(i2, j2, i, j)
                        && *k.0 == set.solutions@[i2].predicate_to_solve.contract && *k.1 == #[trigger] set.solutions@[i2].state_mutations@[j2].key;
                    assert(slot_of(*set, i2, j2) == slot_of(*set, i, j));''')],
        props=('C16', 'C04', 'C06')))

    so.fn('next_key', F('next_key', mode='assumed', ensures="""match crate::next_key_spec(key@) { Some(k) => r is Some && r->Some_0@ =~= k, None => r is None }""",
          note='functional result of the `iter_mut().rev()` loop: Verus (this version) cannot relate the final values of the yielded &mut to the vector; bounded Kani check check_k2::next_key_matches_spec; panic-freedom is verified below (next_key__safety)',
          props=('C03',)))
    so.fn('next_key', F('next_key', rename='next_key__safety', ensures='true', canary=False, props=('C03', 'C06')))

    so.spec('''
// C16: the documented limits on the solutions themselves
pub open spec fn solutions_ok(sols: Seq<Solution>) -> bool {
    1 <= sols.len() <= 100
    && (forall|i: int| 0 <= i < sols.len() ==> (#[trigger] sols[i]).predicate_data@.len() <= 100)
    && (forall|i: int, j: int| 0 <= i < sols.len() && 0 <= j < sols[i].predicate_data@.len() ==> (#[trigger] sols[i].predicate_data@[j])@.len() <= 10000) }
''')
    so.fn('check_solutions', F('check_solutions', desugar_enumerate=True, ensures='r is Ok <==> solutions_ok(solutions@)',
          loops={0: {'iter_name': 'its', 'invariant': '''1 <= solutions@.len() <= 100, its.seq().len() == solutions@.len(), solution_ix == its.index@,
                    (forall|k: int| 0 <= k < its.seq().len() ==> *(#[trigger] its.seq()[k]) == solutions@[k]),
                    forall|i: int| 0 <= i < its.index@ ==> (#[trigger] solutions@[i]).predicate_data@.len() <= 100
                        && (forall|j: int| 0 <= j < solutions@[i].predicate_data@.len() ==> (#[trigger] solutions@[i].predicate_data@[j])@.len() <= 10000)'''},
                 1: {'iter_name': 'itv', 'invariant': '''0 <= its.index@ < solutions@.len(), *solution == solutions@[its.index@ as int], solution.predicate_data@.len() <= 100,
                    itv.seq().len() == solution.predicate_data@.len(), (forall|k: int| 0 <= k < itv.seq().len() ==> *(#[trigger] itv.seq()[k]) == solution.predicate_data@[k]),
                    forall|j: int| 0 <= j < itv.index@ ==> (#[trigger] solution.predicate_data@[j])@.len() <= 10000''',
                     'head_proof': 'assert(*v == solution.predicate_data@[itv.index@ as int]);'}},
          props=('C16', 'C04', 'C06')))
    so.fn('check_set', F('check_set', ensures='r is Ok <==> solutions_ok(set.solutions@) && mutations_ok(*set)', props=('C16', 'C04')))
    so.item('struct PostState')
    so.spec('''
// C03: what a post-state read observes (written from the property statement): for each key of the requested range the value proposed for that
// contract and key (an empty value meaning deletion, returned as is), otherwise the pre-state value; the range ends early when the key space is exhausted.
// T-std: Vec<i64> (Key / Value) is determined by its contents - needed to speak about "the entry for these key words" of a HashMap<Key, Value>.
pub open spec fn same_words(a: Vec<i64>, b: Vec<i64>) -> bool { a@ == b@ }
pub broadcast axiom fn axiom_vec_i64_ext(a: Vec<i64>, b: Vec<i64>) ensures #[trigger] same_words(a, b) ==> a == b;
// the same fact, triggered by the two views (for values that cannot be named, e.g. the result of a `.clone()` passed on directly)
pub broadcast axiom fn axiom_vec_i64_ext_views(a: Vec<i64>, b: Vec<i64>) ensures (#[trigger] a@) == (#[trigger] b@) ==> a == b;
pub open spec fn proposed(cs: Map<Key, Value>, k: Seq<i64>) -> Option<Seq<i64>> {
    if exists|kk: Key| kk@ == k && cs.contains_key(kk) { Some(cs[choose|kk: Key| kk@ == k && cs.contains_key(kk)]@) } else { None } }
pub open spec fn overlay_val<S: StateRead>(cs: Map<Key, Value>, state: &S, c: ContentAddress, k: Seq<i64>) -> Result<Seq<i64>, S::Error> {
    match proposed(cs, k) {
        Some(v) => Ok(v),
        None => match state.spec_key_range(c, k, 1) { Ok(vs) => Ok(if vs.len() > 0 { vs.last() } else { Seq::empty() }), Err(e) => Err(e) } } }
pub open spec fn overlay_read<S: StateRead>(cs: Map<Key, Value>, state: &S, c: ContentAddress, k: Seq<i64>, n: nat) -> Result<Seq<Seq<i64>>, S::Error>
    decreases n
{
    if n == 0 { Ok(Seq::empty()) } else { match overlay_val(cs, state, c, k) {
        Err(e) => Err(e),
        Ok(v) => match crate::next_key_spec(k) {
            None => Ok(seq![v]),
            Some(k2) => match overlay_read(cs, state, c, k2, (n - 1) as nat) { Ok(vs) => Ok(seq![v] + vs), Err(e) => Err(e) } } } } }
pub open spec fn prepend<E>(p: Seq<Seq<i64>>, r: Result<Seq<Seq<i64>>, E>) -> Result<Seq<Seq<i64>>, E> { match r { Ok(vs) => Ok(p + vs), Err(e) => Err(e) } }
pub proof fn lemma_overlay_step<S: StateRead>(cs: Map<Key, Value>, state: &S, c: ContentAddress, k: Seq<i64>, n: nat)
    requires n > 0
    ensures overlay_read(cs, state, c, k, n) == (match overlay_val(cs, state, c, k) {
        Err(e) => Err::<Seq<Seq<i64>>, S::Error>(e),
        Ok(v) => match crate::next_key_spec(k) { None => Ok(seq![v]), Some(k2) => prepend(seq![v], overlay_read(cs, state, c, k2, (n - 1) as nat)) } })
{ }
pub proof fn lemma_proposed(cs: Map<Key, Value>, key: Key)
    ensures cs.contains_key(key) ==> proposed(cs, key@) == Some(cs[key]@), !cs.contains_key(key) ==> proposed(cs, key@) is None
{
    broadcast use axiom_vec_i64_ext;
    assert forall|kk: Key| kk@ == key@ implies kk == key by { assert(same_words(kk, key)); }
}
''')
    so.fn('read_or_fallback', F('read_or_fallback', ensures="""
            // contract without proposed mutations: exactly the pre-state read
            !post.state@.contains_key(contract_addr) ==> match state.spec_key_range(contract_addr, key@, num_values) {
                Ok(vs) => r is Ok && r->Ok_0.deep_view() == vs, Err(e) => r == Err::<Vec<Vec<Word>>, S::Error>(e) },
            // contract with proposed mutations: per-key overlay of the proposed values on the pre-state
            post.state@.contains_key(contract_addr) ==> match overlay_read(post.state@[contract_addr]@, state, contract_addr, key@, num_values as nat) {
                Ok(vs) => r is Ok && r->Ok_0.deep_view() =~= vs, Err(e) => r == Err::<Vec<Vec<Word>>, S::Error>(e) },
            post.state@.contains_key(contract_addr) && r is Ok ==> r->Ok_0@.len() <= num_values""",
        hints=[('let mut value = state.key_range(', 'before', '''lemma_proposed(contract_state@, key);
                    lemma_overlay_step::<S>(contract_state@, state, contract_addr, key@, (num_values - itr.index@) as nat);
                    assert(proposed(contract_state@, key@) is None);
                    match state.spec_key_range(contract_addr, key@, 1) {
                        Err(e) => { assert(overlay_val(contract_state@, state, contract_addr, key@) == Err::<Seq<i64>, S::Error>(e));
                            assert(overlay_read(contract_state@, state, contract_addr, key@, (num_values - itr.index@) as nat) == Err::<Seq<Seq<i64>>, S::Error>(e));
                            assert(overlay_read(contract_state@, state, contract_addr, key0, num_values as nat) == Err::<Seq<Seq<i64>>, S::Error>(e)); },
                        Ok(_) => {} }'''),
               ('match next_key(key)', 'before', '''lemma_proposed(contract_state@, key);
                    lemma_overlay_step::<S>(contract_state@, state, contract_addr, key@, (num_values - itr.index@) as nat);
                    if contract_state@.contains_key(key) { assert(out@.last()@ == contract_state@[key]@); assert(overlay_val(contract_state@, state, contract_addr, key@) == Ok::<Seq<i64>, S::Error>(out@.last()@)); }
                    else { assert(state.spec_key_range(contract_addr, key@, 1) is Ok);
                           let vs = state.spec_key_range(contract_addr, key@, 1)->Ok_0;
                           assert(out@.last()@ == (if vs.len() > 0 { vs.last() } else { Seq::<i64>::empty() }));
                           assert(overlay_val(contract_state@, state, contract_addr, key@) == Ok::<Seq<i64>, S::Error>(out@.last()@)); }
                    assert(out.deep_view().drop_last() =~= old_out_dv);
                    assert(out.deep_view().last() == out@.last()@);
                    let v = out@.last()@;
                    assert(out.deep_view() =~= old_out_dv.push(v));
                    let rest_n = (num_values - itr.index@ - 1) as nat;
                    match crate::next_key_spec(key@) {
                        None => { assert(old_out_dv + seq![v] =~= out.deep_view()); },
                        Some(k2) => { match overlay_read(contract_state@, state, contract_addr, k2, rest_n) {
                            Ok(vs) => { assert(old_out_dv + (seq![v] + vs) =~= out.deep_view() + vs); }, Err(_) => {} }
                            assert(overlay_read(contract_state@, state, contract_addr, key0, num_values as nat)
                                == prepend(out.deep_view(), overlay_read(contract_state@, state, contract_addr, k2, rest_n))); } }'''),
               ('match contract_state.get(&key)', 'before', 'let ghost old_out_dv = out.deep_view();', 'ghost')],
        head_ghost='let ghost key0 = key@;', attrs=['#[verifier::loop_isolation(false)]'],
        loops={0: {'iter_name': 'itr', 'invariant': 'post.state@.contains_key(contract_addr), *contract_state == post.state@[contract_addr]',
                   'invariant_except_break': '''out@.len() == itr.index@, itr.index@ <= num_values,
                    overlay_read(contract_state@, state, contract_addr, key0, num_values as nat)
                        == prepend(out.deep_view(), overlay_read(contract_state@, state, contract_addr, key@, (num_values - itr.index@) as nat))''',
                   'ensures': '''out@.len() <= num_values,
                    overlay_read(contract_state@, state, contract_addr, key0, num_values as nat) == Ok::<Seq<Seq<i64>>, S::Error>(out.deep_view())'''}},
        props=('C03', 'C06')))

    # the post-state view handed to the VM: its reads ARE the overlay (C03 composes with the routing proved in vm_core: a PostKeyRange op reads state.post())
    so.item('struct PostStateArc')
    so.impl('impl<S> StateRead for PostStateArc<S> where S: StateRead,', [
        ('type', 'Error'),
        ("spec", """    closed spec fn spec_key_range(&self, contract_addr: ContentAddress, key: Seq<i64>, num_values: usize) -> Result<Seq<Seq<i64>>, Self::Error> {
        if (*self.0).state@.contains_key(contract_addr) { overlay_read((*self.0).state@[contract_addr]@, &self.1, contract_addr, key, num_values as nat) }
        else { self.1.spec_key_range(contract_addr, key, num_values) } }"""),
        F('key_range', props=('C03',))], trait_impl=True)
    for e in ('enum PredicatesError', 'struct PredicateErrors', 'enum PredicateError', 'struct ProgramErrors', 'enum ProgramError',
              'struct ConstraintsUnsatisfied', 'enum MutationsError'):
        so.item(e)
    for e in ('struct Outputs', 'struct DataFromSolution', 'enum DataOutput'):
        so.item(e)
    so.spec('''
// C16: "a solution set returned by the mutation-computing check still satisfies the one-mutation-per-slot rule"
pub open spec fn is_slot(sols: Seq<Solution>, i: int, j: int, sl: (ContentAddress, Key)) -> bool {
    0 <= i < sols.len() && 0 <= j < sols[i].state_mutations@.len() && sl == (sols[i].predicate_to_solve.contract, sols[i].state_mutations@[j].key) }
pub open spec fn in_slots(sols: Seq<Solution>, sl: (ContentAddress, Key)) -> bool { exists|i: int, j: int| #[trigger] is_slot(sols, i, j, sl) }
pub open spec fn in_slots_upto(sols: Seq<Solution>, a: int, b: int, sl: (ContentAddress, Key)) -> bool { exists|i: int, j: int| #[trigger] is_slot(sols, i, j, sl) && before(i, j, a, b) }
// the hash set holds exactly the slots of the solutions
pub open spec fn holds_slots(ms: Set<(ContentAddress, Key)>, sols: Seq<Solution>) -> bool { forall|sl: (ContentAddress, Key)| #[trigger] ms.contains(sl) <==> in_slots(sols, sl) }
pub open spec fn holds_slots_upto(ms: Set<(ContentAddress, Key)>, sols: Seq<Solution>, a: int, b: int) -> bool { forall|sl: (ContentAddress, Key)| #[trigger] ms.contains(sl) <==> in_slots_upto(sols, a, b, sl) }
pub open spec fn slots_unique(sols: Seq<Solution>) -> bool {
    forall|i: int, j: int, i2: int, j2: int, sl: (ContentAddress, Key)| #[trigger] is_slot(sols, i, j, sl) && #[trigger] is_slot(sols, i2, j2, sl) ==> i == i2 && j == j2 }
// the solution at idx gained one mutation m at the end; everything else is unchanged
pub open spec fn pushed(cur: Seq<Solution>, cur2: Seq<Solution>, idx: int, m: Mutation) -> bool {
    0 <= idx < cur.len() && cur2.len() == cur.len()
    && (forall|k: int| 0 <= k < cur.len() && k != idx ==> cur2[k] == cur[k])
    && cur2[idx].predicate_to_solve == cur[idx].predicate_to_solve
    && cur2[idx].state_mutations@ == cur[idx].state_mutations@.push(m) }
pub proof fn lemma_pushed(cur: Seq<Solution>, cur2: Seq<Solution>, idx: int, m: Mutation)
    requires pushed(cur, cur2, idx, m)
    ensures forall|sl: (ContentAddress, Key)| #[trigger] in_slots(cur2, sl) <==> (in_slots(cur, sl) || sl == (cur[idx].predicate_to_solve.contract, m.key)),
            slots_unique(cur) && !in_slots(cur, (cur[idx].predicate_to_solve.contract, m.key)) ==> slots_unique(cur2)
{
    let new = (cur[idx].predicate_to_solve.contract, m.key);
    let jn = cur[idx].state_mutations@.len() as int;
    assert(is_slot(cur2, idx, jn, new));
    assert forall|i: int, j: int, sl: (ContentAddress, Key)| is_slot(cur, i, j, sl) implies is_slot(cur2, i, j, sl) by {
        if i == idx { assert(cur2[idx].state_mutations@[j] == cur[idx].state_mutations@[j]); } }
    assert forall|i: int, j: int, sl: (ContentAddress, Key)| is_slot(cur2, i, j, sl) implies (is_slot(cur, i, j, sl) || (i == idx && j == jn && sl == new)) by {
        if i == idx && j < jn { assert(cur2[idx].state_mutations@[j] == cur[idx].state_mutations@[j]); } }
    assert forall|sl: (ContentAddress, Key)| #[trigger] in_slots(cur2, sl) <==> (in_slots(cur, sl) || sl == new) by {
        if in_slots(cur2, sl) { let (i, j) = choose|i: int, j: int| #[trigger] is_slot(cur2, i, j, sl); if is_slot(cur, i, j, sl) {} }
        if in_slots(cur, sl) { let (i, j) = choose|i: int, j: int| #[trigger] is_slot(cur, i, j, sl); assert(is_slot(cur2, i, j, sl)); } }
    if slots_unique(cur) && !in_slots(cur, new) {
        assert forall|i: int, j: int, i2: int, j2: int, sl: (ContentAddress, Key)| #[trigger] is_slot(cur2, i, j, sl) && #[trigger] is_slot(cur2, i2, j2, sl) implies i == i2 && j == j2 by {
            let a = is_slot(cur, i, j, sl); let b = is_slot(cur, i2, j2, sl);
            if a && b {} else if a { assert(sl == new); assert(in_slots(cur, new)); } else if b { assert(sl == new); assert(in_slots(cur, new)); } else {} } }
}
pub proof fn lemma_upto_all(sols: Seq<Solution>)
    ensures forall|sl: (ContentAddress, Key)| #[trigger] in_slots_upto(sols, sols.len() as int, 0, sl) <==> in_slots(sols, sl)
{
    assert forall|sl: (ContentAddress, Key)| in_slots(sols, sl) implies #[trigger] in_slots_upto(sols, sols.len() as int, 0, sl) by {
        let (i, j) = choose|i: int, j: int| #[trigger] is_slot(sols, i, j, sl); assert(before(i, j, sols.len() as int, 0)); }
}
pub proof fn lemma_upto_step(sols: Seq<Solution>, i: int, j: int)
    requires 0 <= i < sols.len(), 0 <= j < sols[i].state_mutations@.len()
    ensures forall|sl: (ContentAddress, Key)| #[trigger] in_slots_upto(sols, i, j + 1, sl) <==> (in_slots_upto(sols, i, j, sl) || sl == (sols[i].predicate_to_solve.contract, sols[i].state_mutations@[j].key))
{
    let new = (sols[i].predicate_to_solve.contract, sols[i].state_mutations@[j].key);
    assert(is_slot(sols, i, j, new) && before(i, j, i, j + 1));
    assert forall|sl: (ContentAddress, Key)| #[trigger] in_slots_upto(sols, i, j + 1, sl) <==> (in_slots_upto(sols, i, j, sl) || sl == new) by {
        if in_slots_upto(sols, i, j + 1, sl) {
            let (a, b) = choose|a: int, b: int| #[trigger] is_slot(sols, a, b, sl) && before(a, b, i, j + 1);
            if a == i && b == j {} else { assert(before(a, b, i, j)); } }
        if in_slots_upto(sols, i, j, sl) {
            let (a, b) = choose|a: int, b: int| #[trigger] is_slot(sols, a, b, sl) && before(a, b, i, j); assert(before(a, b, i, j + 1)); } }
}
pub proof fn lemma_upto_next(sols: Seq<Solution>, i: int)
    requires 0 <= i < sols.len()
    ensures forall|sl: (ContentAddress, Key)| #[trigger] in_slots_upto(sols, i + 1, 0, sl) <==> in_slots_upto(sols, i, sols[i].state_mutations@.len() as int, sl)
{
    let n = sols[i].state_mutations@.len() as int;
    assert forall|sl: (ContentAddress, Key)| #[trigger] in_slots_upto(sols, i + 1, 0, sl) <==> in_slots_upto(sols, i, n, sl) by {
        if in_slots_upto(sols, i + 1, 0, sl) { let (a, b) = choose|a: int, b: int| #[trigger] is_slot(sols, a, b, sl) && before(a, b, i + 1, 0); assert(before(a, b, i, n)); }
        if in_slots_upto(sols, i, n, sl) { let (a, b) = choose|a: int, b: int| #[trigger] is_slot(sols, a, b, sl) && before(a, b, i, n); assert(before(a, b, i + 1, 0)); } }
}
''')
    so.fn('decode_mutations', F('decode_mutations', attrs=['#[verifier::loop_isolation(false)]'],
          requires='forall|k: int| 0 <= k < outputs.data@.len() ==> ((#[trigger] outputs.data@[k]).solution_index as int) < set.solutions@.len()',
          ensures='''r matches Ok(s2) ==> s2.solutions@.len() == set.solutions@.len(),
            // the returned set proposes at most one mutation per (contract, key) if the given one did
            slots_unique(set.solutions@) ==> (r matches Ok(s2) ==> slots_unique(s2.solutions@))''',
          head_ghost='let ghost n0 = set.solutions@.len(); let ghost sols0 = set.solutions@; let ghost uniq0 = slots_unique(set.solutions@);',
          loops={0: {'iter_name': 'its', 'invariant': '''set.solutions@ == sols0, its.seq().len() == sols0.len(), 0 <= its.index@ <= sols0.len(),
                        (forall|k: int| 0 <= k < its.seq().len() ==> *(#[trigger] its.seq()[k]) == sols0[k]),
                        holds_slots_upto(mut_set@, sols0, its.index@ as int, 0)''',
                     'after_proof': 'lemma_upto_all(sols0);'},
                 1: {'iter_name': 'itm', 'invariant': '''set.solutions@ == sols0, 0 <= its.index@ < sols0.len(), *s == sols0[its.index@ as int],
                        itm.seq().len() == s.state_mutations@.len(), 0 <= itm.index@ <= itm.seq().len(),
                        (forall|k: int| 0 <= k < itm.seq().len() ==> *(#[trigger] itm.seq()[k]) == s.state_mutations@[k]),
                        holds_slots_upto(mut_set@, sols0, its.index@ as int, itm.index@ as int)''',
                     'head_ghost': 'let ghost ms1 = mut_set@;',
                     'head_proof': '''assert(*m == sols0[its.index@ as int].state_mutations@[itm.index@ as int]);
                        lemma_upto_step(sols0, its.index@ as int, itm.index@ as int);''',
                     'tail_proof': '''broadcast use axiom_vec_i64_ext_views;
                        let new = (s.predicate_to_solve.contract, m.key);
                        assert(mut_set@ =~= ms1.insert(new));''',
                     'after_proof': 'lemma_upto_next(sols0, its.index@ as int);'},
                 2: {'iter_name': 'ito', 'invariant': '''set.solutions@.len() == n0, ito.seq() == outputs.data@, 0 <= ito.index@ <= ito.seq().len(),
                        forall|k: int| 0 <= k < outputs.data@.len() ==> ((#[trigger] outputs.data@[k]).solution_index as int) < n0,
                        holds_slots(mut_set@, set.solutions@), uniq0 ==> slots_unique(set.solutions@)'''},
                 3: {'iter_name': 'itd', 'invariant': '''0 <= idx < n0, pre.len() == n0, s.predicate_to_solve == pre[idx].predicate_to_solve,
                        holds_slots(mut_set@, pre.update(idx, *s)), uniq0 ==> slots_unique(pre.update(idx, *s))'''},
                 4: {'iter_name': 'itx', 'invariant': '''0 <= idx < n0, pre.len() == n0, s.predicate_to_solve == pre[idx].predicate_to_solve,
                        holds_slots(mut_set@, pre.update(idx, *s)), uniq0 ==> slots_unique(pre.update(idx, *s))''',
                     'head_ghost': 'let ghost s_before = *s; let ghost ms_before = mut_set@;'}},
          hints=[('let s = &mut set.solutions[output.solution_index as usize];', 'before', 'let ghost pre = set.solutions@; let ghost idx = output.solution_index as int;', 'ghost'),
                 ('let s = &mut set.solutions[output.solution_index as usize];', 'after', 'assert(pre.update(idx, *s) =~= pre);'),
                 ('s.state_mutations.push(mutation);', 'before', 'let ghost pushed_m = mutation;', 'ghost'),
                 ('s.state_mutations.push(mutation);', 'after', '''broadcast use axiom_vec_i64_ext_views;
                    let cur = pre.update(idx, s_before); let cur2 = pre.update(idx, *s);
                    let new = (s_before.predicate_to_solve.contract, pushed_m.key);
                    assert(cur[idx] == s_before);
                    assert(pushed(cur, cur2, idx, pushed_m));
                    lemma_pushed(cur, cur2, idx, pushed_m);
                    assert(mut_set@ =~= ms_before.insert(new));
                    assert(!ms_before.contains(new));
                    assert(!in_slots(cur, new));''')],
          props=('C16', 'C06')))
    _S2 = 'predicate.starts(), predicate.edges@'
    so.fn('create_parent_map', F('create_parent_map', ensures="""
            // malformed graphs (invalid edge slice, edge to a missing node) are rejected, well-formed ones accepted
            r is Ok <==> crate::graph_ok(%(S)s),
            r matches Ok(m) ==> forall|n: u16| (n as int) < predicate.nodes@.len() ==> m@.contains_key(n),
            // every node is mapped to its parents in ascending order, one entry per edge
            predicate.nodes@.len() <= 0x1_0000 ==> (r matches Ok(m) ==> forall|n: u16| #[trigger] m@.contains_key(n) ==> m@[n]@ == crate::parents_of(%(S)s, n))""" % {'S': _S2},
        loops={0: {'iter_name': 'itn', 'head_proof': 'assert(predicate.starts().len() == predicate.nodes@.len());',
                   'invariant': """forall|i: int| 0 <= i < itn.index@ ==> #[trigger] crate::node_ok(%(S)s, i),
                    forall|n: u16| (n as int) < itn.index@ ==> nodes@.contains_key(n),
                    predicate.nodes@.len() <= 0x1_0000 ==> (forall|n: u16| #[trigger] nodes@.contains_key(n) ==> nodes@[n]@ == crate::plist(%(S)s, n, itn.index@ as int, 0)),
                    predicate.nodes@.len() <= 0x1_0000 ==> (forall|n: u16| !nodes@.contains_key(n) ==> (#[trigger] crate::plist(%(S)s, n, itn.index@ as int, 0)).len() == 0)""" % {'S': _S2}},
               1: {'iter_name': 'ite', 'after_proof': """assert(crate::node_ok(%(S)s, node_ix as int));
                        let el = crate::node_edges_spec(%(S)s, node_ix as int)->Some_0.len() as int;
                        assert forall|n: u16| #[trigger] crate::plist(%(S)s, n, node_ix as int + 1, 0) == crate::plist(%(S)s, n, node_ix as int, el) by { }
                        if predicate.nodes@.len() <= 0x1_0000 {
                            assert forall|n: u16| #[trigger] nodes@.contains_key(n) implies nodes@[n]@ == crate::plist(%(S)s, n, node_ix as int + 1, 0) by { assert(nodes@[n]@ == crate::plist(%(S)s, n, node_ix as int, el)); }
                            assert forall|n: u16| !nodes@.contains_key(n) implies (#[trigger] crate::plist(%(S)s, n, node_ix as int + 1, 0)).len() == 0 by { assert(crate::plist(%(S)s, n, node_ix as int, el).len() == 0); } }""" % {'S': _S2},
                   'head_ghost': 'let ghost old_nodes = nodes@;',
                   'tail_proof': """let es = crate::node_edges_spec(%(S)s, node_ix as int)->Some_0; let k = ite.index@ as int;
                        assert(es[k] == *edge);
                        if predicate.nodes@.len() <= 0x1_0000 {
                            assert((node_ix as u16) as int == node_ix);
                            assert forall|n: u16| true implies #[trigger] crate::plist(%(S)s, n, node_ix as int, k + 1)
                                    == (if n == *edge { crate::plist(%(S)s, n, node_ix as int, k).push(node_ix as u16) } else { crate::plist(%(S)s, n, node_ix as int, k) }) by { }
                            assert forall|n: u16| #[trigger] nodes@.contains_key(n) implies nodes@[n]@ == crate::plist(%(S)s, n, node_ix as int, k + 1) by {
                                if n == *edge {
                                    if old_nodes.contains_key(n) { assert(nodes@[n]@ =~= old_nodes[n]@.push(node_ix as u16)); }
                                    else { assert(crate::plist(%(S)s, n, node_ix as int, k).len() == 0); assert(nodes@[n]@ =~= crate::plist(%(S)s, n, node_ix as int, k).push(node_ix as u16)); } }
                                else { assert(old_nodes.contains_key(n)); assert(nodes@[n] == old_nodes[n]); } }
                            assert forall|n: u16| !nodes@.contains_key(n) implies (#[trigger] crate::plist(%(S)s, n, node_ix as int, k + 1)).len() == 0 by {
                                assert(!old_nodes.contains_key(n)); assert(n != *edge); } }""" % {'S': _S2},
                   'invariant': """0 <= node_ix < predicate.nodes@.len(), predicate.starts().len() == predicate.nodes@.len(),
                    crate::node_edges_spec(%(S)s, node_ix as int) is Some,
                    ite.seq().len() == crate::node_edges_spec(%(S)s, node_ix as int)->Some_0.len(),
                    forall|k: int| 0 <= k < ite.seq().len() ==> *(#[trigger] ite.seq()[k]) == crate::node_edges_spec(%(S)s, node_ix as int)->Some_0[k],
                    0 <= ite.index@ <= ite.seq().len(),
                    forall|k: int| 0 <= k < ite.index@ ==> (#[trigger] crate::node_edges_spec(%(S)s, node_ix as int)->Some_0[k] as int) < predicate.nodes@.len(),
                    forall|n: u16| (n as int) <= node_ix ==> nodes@.contains_key(n),
                    forall|i: int| 0 <= i < node_ix ==> #[trigger] crate::node_ok(%(S)s, i),
                    predicate.nodes@.len() <= 0x1_0000 ==> (forall|n: u16| #[trigger] nodes@.contains_key(n) ==> nodes@[n]@ == crate::plist(%(S)s, n, node_ix as int, ite.index@ as int)),
                    predicate.nodes@.len() <= 0x1_0000 ==> (forall|n: u16| !nodes@.contains_key(n) ==> (#[trigger] crate::plist(%(S)s, n, node_ix as int, ite.index@ as int)).len() == 0)""" % {'S': _S2}}},
        hints=[('Ok(nodes)', 'before', 'assert(predicate.starts().len() == predicate.nodes@.len());'),
               ('let mut nodes: BTreeMap<u16, Vec<u16>> = BTreeMap::new();', 'after', 'assert(forall|n: u16| (#[trigger] crate::plist(%(S)s, n, 0, 0)).len() == 0);' % {'S': _S2}),
               ('nodes.entry(node_ix as u16).or_default();', 'after', """if predicate.nodes@.len() <= 0x1_0000 {
                    assert((node_ix as u16) as int == node_ix);
                    assert forall|n: u16| #[trigger] nodes@.contains_key(n) implies nodes@[n]@ == crate::plist(%(S)s, n, node_ix as int, 0) by {
                        if n == node_ix as u16 && !nodes0.contains_key(n) { assert(crate::plist(%(S)s, n, node_ix as int, 0).len() == 0); assert(nodes@[n]@ =~= crate::plist(%(S)s, n, node_ix as int, 0)); }
                        else { assert(nodes0.contains_key(n)); assert(nodes@[n] == nodes0[n]); } } }""" % {'S': _S2}),
               ('nodes.entry(node_ix as u16).or_default();', 'before', 'let ghost nodes0 = nodes@;', 'ghost'),
               ('for edge in predicate', 'before', 'assert(crate::node_ok(%(S)s, node_ix as int) ==> crate::node_edges_spec(%(S)s, node_ix as int) is Some);' % {'S': _S2}),
               ('return Err(PredicateError::InvalidNodeEdges(node_ix));', 'before', """assert(!crate::node_ok(%(S)s, node_ix as int)) by {
                    let es = crate::node_edges_spec(%(S)s, node_ix as int)->Some_0;
                    assert(es[ite.index@ as int] == *edge); }""" % {'S': _S2})],
        props=('C01', 'C06')))
    # in-degree of a node = number of incoming edges, counted with multiplicity (one per entry of its parent list)
    so.fn('in_degrees', F('in_degrees',
          ensures='''num_nodes <= 0x1_0000 ==> (forall|n: u16| (n as int) < num_nodes ==> #[trigger] r@.contains_key(n)),
            num_nodes <= 0x1_0000 ==> (forall|n: u16| (n as int) < num_nodes ==> #[trigger] r@[n] == (if parent_map@.contains_key(n) { parent_map@[n]@.len() } else { 0 })),
            num_nodes <= 0x1_0000 ==> (forall|n: u16| #[trigger] r@.contains_key(n) ==> (n as int) < num_nodes)''',
          loops={0: {'iter_name': 'itn', 'invariant': '''num_nodes <= 0x1_0000 ==> (forall|n: u16| #[trigger] in_degrees@.contains_key(n) ==> (n as int) < itn.index@),
                num_nodes <= 0x1_0000 ==> (forall|n: u16| (n as int) < itn.index@ ==> #[trigger] in_degrees@.contains_key(n)),
                num_nodes <= 0x1_0000 ==> (forall|n: u16| (n as int) < itn.index@ ==> #[trigger] in_degrees@[n] == (if parent_map@.contains_key(n) { parent_map@[n]@.len() } else { 0 }))'''}},
          closures={0: {'params': 'v: &Vec<u16>', 'ret': 'l: usize', 'ensures': 'l == v@.len()'}},
          props=('C01', 'C06')))
    so.fn('reduce_in_degrees', F('reduce_in_degrees', ensures='''
            // one (saturating) decrement per occurrence of a node in the child list; no entry appears or disappears
            final(in_degrees)@.dom() == old(in_degrees)@.dom(),
            forall|c: u16| #[trigger] final(in_degrees)@.contains_key(c) ==> final(in_degrees)@[c] as int == crate::sat_sub_int(old(in_degrees)@[c] as int, crate::count_in(children@, c, children@.len() as int))''',
          head_ghost='let ghost m0 = in_degrees@;',
          loops={0: {'iter_name': 'itc', 'invariant': '''in_degrees@.dom() == m0.dom(), itc.seq().len() == children@.len(), 0 <= itc.index@ <= itc.seq().len(),
                        (forall|k: int| 0 <= k < itc.seq().len() ==> *(#[trigger] itc.seq()[k]) == children@[k]),
                        forall|c: u16| #[trigger] in_degrees@.contains_key(c) ==> in_degrees@[c] as int == crate::sat_sub_int(m0[c] as int, crate::count_in(children@, c, itc.index@ as int))''',
                     'head_proof': 'assert(*child == children@[itc.index@ as int]);'}},
          attrs=['#[verifier::loop_isolation(false)]'],
          props=('C01', 'C06')))
    so.fn('find_nodes_with_no_parents', F('find_nodes_with_no_parents', mode='assumed', ensures="""
            forall|k: int| 0 <= k < r@.len() ==> in_degrees@.contains_key(#[trigger] r@[k]) && in_degrees@[r@[k]] == 0,
            forall|n: u16| in_degrees@.contains_key(n) && in_degrees@[n] == 0 ==> r@.contains(n),
            // a BTreeMap yields each key once (in ascending order)
            forall|k: int, k2: int| 0 <= k < k2 < r@.len() ==> r@[k] < r@[k2]""",
          note='`filter_map` over a BTreeMap iterator: outside Verus; std BTreeMap is outside CBMC: NOT VERIFIED (4 lines; bounded by xrun graph through the entry point)', props=('C01',)))
    _S3 = 'predicate.starts(), predicate.edges@'
    so.fn('parallel_topo_sort', F('parallel_topo_sort', attrs=['#[verifier::loop_isolation(false)]'],
          requires='''crate::graph_ok(%(S)s), predicate.nodes@.len() <= 0x1_0000,
            // the parent map is the one create_parent_map builds for this graph
            forall|b: u16| (b as int) < predicate.nodes@.len() ==> #[trigger] parent_map@.contains_key(b),
            forall|b: u16| (b as int) < predicate.nodes@.len() ==> (#[trigger] parent_map@[b])@ == crate::parents_of(%(S)s, b)''' % {'S': _S3},
          ensures='''r matches Ok(levels) ==> (
                // every node is placed, exactly once, in a level after the levels of all its parents
                (forall|a: u16| (a as int) < predicate.nodes@.len() ==> #[trigger] crate::emitted(levels@, a))
                && crate::placed_once(levels@)
                && crate::parents_first(%(S)s, levels@)
                && (forall|i: int, j: int| 0 <= i < levels@.len() && 0 <= j < levels@[i]@.len() ==> (#[trigger] levels@[i]@[j] as int) < predicate.nodes@.len())),
            // an error is returned only for a cyclic graph: an acyclic one is always sorted
            crate::acyclic(%(S)s) <==> r is Ok''' % {'S': _S3},
          head_ghost='let ghost n = predicate.nodes@.len() as int;',
          hints=[('let mut out = Vec::new();', 'before', '''assert(predicate.starts().len() == predicate.nodes@.len());
                    assert forall|b: u16| #[trigger] in_degrees@.contains_key(b) implies in_degrees@[b] as int == crate::indeg(%(S)s, in_degrees@.dom(), b, n) by {
                        assert((b as int) < n); assert(parent_map@.contains_key(b)); assert(parent_map@[b]@ == crate::parents_of(%(S)s, b));
                        assert(in_degrees@[b] == parent_map@[b]@.len());
                        assert forall|x: u16| (x as int) < n implies in_degrees@.dom().contains(x) by { assert(in_degrees@.contains_key(x)); }
                        crate::lemma_plist_len(%(S)s, in_degrees@.dom(), b, n, 0); }''' % {'S': _S3}),
                 ('Ok(out)', 'before', '''assert forall|a: u16| (a as int) < n implies #[trigger] crate::emitted(out@, a) by { assert(!in_degrees@.contains_key(a)); }
                    // the level index is a ranking: the graph is acyclic
                    let outv = out@;
                    let rank = |a: u16| choose|i: int| crate::level_of(outv, a, i);
                    assert(crate::ranked(%(S)s, rank)) by {
                        assert forall|a: u16, b: u16| #[trigger] crate::child_of(%(S)s, a, b) implies rank(a) < rank(b) by {
                            crate::lemma_child_edge_count(%(S)s, a, b);
                            assert(crate::node_ok(%(S)s, a as int));
                            let es = crate::node_edges_spec(%(S)s, a as int)->Some_0;
                            let k = choose|k: int| 0 <= k < es.len() && es[k] == b;
                            assert((es[k] as int) < n);
                            assert(crate::emitted(outv, b));
                            let ib = rank(b); assert(crate::level_of(outv, b, ib));
                            let ia2 = choose|i2: int| i2 < ib && #[trigger] crate::level_of(outv, a, i2);
                            let ia = rank(a); assert(crate::level_of(outv, a, ia));
                            let j1 = choose|j: int| 0 <= j < outv[ia]@.len() && outv[ia]@[j] == a;
                            let j2 = choose|j: int| 0 <= j < outv[ia2]@.len() && outv[ia2]@[j] == a;
                            assert(outv[ia]@[j1] == outv[ia2]@[j2]);
                            assert(ia == ia2); } }
                    assert(crate::acyclic(%(S)s));
                    assert forall|i: int, j: int| 0 <= i < out@.len() && 0 <= j < out@[i]@.len() implies (#[trigger] out@[i]@[j] as int) < n by { assert(crate::level_of(out@, out@[i]@[j], i)); }''' % {'S': _S3}),
                 ('return Err(PredicateError::InvalidNodeEdges(0));', 'before', '''// no ready node although nodes are waiting: the graph cannot be ranked, i.e. it has a cycle
                    if crate::acyclic(%(S)s) {
                        let rank = choose|rank: spec_fn(u16) -> int| crate::ranked(%(S)s, rank);
                        let d = in_degrees@.dom();
                        assert(d.finite() && d.len() > 0);
                        let m = crate::lemma_min_rank(d, rank, n);
                        assert forall|a: u16| d.contains(a) && (a as int) < n implies crate::edge_count(%(S)s, a as int, m) == 0 by {
                            if crate::edge_count(%(S)s, a as int, m) != 0 { crate::lemma_edge_count_child(%(S)s, a, m); assert(rank(a) < rank(m)); } }
                        crate::lemma_indeg_zero_if_no_edge(%(S)s, d, m, n);
                        assert(in_degrees@.contains_key(m) && in_degrees@[m] == 0);
                        assert(current_level@.contains(m));
                        assert(false);
                    }''' % {'S': _S3}),
                 ('out.push(current_level.clone());', 'before', 'let ghost out0 = out@; let ghost d0 = in_degrees@.dom(); let ghost cl = current_level@; let ghost lv = out@.len() as int;', 'ghost'),
                 ('out.push(current_level.clone());', 'after', '''assert(out@ =~= out0.push(out@[lv])); assert(out@[lv]@ == cl);
                    // the nodes of the new level have no parent among the waiting nodes: all their parents are placed earlier
                    assert forall|a: u16, b: u16, i: int| #[trigger] crate::level_of(out@, b, i) && #[trigger] crate::child_of(%(S)s, a, b)
                            implies exists|i2: int| i2 < i && #[trigger] crate::level_of(out@, a, i2) by {
                        crate::lemma_child_edge_count(%(S)s, a, b);
                        if i < lv { assert(crate::level_of(out0, b, i)); let i2 = choose|i2: int| i2 < i && #[trigger] crate::level_of(out0, a, i2); assert(crate::level_of(out@, a, i2)); }
                        else {
                            assert(cl.contains(b)); let k = choose|k: int| 0 <= k < cl.len() && cl[k] == b;
                            assert(in_degrees@.contains_key(cl[k]) && in_degrees@[cl[k]] == 0);
                            if d0.contains(a) { crate::lemma_indeg_zero(%(S)s, d0, a, b, n); }
                            assert(crate::emitted(out0, a)); let i2 = choose|i2: int| #[trigger] crate::level_of(out0, a, i2); assert(crate::level_of(out@, a, i2)); } }
                    assert(crate::placed_once(out@)) by {
                        assert forall|i: int, j: int, i2: int, j2: int| 0 <= i < out@.len() && 0 <= j < out@[i]@.len() && 0 <= i2 < out@.len() && 0 <= j2 < out@[i2]@.len()
                                && (#[trigger] out@[i]@[j]) == (#[trigger] out@[i2]@[j2]) implies i == i2 && j == j2 by {
                            if i < lv && i2 < lv { assert(out0[i]@[j] == out0[i2]@[j2]); }
                            else if i == lv && i2 == lv { if j < j2 { assert(cl[j] < cl[j2]); } else if j2 < j { assert(cl[j2] < cl[j]); } }
                            else if i < lv { assert(crate::level_of(out0, out0[i]@[j], i)); assert(d0.contains(cl[j2])); }
                            else { assert(crate::level_of(out0, out0[i2]@[j2], i2)); assert(d0.contains(cl[j])); } } }''' % {'S': _S3})],
          loops={0: {'invariant': '''predicate.starts().len() == predicate.nodes@.len(),
                        forall|x: u16| #[trigger] in_degrees@.contains_key(x) ==> (x as int) < n,
                        forall|a: u16| (a as int) < n ==> in_degrees@.contains_key(a) || #[trigger] crate::emitted(out@, a),
                        forall|a: u16, i: int| #[trigger] crate::level_of(out@, a, i) ==> !in_degrees@.contains_key(a) && (a as int) < n,
                        forall|b: u16| #[trigger] in_degrees@.contains_key(b) ==> in_degrees@[b] as int == crate::indeg(%(S)s, in_degrees@.dom(), b, n),
                        crate::parents_first(%(S)s, out@), crate::placed_once(out@)''' % {'S': _S3},
                     # every round takes at least one node out of the waiting set: the sort terminates, and a round that finds no ready node must reject the graph (cycle)
                     'decreases': 'in_degrees@.dom().len()'},
                 1: {'iter_name': 'itn', 'invariant': '''in_degrees@.dom().finite(), in_degrees@.dom().len() + itn.index@ == d0.len(), itn.seq() == cl, 0 <= itn.index@ <= cl.len(), out@.len() == lv + 1, out@[lv]@ == cl,
                        forall|x: u16| #[trigger] in_degrees@.contains_key(x) <==> (d0.contains(x) && !(exists|j: int| 0 <= j < itn.index@ && cl[j] == x)),
                        forall|b: u16| #[trigger] in_degrees@.contains_key(b) ==> in_degrees@[b] as int == crate::indeg(%(S)s, in_degrees@.dom(), b, n)''' % {'S': _S3},
                     'head_ghost': 'let ghost dk = in_degrees@.dom(); let ghost mk = in_degrees@; let ghost kk = itn.index@ as int;',
                     'head_proof': '''assert(node == cl[kk]); assert(d0.contains(node)); assert((node as int) < n);
                        assert(in_degrees@.contains_key(node)) by { if exists|j: int| 0 <= j < kk && cl[j] == node { let j = choose|j: int| 0 <= j < kk && cl[j] == node; assert(cl[j] < cl[kk]); } }
                        assert(crate::node_ok(%(S)s, node as int));''' % {'S': _S3},
                     'tail_proof': '''assert(in_degrees@.dom() =~= dk.remove(node));
                        assert(dk.remove(node).len() == dk.len() - 1);
                        assert forall|b: u16| #[trigger] in_degrees@.contains_key(b) implies in_degrees@[b] as int == crate::indeg(%(S)s, in_degrees@.dom(), b, n) by {
                            crate::lemma_indeg_remove(%(S)s, dk, node, b, n);
                            crate::lemma_indeg_nonneg(%(S)s, dk.remove(node), b, n); }
                        assert forall|x: u16| #[trigger] in_degrees@.contains_key(x) <==> (d0.contains(x) && !(exists|j: int| 0 <= j < kk + 1 && cl[j] == x)) by {
                            if x == node { assert(cl[kk] == x); }
                            else if exists|j: int| 0 <= j < kk + 1 && cl[j] == x { let j = choose|j: int| 0 <= j < kk + 1 && cl[j] == x; assert(j < kk); } }''' % {'S': _S3},
                     'after_proof': '''// the whole level has been taken out of the waiting set
                        assert forall|a: u16| (a as int) < n implies in_degrees@.contains_key(a) || #[trigger] crate::emitted(out@, a) by {
                            if d0.contains(a) { if exists|j: int| 0 <= j < cl.len() && cl[j] == a { assert(crate::level_of(out@, a, lv)); } }
                            else { assert(crate::emitted(out0, a)); let i = choose|i: int| #[trigger] crate::level_of(out0, a, i); assert(crate::level_of(out@, a, i)); } }
                        assert forall|a: u16, i: int| #[trigger] crate::level_of(out@, a, i) implies !in_degrees@.contains_key(a) && (a as int) < n by {
                            if i < lv { assert(crate::level_of(out0, a, i)); } else { let j = choose|j: int| 0 <= j < cl.len() && cl[j] == a; } }'''}},
          props=('C01', 'C06')))
    _S = 'predicate.starts(), predicate.edges@'
    _FL = 'node_flag(is_deferred, predicate.nodes@)'
    so.spec('''
// the flag of node i as decided by the caller's closure (A-traits: a pure function of the node)
pub open spec fn node_flag<F: Fn(&Node) -> bool>(f: F, nodes: Seq<Node>) -> spec_fn(int) -> bool { |i: int| f.ensures((&nodes[i],), true) }
''')
    so.fn('find_deferred', F('find_deferred', attrs=['#[verifier::exec_allows_no_decreases_clause]', '#[verifier::loop_isolation(false)]'],
          requires='''forall|n: &Node| is_deferred.requires((n,)), crate::graph_ok(%(S)s), predicate.nodes@.len() <= 0x1_0000,
            // the flag is a function of the node (pure closure)
            forall|n: &Node, b1: bool, b2: bool| is_deferred.ensures((n,), b1) && is_deferred.ensures((n,), b2) ==> b1 == b2''' % {'S': _S},
          ensures='''
            // every flagged node is deferred ...
            forall|i: int| 0 <= i < predicate.nodes@.len() && #[trigger] crate::flagged(%(FL)s, i) ==> r@.contains(i as u16),
            // ... and so is every child of a deferred node (hence every descendant, however the nodes are numbered) ...
            forall|a: u16, b: u16| r@.contains(a) && #[trigger] crate::child_of(%(S)s, a, b) ==> r@.contains(b),
            // ... and nothing else: every deferred node is a flagged node or a descendant of one
            forall|d: u16| #[trigger] r@.contains(d) ==> crate::descends(%(S)s, %(FL)s, d)''' % {'S': _S, 'FL': _FL},
          head_ghost='let ghost flag = %s; let ghost mut gp: Seq<u16> = Seq::empty();' % _FL,
          loops={0: {'invariant': '''deferred@ == Set::<u16>::empty(), predicate.starts().len() == predicate.nodes@.len(),
                        forall|k: int| 0 <= k < pending@.len() ==> (#[trigger] pending@[k] as int) < predicate.nodes@.len() && flag(pending@[k] as int),
                        forall|i: int| 0 <= i < ix && #[trigger] crate::flagged(flag, i) ==> pending@.contains(i as u16)''',
                     'head_ghost': 'let ghost p_old = pending@;',
                     'tail_proof': '''assert forall|i: int| 0 <= i < ix + 1 && #[trigger] crate::flagged(flag, i) implies pending@.contains(i as u16) by {
                            if i < ix { assert(p_old.contains(i as u16)); let k = choose|k: int| 0 <= k < p_old.len() && p_old[k] == i as u16; assert(pending@[k] == i as u16); }
                            else { assert(pending@[pending@.len() - 1] == ix as u16); } }''',
                     'after_proof': '''assert forall|k: int| 0 <= k < pending@.len() implies crate::descends(%(S)s, flag, #[trigger] pending@[k]) by {
                            crate::lemma_descends_self(%(S)s, flag, pending@[k]); }
                        assert forall|i: int| 0 <= i < predicate.nodes@.len() && #[trigger] crate::flagged(flag, i) implies crate::in_work(deferred@, pending@, i as u16) by { }
                        gp = pending@;''' % {'S': _S}},
                 1: {'invariant': '''gp == pending@, forall|k: int| 0 <= k < pending@.len() ==> (#[trigger] pending@[k] as int) < predicate.nodes@.len(),
                        forall|k: int| 0 <= k < pending@.len() ==> crate::descends(%(S)s, flag, #[trigger] pending@[k]),
                        forall|d: u16| #[trigger] deferred@.contains(d) ==> crate::descends(%(S)s, flag, d),
                        forall|i: int| 0 <= i < predicate.nodes@.len() && #[trigger] crate::flagged(flag, i) ==> crate::in_work(deferred@, pending@, i as u16),
                        forall|a: u16, b: u16| deferred@.contains(a) && #[trigger] crate::child_of(%(S)s, a, b) ==> crate::in_work(deferred@, pending@, b)''' % {'S': _S},
                     'head_proof': '''assert(crate::node_ok(%(S)s, ix as int));
                        assert(gp =~= pending@.push(ix));
                        crate::lemma_work_move(deferred@, pending@, ix);''' % {'S': _S},
                     'tail_proof': '''assert(deferred@.contains(ix)); assert(deferred@.insert(ix) =~= deferred@);
                        gp = pending@;'''},
                 2: {'iter_name': 'itc', 'invariant': '''(ix as int) < predicate.nodes@.len(), deferred@.contains(ix),
                        forall|k: int| 0 <= k < pending@.len() ==> (#[trigger] pending@[k] as int) < predicate.nodes@.len(),
                        forall|k: int| 0 <= k < pending@.len() ==> crate::descends(%(S)s, flag, #[trigger] pending@[k]),
                        forall|d: u16| #[trigger] deferred@.contains(d) ==> crate::descends(%(S)s, flag, d),
                        forall|i: int| 0 <= i < predicate.nodes@.len() && #[trigger] crate::flagged(flag, i) ==> crate::in_work(deferred@, pending@, i as u16),
                        forall|a: u16, b: u16| deferred@.contains(a) && a != ix && #[trigger] crate::child_of(%(S)s, a, b) ==> crate::in_work(deferred@, pending@, b),
                        crate::node_edges_spec(%(S)s, ix as int) is Some,
                        forall|k: int| 0 <= k < itc.index@ ==> crate::in_work(deferred@, pending@, #[trigger] crate::node_edges_spec(%(S)s, ix as int)->Some_0[k]),
                        itc.seq().len() == crate::node_edges_spec(%(S)s, ix as int)->Some_0.len(), 0 <= itc.index@ <= itc.seq().len(),
                        forall|k: int| 0 <= k < itc.seq().len() ==> *(#[trigger] itc.seq()[k]) == crate::node_edges_spec(%(S)s, ix as int)->Some_0[k]''' % {'S': _S},
                     'head_proof': '''assert(crate::node_ok(%(S)s, ix as int));
                        assert(*child == crate::node_edges_spec(%(S)s, ix as int)->Some_0[itc.index@ as int]);
                        assert(crate::child_of(%(S)s, ix, *child));
                        crate::lemma_descends_step(%(S)s, flag, ix, *child);
                        crate::lemma_work_push(deferred@, pending@, *child);''' % {'S': _S}}},
          hints=[('let mut pending: Vec<u16> = Vec::new();', 'after', 'assert(predicate.starts().len() == predicate.nodes@.len());')],
          props=('C01', 'C03', 'C06')))
    so.fn('should_cache', F('should_cache', requires='crate::graph_ok(predicate.starts(), predicate.edges@), (node as int) < predicate.nodes@.len()',
          head_proof='assert(predicate.starts().len() == predicate.nodes@.len()); assert(crate::node_ok(predicate.starts(), predicate.edges@, node as int));',
          # one direction only (vstd's specification of Iterator::any says nothing when the result is false): a cached node is a non-deferred node with a deferred child
          ensures='''r ==> !deferred@.contains(node) && exists|k: int| 0 <= k < crate::node_edges_spec(predicate.starts(), predicate.edges@, node as int)->Some_0.len()
                        && deferred@.contains(#[trigger] crate::node_edges_spec(predicate.starts(), predicate.edges@, node as int)->Some_0[k])''',
          closures={0: {'params': 'child: &u16', 'ret': 'b: bool', 'ensures': 'b == deferred@.contains(*child)'}},
          props=('C01', 'C03')))
    so.fn('remove_deferred', F('remove_deferred', ensures="""
            // only nodes of the right kind survive, taken from the input levels, and no level is empty
            // (that NO such node is dropped is not provable from vstd's filter / map / collect specifications: bounded by xrun graph)
            forall|i: int, j: int| 0 <= i < r@.len() && 0 <= j < r@[i]@.len() ==> !deferred@.contains(r@[i]@[j]),
            forall|i: int| 0 <= i < r@.len() ==> (#[trigger] r@[i])@.len() > 0,
            r@.len() <= nodes@.len()""",
          closures={0: {'params': 'level: Vec<u16>', 'ret': 'l: Vec<u16>', 'ensures': 'forall|j: int| 0 <= j < l@.len() ==> !deferred@.contains(l@[j])'},
                    1: {'params': 'node: &u16', 'ret': 'b: bool', 'ensures': 'b == (!deferred@.contains(*node))'},
                    2: {'params': 'level: &Vec<u16>', 'ret': 'b: bool', 'ensures': 'b == (level@.len() > 0)'}},
          props=('C01', 'C03')))
    so.fn('remove_not_deferred', F('remove_not_deferred', ensures="""
            // only nodes of the right kind survive, taken from the input levels, and no level is empty
            // (that NO such node is dropped is not provable from vstd's filter / map / collect specifications: bounded by xrun graph)
            forall|i: int, j: int| 0 <= i < r@.len() && 0 <= j < r@[i]@.len() ==> deferred@.contains(r@[i]@[j]),
            forall|i: int| 0 <= i < r@.len() ==> (#[trigger] r@[i])@.len() > 0,
            r@.len() <= nodes@.len()""",
          closures={0: {'params': 'level: Vec<u16>', 'ret': 'l: Vec<u16>', 'ensures': 'forall|j: int| 0 <= j < l@.len() ==> deferred@.contains(l@[j])'},
                    1: {'params': 'node: &u16', 'ret': 'b: bool', 'ensures': 'b == (deferred@.contains(*node))'},
                    2: {'params': 'level: &Vec<u16>', 'ret': 'b: bool', 'ensures': 'b == (level@.len() > 0)'}},
          props=('C01', 'C03')))
    # ------------------------------------------------------------------ check::predicate
    pm = u.module('predicate', file='crates/check/src/predicate.rs', uses="""
use crate::essential_types::predicate::Predicate; use crate::ext::secp256k1; use crate::*;""")
    pm.item('enum InvalidContract')
    pm.item('enum InvalidPredicate')
    pm.item('const MAX_PREDICATES')
    pm.fn('check', F('check', ensures='r is Ok <==> predicate.nodes@.len() <= 1000 && predicate.edges@.len() <= 1000', props=('C16', 'C06')))
    pm.fn('check_contract', F('check_contract', desugar_enumerate=True, ensures="""r is Ok <==> predicates@.len() <= 100
            && forall|i: int| 0 <= i < predicates@.len() ==> (#[trigger] predicates@[i]).nodes@.len() <= 1000 && predicates@[i].edges@.len() <= 1000""",
          loops={0: {'iter_name': 'itp', 'invariant': '''predicates@.len() <= 100, itp.seq().len() == predicates@.len(), ix == itp.index@,
                    (forall|k: int| 0 <= k < itp.seq().len() ==> *(#[trigger] itp.seq()[k]) == predicates@[k]),
                    forall|i: int| 0 <= i < itp.index@ ==> (#[trigger] predicates@[i]).nodes@.len() <= 1000 && predicates@[i].edges@.len() <= 1000''',
                     'head_proof': 'assert(*predicate == predicates@[itp.index@ as int]);'}},
          props=('C16', 'C06')))
    return u
