"""Unit types_core: essential-types binary codecs and Predicate::node_edges (C06, C18, C17 size)."""
import os
from unit import Unit
from weave import FnSpec as F

HERE = os.path.dirname(os.path.abspath(__file__))
NEEDS_ASM_EXPANSION = False


def _read(name):
    with open(os.path.join(HERE, '..', 'prelude', name)) as f:
        return f.read()


def build(_exp=None):
    u = Unit('types_core')
    u.header = _read('header.rs')
    u.prelude = [_read('std.rs'), _read('types_spec.rs')]
    add_types(u, None, 'crate')
    return u


def _subst(P, f):
    r = lambda t: t.replace('%(P)s', P) if isinstance(t, str) else t
    f.ensures, f.requires = r(f.ensures), r(f.requires)
    f.loops = {k: {kk: r(vv) for kk, vv in v.items()} for k, v in f.loops.items()}
    f.hints = [tuple(r(x) for x in h) for h in f.hints]
    return f


def add_types(u, name, P):
    """add the essential-types modules to unit u, as crate root (name=None, P='crate') or nested in module `name` (P='crate::<name>')"""
    root = u.module(name or '', file='crates/types/src/lib.rs', uses='pub use %s::predicate::{Predicate}; pub use %s::solution::{Solution, SolutionSet};' % (P, P) + (' use crate::*;' if name else ''))
    _add(u, root if name else None, root, P)


def _add(u, par, root, P):
    for t in ('type Word', 'type Key', 'type Value', 'type Hash', 'struct PredicateAddress'):
        root.item(t)
    root.item('struct ContentAddress', assumed_clone=True)

    sol = u.module('solution', file='crates/types/src/solution.rs', parent=par, uses='use %s::{Key, PredicateAddress, Value, Word}; use crate::*;' % P)
    for t in ('type SolutionIndex', 'struct SolutionSet', 'struct Solution', 'struct Mutation'):
        sol.item(t)
    sol.spec('''
impl Mutation { pub open spec fn pair(&self) -> (Seq<i64>, Seq<i64>) { (self.key@, self.value@) } }
pub open spec fn mutation_pairs(ms: Seq<Mutation>) -> Seq<(Seq<i64>, Seq<i64>)> { ms.map_values(|m: Mutation| m.pair()) }
''')
    sol.spec('''
pub open spec fn sum_mut_lens(sols: Seq<Solution>) -> int decreases sols.len() {
    if sols.len() == 0 { 0 } else { sum_mut_lens(sols.drop_last()) + sols.last().state_mutations@.len() } }
''')
    sol.impl('impl SolutionSet', [
        F('state_mutations_len', mode='assumed', ensures='r == sum_mut_lens(self.solutions@)',
          note='`.iter().map(..).sum()`: `sum` is a provided trait method Verus cannot specify (overflow of the usize sum is not modelled: A-alloc bounds the total)',
          props=('C16', 'C04')),
    ])
    sol.impl('impl Mutation', [
        F('encode_size', ensures='r == 2 + self.key@.len() + self.value@.len()', requires='2 + self.key@.len() + self.value@.len() <= usize::MAX', props=('C18', 'C06')),
    ])
    enc = u.module('encode', file='crates/types/src/solution/encode.rs', parent=sol, uses='use %s::Word; use super::Mutation; use crate::*;' % P)
    enc.fn('encode_mutation_size', F('encode_mutation_size', requires='2 + mutation.key@.len() + mutation.value@.len() <= usize::MAX',
                                     ensures='r == crate::enc_mutation(mutation.key@, mutation.value@).len()', props=('C18', 'C06')))
    dec = u.module('decode', file='crates/types/src/solution/decode.rs', parent=sol, uses='use %s::Word; use super::Mutation; use crate::*;\nbroadcast use crate::axiom_slice_i64_len;' % P)
    dec.item('enum MutationDecodeError')
    dec.fn('decode_mutation', F('decode_mutation', ensures="""
            // decoder inverts the encoder on every input that starts with an encoding
            forall|k: Seq<i64>, v: Seq<i64>, rest: Seq<i64>| bytes@ == crate::enc_mutation(k, v) + rest ==> r is Ok && r->Ok_0.key@ == k && r->Ok_0.value@ == v,
            // and accepts nothing else: an accepted input starts with the encoding of the returned mutation
            r matches Ok(m) ==> crate::enc_mutation(m.key@, m.value@).len() <= bytes@.len() && bytes@.take(crate::enc_mutation(m.key@, m.value@).len() as int) == crate::enc_mutation(m.key@, m.value@)""",
        props=('C06', 'C18')))

    dec.fn('decode_mutations', _subst(P, F('decode_mutations', ensures="""
            forall|ms: Seq<(Seq<i64>, Seq<i64>)>| ms.len() <= i64::MAX && bytes@ == crate::enc_mutations(ms) ==> r is Ok && %(P)s::solution::mutation_pairs(r->Ok_0@) =~= ms,
            r matches Ok(v) ==> bytes@.len() > 0 && ((bytes@[0] == 0 && v@.len() == 0) || (bytes@[0] > 0 && bytes@.skip(1) =~= crate::enc_mutation_list(%(P)s::solution::mutation_pairs(v@))))""",
        loops={0: {'invariant': """1 <= i <= bytes@.len(), len > 0, bytes@[0] > 0,
                bytes@.subrange(1, i as int) =~= crate::enc_mutation_list(%(P)s::solution::mutation_pairs(mutations@)),
                forall|ms: Seq<(Seq<i64>, Seq<i64>)>| bytes@ == crate::enc_mutations(ms) ==> mutations@.len() <= ms.len()
                    && bytes@.skip(i as int) =~= crate::enc_mutation_list(ms.skip(mutations@.len() as int))
                    && %(P)s::solution::mutation_pairs(mutations@) =~= ms.take(mutations@.len() as int)""",
                   'decreases': 'bytes@.len() - i'}},
        hints=[('let mut i = 1;', 'after', """assert forall|ms: Seq<(Seq<i64>, Seq<i64>)>| bytes@ == crate::enc_mutations(ms) implies
                    bytes@.skip(1) =~= crate::enc_mutation_list(ms.skip(0)) by { assert(ms.skip(0) =~= ms); }
                assert(%(P)s::solution::mutation_pairs(mutations@) =~= Seq::<(Seq<i64>, Seq<i64>)>::empty());"""),
               ('let mutation = decode_mutation(b)?;', 'before', """assert(b@ =~= bytes@.skip(i as int));
                assert forall|ms: Seq<(Seq<i64>, Seq<i64>)>| bytes@ == crate::enc_mutations(ms) implies
                    mutations@.len() < ms.len() && b@ == #[trigger] (crate::enc_mutation(ms[mutations@.len() as int].0, ms[mutations@.len() as int].1) + crate::enc_mutation_list(ms.skip(mutations@.len() as int + 1))) by {
                    let k = mutations@.len() as int; let t = ms.skip(k);
                    assert(crate::enc_mutation_list(t) =~= bytes@.skip(i as int));
                    assert(t.len() > 0);
                    assert(t[0] == ms[k]); assert(t.skip(1) =~= ms.skip(k + 1)); }"""),
               ('i += size;', 'before', 'let ghost old_i = i; let ghost old_muts = mutations@; let ghost mp = mutation.pair();', 'ghost'),
               ('mutations.push(mutation);', 'after', """let pairs0 = %(P)s::solution::mutation_pairs(old_muts);
                assert(%(P)s::solution::mutation_pairs(mutations@) =~= pairs0.push(mp));
                crate::lemma_enc_list_push(pairs0, mp);
                assert(bytes@.subrange(1, i as int) =~= bytes@.subrange(1, old_i as int) + b@.take(size as int));
                assert forall|ms: Seq<(Seq<i64>, Seq<i64>)>| bytes@ == crate::enc_mutations(ms) implies mutations@.len() <= ms.len()
                    && bytes@.skip(i as int) =~= crate::enc_mutation_list(ms.skip(mutations@.len() as int))
                    && %(P)s::solution::mutation_pairs(mutations@) =~= ms.take(mutations@.len() as int) by {
                    let k = old_muts.len() as int;
                    let x = crate::enc_mutation(ms[k].0, ms[k].1); let y = crate::enc_mutation_list(ms.skip(k + 1));
                    assert(b@ == x + y);
                    assert(mp == ms[k]);
                    assert(size == x.len());
                    assert(bytes@.skip(i as int) =~= b@.skip(size as int));
                    assert((x + y).skip(x.len() as int) =~= y);
                    assert(ms.take(k + 1) =~= ms.take(k).push(ms[k])); }""")],
        props=('C06', 'C18'))))
    pr = u.module('predicate', file='crates/types/src/predicate.rs', parent=par, uses='use %s::ContentAddress; use crate::*;' % P)
    pr.item('struct Node')
    pr.item('type Edge')
    pr.item('struct Predicate')
    pr.spec("""
impl Predicate { pub open spec fn starts(&self) -> Seq<u16> { self.nodes@.map_values(|n: Node| n.edge_start) }
    pub open spec fn addrs(&self) -> Seq<Seq<u8>> { self.nodes@.map_values(|n: Node| n.program_address.0@) } }
""")
    pr.impl('impl Predicate', [('const', 'MAX_NODES'), ('const', 'MAX_EDGES'),
        F('node_edges', ensures="""match crate::node_edges_spec(self.starts(), self.edges@, node_ix as int) {
                Some(es) => r is Some && r->Some_0@ =~= es, None => r is None }""",
          head_proof='assert(self.nodes@.len() == self.nodes.len()); assert(self.edges@.len() == self.edges.len()); assert(self.starts().len() == self.nodes@.len());',
          props=('C18', 'C06', 'C01')),
    ])
    pe = u.module('encode', file='crates/types/src/predicate/encode.rs', parent=pr, uses='use super::*; use crate::*;')
    pe.item('const NODE_SIZE_BYTES')
    for c in ('EDGE_SIZE_BYTES', 'LEN_SIZE_BYTES'):
        pe.item('const ' + c, rewrites=[('R11', 'const %s: usize = core::mem::size_of::<u16>();' % c,
                                         'exec const %s: usize ensures %s == 2 { core::mem::size_of::<u16>() }' % (c, c))])
    pe.fn('predicate_encoded_size', F('predicate_encoded_size', requires='predicate.nodes@.len() <= 1000, predicate.edges@.len() <= 1000',
          ensures='r == crate::predicate_size_spec(predicate.nodes@.len(), predicate.edges@.len())', props=('C17', 'C18')))
