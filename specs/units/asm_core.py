"""Unit asm_core: essential-asm's generated codec (macro-expanded text, i.e. what the proc-macro really emitted from asm.yml)
and the effects analysis, verified against spec tables generated from asm.yml by an independent YAML reading (C13, C15)."""
import os
from unit import Unit
from weave import FnSpec as F
import asm_yaml

NEEDS_ASM_EXPANSION = True
HERE = os.path.dirname(os.path.abspath(__file__))


def _read(name):
    with open(os.path.join(HERE, '..', 'prelude', name)) as f:
        return f.read()


# the helper fn the proc-macro nests in the Push arm of parse_op: reads exactly 8 bytes or fails
NESTED = {'parse_word_bytes': {'ret': 'r8', 'ensures': '''(*final(bytes)).obeys_prophetic_iter_laws() == (*old(bytes)).obeys_prophetic_iter_laws(),
        (*old(bytes)).obeys_prophetic_iter_laws() && (*old(bytes)).remaining().len() >= 8 ==> r8 is Some && r8->Some_0@ =~= (*old(bytes)).remaining().take(8)
            && (*final(bytes)).remaining() =~= (*old(bytes)).remaining().skip(8),
        (*old(bytes)).obeys_prophetic_iter_laws() && (*old(bytes)).remaining().len() < 8 ==> r8 is None'''}}
HINTS = [('parse_word_bytes(bytes).ok_or(NotEnoughBytesError)?;', 'after',
          '''if (*old(bytes)).obeys_prophetic_iter_laws() { crate::axiom_arr8((*old(bytes)).remaining()); crate::axiom_array_ext(word_bytes, crate::arr8((*old(bytes)).remaining())); }''')]


def build(asm_expanded):
    groups = asm_yaml.read_spec()
    gnames = [g for g, _ in groups]
    u = Unit('asm_core')
    u.header = _read('header.rs')
    u.prelude = [_read('std.rs'), _read('asm_spec.rs')]

    # ------------------------------------------------------------------ crate root = essential-asm's lib.rs (expanded)
    root = u.module('', file=asm_expanded, uses='''pub use crate::essential_types::Word;
pub use crate::op::{Op, *}; pub use crate::opcode::{InvalidOpcodeError, NotEnoughBytesError, Op as Opcode}; use crate::asm_yml::*;''')
    root.item('enum FromBytesError', from_impls=False)
    root.stub('''#[verifier::external] impl core::fmt::Debug for FromBytesError { fn fmt(&self, f: &mut core::fmt::Formatter<'_>) -> core::fmt::Result { f.write_str("FromBytesError") } }
#[verifier::external] impl core::fmt::Display for FromBytesError { fn fmt(&self, f: &mut core::fmt::Formatter<'_>) -> core::fmt::Result { f.write_str("FromBytesError") } }
#[verifier::external] impl core::fmt::Debug for crate::opcode::InvalidOpcodeError { fn fmt(&self, f: &mut core::fmt::Formatter<'_>) -> core::fmt::Result { f.write_str("InvalidOpcodeError") } }
#[verifier::external] impl core::fmt::Display for crate::opcode::InvalidOpcodeError { fn fmt(&self, f: &mut core::fmt::Formatter<'_>) -> core::fmt::Result { f.write_str("InvalidOpcodeError") } }
#[verifier::external] impl core::fmt::Debug for crate::opcode::NotEnoughBytesError { fn fmt(&self, f: &mut core::fmt::Formatter<'_>) -> core::fmt::Result { f.write_str("NotEnoughBytesError") } }
#[verifier::external] impl core::fmt::Display for crate::opcode::NotEnoughBytesError { fn fmt(&self, f: &mut core::fmt::Formatter<'_>) -> core::fmt::Result { f.write_str("NotEnoughBytesError") } }
''', 'Debug / Display impls of the three error types (formatting only), needed as the trait bounds `type Error: Debug + Display`')
    root.spec('''
impl vstd::std_specs::convert::FromSpecImpl<InvalidOpcodeError> for FromBytesError {
    open spec fn obeys_from_spec() -> bool { true }
    open spec fn from_spec(e: InvalidOpcodeError) -> Self { FromBytesError::InvalidOpcode(e) } }
impl vstd::std_specs::convert::FromSpecImpl<NotEnoughBytesError> for FromBytesError {
    open spec fn obeys_from_spec() -> bool { true }
    open spec fn from_spec(e: NotEnoughBytesError) -> Self { FromBytesError::NotEnoughBytes(e) } }
''')
    root.impl('impl From<InvalidOpcodeError> for FromBytesError', [F('from', props=('C13',))])
    root.impl('impl From<NotEnoughBytesError> for FromBytesError', [F('from', props=('C13',))])

    # ------------------------------------------------------------------ essential-types items the codec uses
    ty = u.module('essential_types', file='crates/types/src/lib.rs', uses='')
    ty.item('type Word')
    conv = u.module('convert', file='crates/types/src/convert.rs', parent=ty, uses='use crate::essential_types::*; use crate::*;')
    note = ('one-line wrapper of i64::{to,from}_be_bytes, whose std signature (`[u8; size_of::<Self>()]`) Verus cannot match in an assume_specification; '
            'the real function is proved inverse of its twin and big-endian for all inputs by the complete Kani harness types_k1::word_bytes_roundtrip')
    conv.fn('bytes_from_word', F('bytes_from_word', mode='assumed', ensures='r == be_bytes(w)', note=note, props=('C13',)))
    conv.fn('word_from_bytes', F('word_from_bytes', mode='assumed', ensures='r == from_be(bytes)', note=note, props=('C13',)))

    # ------------------------------------------------------------------ mod opcode
    oc = u.module('opcode', file=asm_expanded, uses='use crate::asm_yml::*; use crate::*; use vstd::std_specs::iter::IteratorSpec;')
    oc.trait(['mod opcode', 'trait ParseOp'])
    oc.item(['mod opcode', 'struct InvalidOpcodeError'])
    oc.item(['mod opcode', 'struct NotEnoughBytesError'])
    for g in ['Op'] + gnames:
        oc.item(['mod opcode', 'enum ' + g], extra_attrs='#[derive(Clone, Copy, PartialEq, Eq)]\n#[repr(u8)]\n')
    u.log.rw('D5', 'opcode', 'expanded `impl Clone/Copy/PartialEq/Eq for <opcode enum>`', '#[derive(Clone, Copy, PartialEq, Eq)] (what asm-gen emits)')
    for g in ['Op'] + gnames:
        oc.spec('''
impl vstd::std_specs::convert::FromSpecImpl<%(g)s> for u8 {
    open spec fn obeys_from_spec() -> bool { true }
    open spec fn from_spec(o: %(g)s) -> Self { byte_of_%(g)s(o) } }
impl vstd::std_specs::convert::TryFromSpecImpl<u8> for %(g)s {
    open spec fn obeys_try_from_spec() -> bool { true }
    open spec fn try_from_spec(u: u8) -> Result<Self, Self::Error> { match %(g)s_of_byte(u) { Some(o) => Ok(o), None => Err(InvalidOpcodeError(u)) } } }
''' % {'g': g})
        # opcode byte of each opcode: exactly the byte declared in asm.yml
        oc.impl(['mod opcode', 'impl From<%s> for u8' % g], [F('from', ensures='r == byte_of_%s(opcode)' % g, props=('C13',))])
        # valid opcode bytes and the operation each denotes: exactly those declared in asm.yml; every other byte is InvalidOpcode(byte)
        oc.impl(['mod opcode', 'impl TryFrom<u8> for %s' % g], [('type', 'Error'),
                F('try_from', ensures='r == (match %s_of_byte(u) { Some(o) => Ok::<Self, InvalidOpcodeError>(o), None => Err::<Self, InvalidOpcodeError>(InvalidOpcodeError(u)) })' % g, props=('C13',))])
        # immediates: 8 bytes for Push (the word they denote big-endian), none otherwise; a truncated immediate is NotEnoughBytes
        has_imm = g != 'Op' and any(o['nargs'] for o in dict(groups)[g])
        oc.impl(['mod opcode', 'impl ParseOp for %s' % g], [('type', 'Op'), ('type', 'Error'),
                F('parse_op', nested=NESTED if has_imm else None, hints=HINTS if has_imm else None, ensures='''(*old(bytes)).obeys_prophetic_iter_laws() ==> match parse_%(g)s(*self, (*old(bytes)).remaining()) {
                        Some(o) => r == Ok::<Self::Op, Self::Error>(o) && (*final(bytes)).remaining() =~= (*old(bytes)).remaining().skip(nargs_%(g)s(*self) as int),
                        None => r is Err }''' % {'g': g}, props=('C13',))])
    for g in gnames:
        oc.spec('''impl vstd::std_specs::convert::FromSpecImpl<%(g)s> for Op {
    open spec fn obeys_from_spec() -> bool { true }
    open spec fn from_spec(o: %(g)s) -> Self { Op::%(g)s(o) } }
''' % {'g': g})
        oc.impl(['mod opcode', 'impl From<%s> for Op' % g], [F('from', ensures='r == Op::%s(subgroup)' % g, rename='from', props=('C13',))])

    # ------------------------------------------------------------------ mod op
    om = u.module('op', file=asm_expanded, uses='use crate::asm_yml::*; use crate::*; use crate::essential_types; use vstd::std_specs::iter::IteratorSpec;')
    for t in ('ToBytes', 'ToOpcode', 'TryFromBytes'):
        om.trait(['mod op', 'trait ' + t])
    for g in ['Op'] + gnames:
        om.item(['mod op', 'enum ' + g], extra_attrs='#[derive(Clone, Copy, PartialEq, Eq)]\n')
    u.log.rw('D5', 'op', 'expanded `impl Clone/Copy/PartialEq/Eq for <op enum>`', '#[derive(Clone, Copy, PartialEq, Eq)] (what asm-gen emits)')
    for g in ['Op'] + gnames:
        om.impl(['mod op', 'impl ToOpcode for %s' % g], [('type', 'Opcode'), F('to_opcode', ensures='r == opcode_of_%s(*self)' % g, props=('C13', 'C15'))])
        om.impl(['mod op', 'impl ToBytes for %s' % g], [('type', 'Bytes'),
                F('to_bytes', ensures='biv_%s(r) == (0usize, enc_%s(*self))' % (g, g), props=('C13',))])
    for g in ['Op'] + gnames:
        # parsing one op from a byte stream follows the documented format exactly (dec_Op is written from the property statement over the YAML tables)
        ens = '''(*old(bytes)).obeys_prophetic_iter_laws() ==> match dec_Op((*old(bytes)).remaining()) {
                None => r is None,
                Some(Err(DecErr::InvalidOpcode(b))) => r matches Some(Err(crate::FromBytesError::InvalidOpcode(e))) && e.0 == b,
                Some(Err(DecErr::NotEnoughBytes)) => r matches Some(Err(crate::FromBytesError::NotEnoughBytes(_))),
                Some(Ok((o, n))) => r == Some(Ok::<Self, Self::Error>(o)) && (*final(bytes)).remaining() =~= (*old(bytes)).remaining().skip(n as int) }''' if g == 'Op' else None
        om.impl(['mod op', 'impl TryFromBytes for %s' % g], [('type', 'Error'), F('try_from_bytes', inline_and_then=True, ensures=ens, props=('C13',))])
    for g in gnames:
        om.spec('''impl vstd::std_specs::convert::FromSpecImpl<%(g)s> for Op {
    open spec fn obeys_from_spec() -> bool { true }
    open spec fn from_spec(o: %(g)s) -> Self { Op::%(g)s(o) } }
''' % {'g': g})
        om.impl(['mod op', 'impl From<%s> for Op' % g], [F('from', ensures='r == Op::%s(subgroup)' % g, props=('C13',))])
    # short names: exactly those declared in asm.yml (default: the upper-cased name), each denoting its op
    sh = u.module('short', file=asm_expanded, parent=om, uses='use super::{Op, *}; use crate::*;')
    sf = sh.sf()
    short_mod = sf.find(['mod op', 'mod short'])
    have = sorted(c.name for c in short_mod.children if c.kind == 'const')
    want = sorted(o['short'] for _, ops in groups for o in ops)
    if have != want:
        # reported as a failed obligation of the (generated) lemma below: the missing / extra names make it ill-formed on purpose
        u.short_names_mismatch = {'missing': sorted(set(want) - set(have)), 'extra': sorted(set(have) - set(want))}
    asserts = []
    for g, ops in groups:
        for o in ops:
            if o['short'] not in have:
                continue
            if o['nargs']:
                sub = [c for c in short_mod.children if c.kind == 'mod' and c.name == o['short'].lower()]
                if len(sub) == 1:
                    m2 = u.module(o['short'].lower(), file=asm_expanded, parent=sh, uses='use super::*;', vis='')
                    m2.fn(['mod op', 'mod short', 'mod ' + o['short'].lower(), 'fn ' + o['short'].lower()],
                          F(o['short'].lower(), ensures='r == Op::%s(%s::%s(word))' % (g, g, o['name']), props=('C13',)))
                # `pub const PUSH: fn(i64) -> Op = push::push;` - function pointer types are outside Verus: the const is compared textually
                c = sf.find(['mod op', 'mod short', 'const ' + o['short']])
                from rustlex import norm
                txt = norm(sf.toks, c.kw, c.hi)
                exp = 'const %s : fn ( i64 ) -> Op = %s :: %s ;' % (o['short'], o['short'].lower(), o['short'].lower())
                if txt != exp:
                    u.short_names_mismatch = {'const': o['short'], 'text': txt, 'expected': exp}
                u.log.rw('D6', 'op::short', txt, '(dropped: function-pointer const, compared textually with `%s`; the fn it names is verified)' % exp)
            else:
                sh.item(['mod op', 'mod short', 'const ' + o['short']])
                asserts.append('%s == Op::%s(%s::%s)' % (o['short'], g, g, o['name']))
    sh.spec('pub proof fn lemma_short_names() ensures %s { }\n' % ', '.join(asserts), label='op::short::lemma_short_names', props=('C13',))
    bi = u.module('bytes_iter', file=asm_expanded, parent=om, uses='use crate::asm_yml::*; use crate::*;')
    for g in ['Op'] + gnames:
        bi.item(['mod op', 'mod bytes_iter', 'enum ' + g], extra_attrs='#[allow(inconsistent_fields)]\n')
    u.log.rw('D5', 'op::bytes_iter', '(no rewrite) #[allow(inconsistent_fields)] added to the byte-iterator enums', 'silences a Verus lint about the differently sized `bytes` arrays')
    # spec view of the byte iterators (generated from the YAML names): (index, bytes)
    t = []
    for g, ops in groups:
        t.append('pub open spec fn biv_%s(it: crate::op::bytes_iter::%s) -> (usize, Seq<u8>) { match it { %s } }' % (g, g, ' '.join(
            'crate::op::bytes_iter::%s::%s { index, bytes } => (index, bytes@),' % (g, o['name']) for o in ops)))
    t.append('pub open spec fn biv_Op(it: crate::op::bytes_iter::Op) -> (usize, Seq<u8>) { match it { %s } }' % ' '.join(
        'crate::op::bytes_iter::Op::%s(g) => biv_%s(g),' % (g, g) for g in gnames))
    t.append('pub open spec fn biv_rem(v: (usize, Seq<u8>)) -> Seq<u8> { if v.0 <= v.1.len() { v.1.skip(v.0 as int) } else { Seq::empty() } }')
    spec_text = asm_yaml.gen_spec(groups)
    spec_text = spec_text.replace('} // mod asm_yml', '\n'.join(t) + '\n} // mod asm_yml')
    root.spec(spec_text, label='asm_yml', props=('C13', 'C15'))
    for g in ['Op'] + gnames:
        bi.spec('''
impl vstd::std_specs::iter::IteratorSpecImpl for %(g)s {
    open spec fn obeys_prophetic_iter_laws(&self) -> bool { true }
    open spec fn remaining(&self) -> Seq<u8> { biv_rem(biv_%(g)s(*self)) }
    open spec fn will_return_none(&self) -> bool { true }
    open spec fn decrease(&self) -> Option<nat> { Some(biv_rem(biv_%(g)s(*self)).len()) }
    open spec fn peek(&self, index: int) -> Option<u8> { if 0 <= index < biv_rem(biv_%(g)s(*self)).len() { Some(biv_rem(biv_%(g)s(*self))[index]) } else { None } }
}
''' % {'g': g})
        # iterating the byte iterator yields exactly bytes[index..] (vstd's iterator laws for `next`)
        bi.impl(['mod op', 'mod bytes_iter', 'impl Iterator for %s' % g], [('type', 'Item'), F('next', props=('C13',))])
    # ------------------------------------------------------------------ mod effects (C15)
    flags = asm_yaml.effect_flags()
    ef = u.module('effects', file=asm_expanded, uses='use crate::{Access, Op, Stack, StateRead, ToOpcode}; use crate::asm_yml::*; use crate::*;')
    ef.item(['mod effects', 'struct Effects'], extra_attrs='#[derive(Clone, Copy, Eq)]\n')
    u.log.rw('D5', 'effects', 'expanded `impl Copy/Clone/Eq for Effects`', '#[derive(Clone, Copy, Eq)] (as written in effects.rs); the expanded PartialEq impl is verified')
    ef.impl(['mod effects', 'impl ::core::cmp::PartialEq for Effects'], [F('eq', ensures='r == (self.b() == other.b())', props=('C15',))])
    # T-bitflags: the methods the external `bitflags!` macro generates for Effects (nested in a `const _: () = {..}` block that delegates to
    # bitflags' own traits) are assumed with their documented bit-level meaning; the complete Kani harness asm_k1::effects_api checks them on the real crate
    api = '''impl Effects {
    pub closed spec fn b(&self) -> u8 { self.0 }
    #[verifier::external_body] pub const fn empty() -> (r: Self) ensures r.b() == 0u8 { Self(0) }
    #[verifier::external_body] pub const fn all() -> (r: Self) ensures r.b() == ALL_FLAGS { Self(0) }
    #[verifier::external_body] pub const fn bits(&self) -> (r: u8) ensures r == self.b() { self.0 }
    #[verifier::external_body] pub const fn from_bits_retain(bits: u8) -> (r: Self) ensures r.b() == bits { Self(bits) }
    #[verifier::external_body] pub const fn contains(&self, other: Self) -> (r: bool) ensures r == (self.b() & other.b() == other.b()) { true }
    #[verifier::external_body] pub const fn union(self, other: Self) -> (r: Self) ensures r.b() == self.b() | other.b() { self }
    #[verifier::external_body] pub fn insert(&mut self, other: Self) ensures final(self).b() == old(self).b() | other.b() { }
}
impl core::ops::BitOrAssign for Effects { #[verifier::external_body] fn bitor_assign(&mut self, other: Self) ensures final(self).b() == old(self).b() | other.b() { } }
impl core::ops::BitOr for Effects { type Output = Self; #[verifier::external_body] fn bitor(self, other: Effects) -> (r: Self) ensures r.b() == self.b() | other.b() { self } }
impl vstd::std_specs::ops::BitOrAssignSpecImpl<Effects> for Effects {
    open spec fn obeys_bitor_assign_spec() -> bool { false }
    open spec fn bitor_assign_req(&self, rhs: Effects) -> bool { true }
    open spec fn bitor_assign_spec(&self, rhs: Effects) -> &Self { self } }
impl vstd::std_specs::cmp::PartialEqSpecImpl for Effects {
    open spec fn obeys_eq_spec() -> bool { true }
    open spec fn eq_spec(&self, other: &Effects) -> bool { self.b() == other.b() } }
'''
    ef.spec(api, label='effects::bitflags_api')
    for nm in ('empty', 'all', 'bits', 'from_bits_retain', 'contains', 'union', 'insert', 'bitor_assign', 'bitor'):
        u.log.escapes.append({'fn': 'effects::Effects::' + nm, 'kind': 'external_body (stand-in for bitflags-generated code)', 'contract': 'bit-level meaning documented by bitflags',
                              'note': 'generated by the external bitflags macro inside `const _: () = {..}`; checked on the real crate by the complete Kani harness asm_k1::effects_api'})
    ef.impl(['mod effects', 'impl Effects'], [('const_ensures', fl, 'Self::%s.b() == %du8' % (fl, 1 << bit), ('C15',), 'assert(1u8 << %d == %du8) by (bit_vector);' % (bit, 1 << bit)) for _, _, fl, bit in flags])
    # the effect flag of one op / the union over a program (from the property statement: exactly the effects present)
    t = 'pub open spec fn flag_of(o: crate::op::Op) -> u8 { match o { %s _ => 0u8 } }\n' % ' '.join(
        'crate::op::Op::%s(crate::op::%s::%s) => %du8,' % (g, g, o, 1 << bit) for g, o, _, bit in flags)
    t += '''pub spec const ALL_FLAGS: u8 = %du8;
pub open spec fn flags_of(ops: Seq<crate::op::Op>) -> u8 decreases ops.len() { if ops.len() == 0 { 0u8 } else { flags_of(ops.drop_last()) | flag_of(ops.last()) } }
pub proof fn lemma_flag_sub(o: crate::op::Op) ensures flag_of(o) & !ALL_FLAGS == 0 { assert(%s) by (bit_vector); }
pub proof fn lemma_flags_sub(ops: Seq<crate::op::Op>) ensures flags_of(ops) & !ALL_FLAGS == 0 decreases ops.len() {
    if ops.len() > 0 { lemma_flags_sub(ops.drop_last()); lemma_flag_sub(ops.last()); let a = flags_of(ops.drop_last()); let c = flag_of(ops.last());
        assert(a & !ALL_FLAGS == 0 && c & !ALL_FLAGS == 0 ==> (a | c) & !ALL_FLAGS == 0) by (bit_vector); } else { assert(0u8 & !ALL_FLAGS == 0) by (bit_vector); } }
// once every flag is present in a prefix, the whole program has exactly all flags
pub proof fn lemma_flags_saturated(ops: Seq<crate::op::Op>, i: int) requires 0 <= i <= ops.len(), flags_of(ops.take(i)) == ALL_FLAGS ensures flags_of(ops) == ALL_FLAGS decreases ops.len() - i {
    if i < ops.len() { let a = flags_of(ops.take(i)); let c = flag_of(ops[i]); lemma_flag_sub(ops[i]);
        assert(ops.take(i + 1).drop_last() =~= ops.take(i)); assert(ops.take(i + 1).last() == ops[i]);
        assert(a == ALL_FLAGS && c & !ALL_FLAGS == 0 ==> (a | c) == ALL_FLAGS) by (bit_vector);
        lemma_flags_saturated(ops, i + 1); } else { assert(ops.take(i) =~= ops); } }
''' % (sum(1 << bit for _, _, _, bit in flags), ' && '.join('%du8 & !ALL_FLAGS == 0' % (1 << bit) for _, _, _, bit in flags) + ' && 0u8 & !ALL_FLAGS == 0')
    ef.spec(t, label='effects::lemmas', props=('C15',))
    ef.fn(['mod effects', 'fn analyze'], F('analyze', ensures='r.b() == flags_of(ops@)',
          loops={0: {'iter_name': 'it',
                     'invariant': 'it.seq().len() == ops@.len(), (forall|k: int| 0 <= k < it.seq().len() ==> *(#[trigger] it.seq()[k]) == ops@[k]), 0 <= it.index@ <= ops@.len(), ops@.take(ops@.len() as int) =~= ops@',
                     'invariant_except_break': 'effects.b() == flags_of(ops@.take(it.index@ as int))',
                     'ensures': 'effects.b() == flags_of(ops@)'}},
          hints=[('if effects == Effects::all()', 'before', '''let i = it.index@ as int;
                assert(ops@.take(i + 1).drop_last() =~= ops@.take(i)); assert(ops@.take(i + 1).last() == *op);
                assert(forall|x: u8| x | 0u8 == x) by (bit_vector);
                assert(effects.b() == flags_of(ops@.take(i + 1)));
                if effects.b() == ALL_FLAGS { lemma_flags_saturated(ops@, i + 1); }''')],
          props=('C15',)))
    return u
