"""Which machinery decides which property."""

PROPS = {
    'C05': {'level': 'proof', 'verus_units': ['vm_core'],
            'explanation': 'VM totality / resource bounds: every function of the synchronous VM core carries vm_wf-style '
                           'pre/postconditions and is verified by Verus, which also generates the no-overflow / in-bounds / no-panic goals.'},
    'C08': {'level': 'proof', 'verus_units': ['vm_core'],
            'explanation': 'per-op functional contracts against spec functions written from asm.yml'},
    'C09': {'level': 'proof', 'verus_units': ['vm_core'],
            'explanation': 'control flow / repeat / eval contracts'},
    'C07': {'level': 'proof', 'verus_units': ['vm_core'],
            'explanation': 'Vm::exec loop invariant over a ghost trace of visited pcs and child gas: exact sum, <= limit, no overflow, out-of-gas raised before step_op, termination variant for positive costs'},
    'C11': {'level': 'proof', 'verus_units': ['vm_core'],
            'explanation': 'state-read ops: operand popping, view/contract routing, memory layout (layout_k), frame'},
    'C12': {'level': 'proof', 'verus_units': ['vm_core'],
            'explanation': 'access ops against spec functions; crypto marshalling assumed'},
}
