"""Which machinery decides which property."""
import extras
import asm_yaml

def _bca(n, tier=None):
    h = {'name': 'proofs::bca_len_%d' % n, 'bound': 'all byte strings of length exactly %d x all 256 effect masks' % n,
         'claim': 'well-formed bytes ==> bytes_contains_any(bytes, effects) == (some parsed op has an effect in the set)'}
    if tier:
        h['tier'] = tier
    return h

KANI_TYPES_K1 = {'crate': 'kani/types_k1', 'kind': 'complete', 'parallel': 4, 'harnesses': [
    {'name': 'proofs::word_bytes_roundtrip', 'claim': 'bytes_from_word / word_from_bytes are mutually inverse and big-endian (all words, all byte arrays)'},
    {'name': 'proofs::word4_u8_32_inverse', 'claim': 'word_4_from_u8_32 / u8_32_from_word_4 inverse both ways, big-endian per word'},
    {'name': 'proofs::word8_u8_64_inverse', 'claim': 'word_8_from_u8_64 / u8_64_from_word_8 inverse both ways'},
    {'name': 'proofs::bool_from_word_exact', 'claim': 'bool_from_word accepts exactly 0 and 1'},
    {'name': 'proofs::signature_and_address_conversions', 'claim': 'Signature <-> [u8; 65], ContentAddress <-> [u8; 32] / [Word; 4] inverse'},
    {'name': 'proofs::word_from_bytes_slice_pads', 'claim': 'word_from_bytes_slice pads short slices with zeros and ignores bytes past 8'},
]}
KANI_WORD_BYTES = {'crate': 'kani/types_k1', 'kind': 'complete', 'harnesses': [KANI_TYPES_K1['harnesses'][0]]}
def _h(name, claim, bound=None, tier=None):
    d = {'name': name, 'claim': claim}
    if bound:
        d['bound'] = bound
    if tier:
        d['tier'] = tier
    return d

_MAP = 'mapping succeeds exactly when the reference stream parse (asm.yml table) succeeds, same kind of error, same op offsets'
_OPS = 'op(i) equals the i-th op of the reference parse for i < len and is None at len'
KANI_VM_MAPPED = {'crate': 'kani/vm_k2', 'generate': asm_yaml.gen_kani_table, 'kind': 'bounded', 'parallel': 3, 'timeout_s': 2400, 'mem_gb': 20, 'harnesses': [
    _h('proofs::map_len_2', _MAP, 'all byte strings of length 2', 'thorough'),
    _h('proofs::ops_len_2', _OPS, 'all byte strings of length 2, every index 0..=len', 'thorough'),
    _h('proofs::map_len_1', _MAP, 'all byte strings of length 1'),
    _h('proofs::map_len_3', _MAP, 'all byte strings of length 3', 'thorough'),
    _h('proofs::map_push_11', _MAP, 'Push opcode + 8 arbitrary immediate bytes + 2 arbitrary bytes', 'thorough'),
    _h('proofs::map_push_truncated', _MAP, 'one arbitrary byte, a Push opcode and 0..8 immediate bytes (every truncation)', 'thorough'),
    _h('proofs::ops_push_10', _OPS, '10-byte strings with a Push opcode at position 0 or 1', 'thorough')]}
_JOIN = 'compute_effects: memory == old ++ children in index order, pc == max, halt == or, gas == checked sum (Err exactly on overflow)'
KANI_VM_JOIN = {'crate': 'kani/vm_k2', 'generate': asm_yaml.gen_kani_table, 'kind': 'bounded', 'parallel': 3, 'timeout_s': 3600, 'mem_gb': 20, 'harnesses': [
    _h('join::join_1_2_1', _JOIN, 'parent memory 1 word, two children with 2 and 1 words; contents, gas, pcs, halt flags symbolic', 'thorough'),
    _h('join::join_0_1_0_2', _JOIN, 'empty parent memory, three children with 1, 0 and 2 words', 'thorough'),
    _h('join::join_2_0_0', _JOIN, 'parent 2 words, two children with empty memories')]}
_SEL = 'Select: [.., a, b, cond] -> b if cond == 1, a if cond == 0 (operands popped, words below unchanged), InvalidCondition otherwise; error below 3 words'
_STR = 'StoreRange: [.., v.., k, addr] stores the k words at memory[addr..addr+k], all other memory words and the length unchanged, operands popped; error and memory untouched when out of range / negative'
_PAN = 'PanicIf: cond 0 continues (operand popped), cond 1 fails with Panic carrying the remaining stack, anything else InvalidPanicIfCondition'
_EXT = 'Stack::extend appends the yielded words in order'
_PDA = 'PredicateData pushes predicate_data[slot][ix..ix+len] in order; error and nothing pushed for negative / out-of-range slot, index, length'
def _vm_ops(names, all_thorough=False):
    allh = {
        'select_len_3': _h('ops::select_len_3', _SEL, '3-word stack, all words symbolic'),
        'select_len_2': _h('ops::select_len_2', _SEL, '2-word stack (too few operands)', 'thorough'),
        'select_len_5': _h('ops::select_len_5', _SEL, '5-word stack, all words symbolic', 'thorough'),
        'store_range_4_3': _h('ops::store_range_4_3', _STR, '4-word stack, 3-word memory, all words symbolic'),
        'store_range_5_2': _h('ops::store_range_5_2', _STR, '5-word stack, 2-word memory, all words symbolic', 'thorough'),
        'store_range_2_0': _h('ops::store_range_2_0', _STR, '2-word stack, empty memory', 'thorough'),
        'panic_if_len_1': _h('ops::panic_if_len_1', _PAN, '1-word stack, symbolic'),
        'panic_if_len_0': _h('ops::panic_if_len_0', _PAN, 'empty stack', 'thorough'),
        'panic_if_len_4': _h('ops::panic_if_len_4', _PAN, '4-word stack, symbolic', 'thorough'),
        'extend_small': _h('ops::extend_small', _EXT, '2-word stack extended by a 3-word array, symbolic'),
        'predicate_data_2_slots': _h('ops::predicate_data_2_slots', _PDA, 'one solution with slots of 2 and 1 words, 4-word stack, all words symbolic'),
    }
    hs = [dict(allh[n], tier='thorough') if all_thorough else allh[n] for n in names]
    return {'crate': 'kani/vm_k2', 'generate': asm_yaml.gen_kani_table, 'kind': 'bounded', 'parallel': 6, 'timeout_s': 900, 'mem_gb': 12, 'harnesses': hs}
KANI_VM_OPS_ALL = _vm_ops(['select_len_3', 'store_range_4_3', 'panic_if_len_1', 'extend_small', 'predicate_data_2_slots', 'select_len_2', 'select_len_5',
                           'store_range_5_2', 'store_range_2_0', 'panic_if_len_0', 'panic_if_len_4'])
# quick tier of C08 / C09 / C12: the same ops are covered by xrun vmops; the symbolic-word Kani harnesses run in C05's quick tier and in every thorough tier
KANI_VM_OPS_DATA = _vm_ops(['select_len_3', 'store_range_4_3', 'extend_small', 'select_len_2', 'select_len_5', 'store_range_5_2', 'store_range_2_0'], True)
KANI_VM_OPS_CF = _vm_ops(['panic_if_len_1', 'panic_if_len_0', 'panic_if_len_4'], True)
KANI_VM_OPS_ACCESS = _vm_ops(['predicate_data_2_slots', 'extend_small'], True)
_NK = 'next_key(key) == big-endian successor over signed words (MAX wraps to MIN with carry; None iff every word is MAX or the key is empty)'
KANI_NEXT_KEY = {'crate': 'kani/check_k2', 'kind': 'bounded', 'tier': 'thorough', 'parallel': 4, 'timeout_s': 900, 'mem_gb': 12, 'harnesses': [
    _h('proofs::next_key_len_2', _NK, 'keys of exactly 2 words, all words'),
    _h('proofs::next_key_len_0', _NK, 'the empty key'),
    _h('proofs::next_key_len_1', _NK, 'keys of exactly 1 word, all words'),
    _h('proofs::next_key_len_3', _NK, 'keys of exactly 3 words, all words (double carries)'),
    _h('proofs::next_key_len_4', _NK, 'keys of exactly 4 words, all words', 'thorough'),
    _h('proofs::next_key_len_6', _NK, 'keys of exactly 6 words, all words', 'thorough')]}
KANI_ASM_EFFECTS = {'crate': 'kani/asm_k1', 'generate': asm_yaml.gen_kani_table, 'kind': 'complete', 'harnesses': [
    {'name': 'proofs::effects_api', 'claim': 'bitflags-generated Effects API (empty/all/bits/contains/union/|=/==, flag constants) has its documented bit-level meaning'}]}
KANI_ASM_ANALYZE = {'crate': 'kani/asm_k1', 'generate': asm_yaml.gen_kani_table, 'kind': 'bounded', 'harnesses': [
    {'name': 'proofs::analyze_len_7', 'bound': 'programs of at most 7 ops over the 6 effect ops, Pop and Push(any word)', 'playback': True,
     'claim': 'analyze(ops).bits() == union of the effect flags of the ops'}]}
KANI_ASM_BCA = {'crate': 'kani/asm_k1', 'generate': asm_yaml.gen_kani_table, 'kind': 'bounded', 'parallel': 6, 'timeout_s': 1500, 'harnesses':
    [_bca(10)] + [_bca(n, 'thorough') for n in (0, 1, 2, 3, 9, 11, 12, 18, 19, 20)]}
KANI_ASM_CODEC = {'crate': 'kani/asm_k1', 'generate': asm_yaml.gen_kani_table, 'kind': 'complete', 'parallel': 2, 'timeout_s': 2400, 'harnesses': [
    {'name': 'proofs::push_roundtrip', 'claim': 'Push(w) serialises to opcode + 8 big-endian bytes of w and parses back to Push(w), all words'},
    {'name': 'proofs::truncated_immediate', 'claim': 'empty input is None; opcode with immediates followed by fewer than 8 bytes is NotEnoughBytes; invalid byte is InvalidOpcode'},
    {'name': 'proofs::decode_then_encode_9', 'tier': 'thorough', 'claim': 'all [u8; 9]: parse fails exactly per asm.yml or yields the op asm.yml names for that byte, which serialises to exactly the consumed bytes'}]}

XRUN_GRAPH = {'suite': 'graph', 'claim': 'two-pass verdict / gas / returned mutations of the real checker == reference semantics (refsem.rs, written from the statements of C01 and C03): '
              'every node once after all parents from the concatenation of parent outputs in ascending parent order; leaves [1] / [2]; post-state readers and their descendants in the second pass; '
              'post-state reads == per-key overlay (deletions, key carry, extern); computed mutations observed; cyclic / malformed graphs rejected; both values of collect_all_failures',
              'bound': 'every edge set (incl. self loops) over <= 3 nodes and every 7th over 4 nodes (thorough: all 65536), plus a multi-edge variant, two leaf encodings, a post-state reader / failing / '
                       'unsatisfied program at each node in turn; 4-key ranges x 16 mutation masks x deletion / pre-state masks x 4 start keys (carry, end of key space) x own / extern; '
                       'computed-mutation cases incl. pushed words that look like post-read opcodes and nodes sharing a program; declared / computed slot collisions in both orders and across three solutions in every order; sampled beyond the exhaustive scope: 6 000 (thorough 20 000) random sets of 1-3 solutions with 5-9-node graphs, 2 000 (6 000) ranges of 5-75 keys; concatenations at the stack / memory limits; fan-out / fan-in levels of 17..257 nodes with an unsatisfied leaf at the first / middle / last positions; data-output leaves with empty / freed / zero-mutation / truncated memories; sets of 4..64 solutions with declared and computed mutations of two contracts and a reader at the first / middle / last position; post-state readers behind 0..7300 Push / Pop rounds, a skipped Halt, an untaken HaltIf / PanicIf, a compute section'}
XRUN_COMPUTE = {'suite': 'compute', 'claim': 'Compute(n) on the real VM == sequential fork / join written from the statement of C10 (children run one after another on the real VM): child start state, '
                'joined memory in index order, parent stack, resume position, halt, gas, and every failure condition (child error, breadth < 1, nested Compute, combined memory above the limit)',
                'bound': '5 parent states (incl. 9941- and 10240-word memories) x 15 child bodies (index-dependent allocation / jumps / halts / errors, parent-memory reads, inherited-stack edits, nested compute) '
                         'x breadths {1, 2, 3, 0, -1, 40} x 3 suffixes x with / without ComputeEnd; 20 child bodies and breadths up to 257 in the current suite (DESIGN 7.3); breadths 1000 / 1025 / 2049 / 3000 for the index-dependent bodies (only child 1 / 33 / the first three go further); parent stacks of 4095 words; children that leave the textual Compute .. ComputeEnd range and read the parent memory afterwards'}
XRUN_BYTECODE = {'suite': 'bytecode', 'claim': 'BytecodeMapped (borrowed and owned) == parsed op list: success / error kind, ops(), op(i) for i <= len + 2 (None past the end, no panic), rebuild from ops; '
                 'exec_bytecode == exec_ops (result, gas, pc, stack, memory, halt, repeat) from pc 0 and from pcs at / past the end',
                 'bound': 'all byte strings of length <= 1, a fifth of length 2 (thorough: all), length 3 over 14 representative bytes, Push with every truncation; every program of <= 3 ops (thorough 4) over a 20-op palette '
                          '(pushes, stack / alu / pred ops, JumpIf, HaltIf, Halt, Repeat, RepeatEnd, memory ops, Compute, ComputeEnd) x 3 initial stacks, gas limit 300; 40 000 (120 000) random programs of 4-12 ops; mappings with 300 pushes / 70 000 ops / a Push after 65 600 ops, rebuilt and push_op-extended mappings; a Push at byte offsets b-9..b of programs around b = 1 KiB .. 128 KiB, total lengths that are exact multiples of those sizes, each mapped (borrowed / owned), rebuilt from ops, read by op(i), and iterated with skip / nth / step_by / count / last / size_hint'}
XRUN_VMOPS = {'suite': 'vmops', 'claim': 'every synchronous VM operation == executable twin of the specification functions (asm.yml): whole resulting stack and memory, control flow, failure exactly when documented, '
              'stack / memory limits, no panic; state-read routing and memory layout (incl. states returning more values than asked); repeat trip counts; eval; gas sums, limits and out-of-gas before execution; SHA-256 marshalling; EqSet',
              'bound': '41 ops x all operand pairs from 17 boundary words (0, +-1.., 63, 64, 4095, 4096, i64::MIN/MAX..) x 4 stack bases x 3 memories; 3-operand ops over 8 words; range ops over all arrays of <= 3 words from {0,1,7} with '
                       'declared lengths +-1; EqSet over sets of <= 3 items; stacks at 4091..4096 words, memory at the limit; 6 keys x 5 counts x 5 addresses x 3 memory sizes x 4 state ops; 6 cost tables x 15 gas limits; ~40 hand-written programs (nested / re-entered / abandoned repeats, far exits, compute in loops, children stopping before the Compute op, resource limits reached by sequences, repeat-stack limit at top level and in compute children) x 4 gas limits; trip counts beyond 2^32 left in the third pass; one guarded jump from a second loop to every position (2 x 2 x 2 shapes); every ordered pair + third read of the four state reads; up to three PredicateExists per program over a set of 4 solutions; 11 cost functions (two operand-dependent) x limits around every prefix sum; per_yield in {0, 1, 7, 4095, 4096, 4097, 20 000, MAX} x 8 limits on children / loops of > 4096 gas; 150 000 (400 000) random programs of 4-12 ops; Sha256 on every byte length <= 1100 and around multiples of 64 words up to 4094 words; Ed25519 / secp256k1 incl. every recovery id on signatures with r <= 24; ParentMemory over two parent memories'}
XRUN_VALIDATE = {'suite': 'validate', 'claim': 'check_set / predicate::check / check_contract accept exactly the documented limits and at most one mutation per (contract, key) in the whole set, in every order of the solutions',
                 'bound': 'each limit at, just below and just above (solutions 0/1/99/100/101, slots 99/100/101, value and key lengths, 999/1000/1001 mutations split over 1..3 solutions, nodes / edges / predicates); '
                          'all pairs and a third of the triples of solutions over 2 contracts x 2 predicates x 5 key sets; solutions with 63-64 declared slots; sets of 4..100 solutions with one slot written at positions i < j (every pair up to 33 solutions, every 7th beyond), same / different contracts; signed contracts with all 256 recovery ids and corrupted signatures against secp256k1'}
XRUN_CODEC = {'suite': 'codec', 'claim': 'encode_predicate / encode_mutation(s) == documented layouts, decoders invert them, every prefix and garbage input is a typed error (no panic), encoded sizes == lengths, '
              'predicates at the 1000-node / 1000-edge limits encode, hex <-> words round-trips (negative words, either case)',
              'bound': 'predicate shapes <= 3 nodes x <= 4 edges with every prefix of the encoding, 7 garbage strings, 6 limit shapes; 36 mutation lists of <= 5 mutations (keys / values of <= 3 boundary words) with every prefix, '
                       '13 garbage word lists; 91 word sequences of <= 2 boundary words; well-formed predicate encodings of 1001..65535 nodes / edges (decode has no limit) and their truncations; node_edges over every node table of <= 4 nodes; hex strings of up to 100 words; serde (postcard, JSON, legacy names, Display / FromStr) round trips of sample values of every public type incl. programs of 10 000 bytes and all 256 recovery ids'}
XRUN_HASH = {'suite': 'hash', 'claim': 'contract / solution-set / predicate / program / solution addresses equal SHA-256 of the documented pre-hash encodings '
                      '(sorted member addresses as a multiset ++ salt; documented predicate layout; program bytes), all helpers agree, encoded size == length',
                      'bound': 'address sequences of length <= 3 (thorough 4) over 6 boundary addresses x 3 salts; predicate shapes <= 9 nodes x <= 34 edges (thorough 20 x 70); '
                               'contracts / sets of <= 3 members drawn with repetition from 3; program lengths around the SHA block size; 400 (3 000) random address sequences of 4-17 members, every fourth of 31..1025 members (around powers of two), through the iterator and the slice entry points'}
XRUN_EFFECTS = {'suite': 'effects', 'claim': 'analyze(ops) == union of the effect flags of the ops; bytes_contains_any(to_bytes(ops), set) == (some op - never an immediate byte of a Push - has an effect in the set)',
                'bound': 'every program of <= 2 ops (a third of those with 3; thorough: all) over 64 ops: the 6 effectful ops, Pop, pushes carrying every effect opcode and the Push opcode at each of the 8 immediate positions; '
                         'all 64 effect sets for <= 2 ops, 17 sets for 3; k in {0,1,5,6,7,8,12,40} repetitions of one effectful op followed by another; Halt / HaltIf / PanicIf / JumpIf / ComputeEnd in the palette; all 720 orders of the six effectful ops; a Push carrying an effect opcode after n single-byte ops for every n <= 1100 and around 4 096 / 8 192 / 10 000 / 16 384 / 20 000 / 65 536 bytes; 1 200 Push / Pop rounds; raw byte strings of <= 3 bytes over a 10-byte alphabet and truncated pushes (no panic, same rule)'}
XRUN_ASM = {'suite': 'asm', 'claim': 'to_bytes(seq) == concatenation of the single-op encodings, from_bytes of it == seq, parsing any byte string fails exactly at an invalid opcode / truncated immediate and '
                        'otherwise yields ops that serialise to exactly those bytes; the byte iterators give the same bytes when finished by fold / for_each / count / last / collect after k calls of next()',
            'bound': 'all ordered pairs of the 61 immediate-free ops + 9 boundary pushes; a Push at every byte offset 0..3000 of a stream (thorough 9000); runs of 260 pushes shifted by 0..8 bytes; 3000 random sequences of <= 400 ops '
                     '(thorough 20000); all byte strings of length <= 2; every truncation of a 500-byte stream and an invalid byte at every third offset (thorough every); 3000 random byte strings of <= 700 bytes; '
                     'iterators advanced by 0..10 (single ops), 0..31 (6-op sequence), 14 offsets of a 300-op sequence'}
PROPS = {
    'C05': {'level': 'proof', 'verus_units': ['vm_core'], 'xrun': [XRUN_VMOPS, XRUN_COMPUTE, XRUN_BYTECODE], 'kani': [KANI_VM_OPS_ALL],
            'probes': [{'name': 'probe-breadth', 'input': 'ops [Push(2^40), Compute, ComputeEnd], gas limit 1000, op cost 1',
                        'claim': 'a Compute whose breadth is far beyond what the gas limit can pay for returns a typed error or success; it does not exhaust memory or time',
                        'bound': 'one input, run under a 3 GB address-space limit and a 20 s time limit'}],
            'explanation': 'VM totality / resource bounds: every function of the synchronous VM core carries vm_wf-style '
                           'pre/postconditions and is verified by Verus, which also generates the no-overflow / in-bounds / no-panic goals.'},
    'C08': {'level': 'proof', 'verus_units': ['vm_core'], 'xrun': [XRUN_VMOPS], 'kani': [KANI_VM_OPS_DATA],
            'explanation': 'per-op functional contracts against spec functions written from asm.yml'},
    'C09': {'level': 'proof', 'verus_units': ['vm_core'], 'xrun': [XRUN_VMOPS], 'kani': [KANI_VM_OPS_CF],
            'explanation': 'control flow / repeat / eval contracts'},
    'C07': {'level': 'proof', 'verus_units': ['vm_core'], 'xrun': [XRUN_VMOPS, XRUN_COMPUTE, XRUN_GRAPH],
            'explanation': 'Vm::exec loop invariant over a ghost trace of visited pcs and child gas: exact sum, <= limit, no overflow, out-of-gas raised before step_op, termination variant for positive costs'},
    'C11': {'level': 'proof', 'verus_units': ['vm_core'], 'xrun': [XRUN_VMOPS],
            'explanation': 'state-read ops: operand popping, view/contract routing, memory layout (layout_k), frame'},
    'C12': {'level': 'proof', 'verus_units': ['vm_core'], 'xrun': [XRUN_VMOPS], 'kani': [KANI_VM_OPS_ACCESS],
            'explanation': 'access ops against spec functions; crypto marshalling assumed'},
    'C06': {'level': 'proof', 'verus_units': ['types_core', 'check_core'], 'xrun': [XRUN_CODEC, XRUN_GRAPH, XRUN_ASM, XRUN_EFFECTS],
            'explanation': 'decoders / validators / graph helpers carry no precondition on the untrusted argument; Verus discharges every index, slice, unwrap/expect, arithmetic obligation'},
    'C18': {'level': 'proof', 'verus_units': ['types_core'], 'kani': [KANI_TYPES_K1], 'xrun': [XRUN_CODEC],
            'explanation': 'decode_mutation(s) invert the spec encoders on every input; node_edges equals the documented sub-range; fixed-width conversions by complete Kani proofs'},
    'C16': {'level': 'proof', 'verus_units': ['check_core'], 'xrun': [XRUN_VALIDATE, XRUN_GRAPH],
            'explanation': 'validators accept exactly the documented limits (bi-implications)'},
    'C04': {'level': 'proof', 'verus_units': ['check_core', 'hash_core'], 'xrun': [XRUN_VALIDATE, XRUN_GRAPH, XRUN_HASH, XRUN_VMOPS],
            'explanation': 'set validation verdict is a symmetric predicate of the solutions; one mutation per (contract, key) across the set'},
    'C01': {'level': 'other', 'verus_units': ['check_core'], 'xrun': [XRUN_GRAPH],
            'technique': 'contract-based deductive verification (Verus) of the graph-layer functions; the orchestration (rayon / closures) only by a bounded stand-in: xrun small-scope execution of the real two-pass entry point against the reference semantics',
            'explanation': 'graph layer only: malformed graphs rejected (create_parent_map Ok <==> graph_ok), helpers panic-free on every graph; orchestration not covered'},
    'C03': {'level': 'other', 'verus_units': ['check_core', 'vm_core'], 'xrun': [XRUN_GRAPH, XRUN_EFFECTS], 'kani': [KANI_NEXT_KEY],
            'technique': 'contract-based deductive verification (Verus) of routing, overlay and deferral closure; next_key, post-state construction and pass sequencing by bounded stand-ins (Kani, xrun small-scope execution against the reference semantics)',
            'explanation': 'state-read routing (vm_core), overlay fallback for contracts without mutations, key successor (bounded), deferral helpers panic-free; two-pass sequencing not covered'},
    'C13': {'level': 'proof', 'verus_units': ['asm_core'], 'extra': [extras.asm_table], 'kani': [KANI_WORD_BYTES, KANI_ASM_CODEC], 'xrun': [XRUN_ASM],
            'explanation': 'the codec the proc-macro generated (macro-expanded text of the working tree) is verified against spec tables generated from asm.yml by an independent YAML reading: '
                           'opcode <-> byte tables, immediates, per-op encode/decode, the byte iterators; sequence-level round trips are Verus lemmas over those tables; pinned-table comparison'},
    'C15': {'level': 'proof', 'verus_units': ['asm_core'], 'kani': [KANI_ASM_EFFECTS, KANI_ASM_BCA], 'xrun': [XRUN_EFFECTS],
            'fallback': [{'when': 'effects::analyze', 'group': KANI_ASM_ANALYZE}],
            'explanation': 'analyze(ops) returns exactly the union of the effect flags of the ops (all slices); bytes_contains_any is outside Verus (by_ref/take/for_each) and checked bounded'},
    'C17': {'level': 'other', 'verus_units': ['hash_core'],
            'technique': 'contract-based deductive verification (Verus) of the sort-permutation / address-impl contracts over an uninterpreted SHA-256; the iterator-chain encoders and the contract address only by a bounded stand-in (xrun small-scope execution against SHA-256 of the documented encodings)',
            'xrun': [XRUN_HASH, XRUN_CODEC],
            'explanation': 'partial: solution-set address: the address slice is sorted in place (a permutation) before hashing and sorted arrangements of a multiset are unique, '
                           'hence order independence (Verus lemmas); from_solution_addrs / from_predicate_addrs / Program and Solution addresses verified against spec functions over an '
                           'uninterpreted SHA-256 / postcard; predicate_encoded_size equals the documented size',
            'not_covered': ['that the chunks fed to the hasher are the sorted addresses in order (Map adapter) - assumed', 'contract_addr::from_predicate_addrs_slice (chain + sort): assumed',
                            'encode_predicate against the documented layout (iterator chains; Kani harness exhausted memory: 65 GB): assumed', 'postcard serialisation and SHA-256: external',
                            'injectivity of the pre-hash encodings is not stated as an obligation']},
    'C14': {'level': 'other', 'kani': [KANI_VM_MAPPED], 'xrun': [XRUN_BYTECODE],
            'technique': 'bounded stand-in only (no contract proof reaches try_from_bytes / op / ops): Kani bounded model checking of the real compiled crate + xrun small-scope execution against the parsed list; '
                         'the generic Vm::exec loop it feeds is Verus-verified (C07/C09)',
            'explanation': 'bounded only (Kani on the real compiled crate): try_from_bytes uses enumerate/by_ref/map and op()/ops() closures with expect - outside Verus. '
                           'Execution equivalence reduces to agreement of op access: Vm::exec is verified generically over OpAccess (C05/C07/C09).',
            'not_covered': ['byte strings longer than the stated bounds', 'FromIterator / push_op (building from operations)', 'owned Vec<u8> container (same generic code path as &[u8])',
                            'execution equivalence itself (parametricity argument, not an obligation)']},
    'C10': {'level': 'other', 'verus_units': ['vm_core'], 'kani': [KANI_VM_JOIN], 'xrun': [XRUN_COMPUTE],
            'technique': 'contract-based deductive verification (Verus) for the exec-loop handling of compute results; the fork / join itself only by bounded stand-ins (Kani on compute_effects, xrun small-scope execution against the sequential reference)',
            'explanation': 'join step compute_effects bounded by Kani through a cfg(kani) hook; Vm::exec handling of ComputeEnd / compute results verified in Verus (vm_core); '
                           'the fork (rayon, child initial state, depth and breadth checks in `compute`) is NOT covered',
            'not_covered': ['compute(): rayon fork, child initial state, depth check, breadth check', 'thread schedules (C02)', 'memory shapes beyond the stated bounds', 'the combined-memory limit (a harness with a 10239-word parent crashed CBMC); Memory::alloc itself is Verus-verified to fail above the limit']},
}
