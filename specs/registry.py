"""Which machinery decides which property."""
import extras

PROPS = {
    'C05': {'level': 'proof', 'verus_units': ['vm_core'],
            'explanation': 'VM totality / resource bounds: every function of the synchronous VM core carries vm_wf-style '
                           'pre/postconditions and is verified by Verus, which also generates the no-overflow / in-bounds / no-panic goals.'},
    'C08': {'level': 'proof', 'verus_units': ['vm_core'],
            'explanation': 'per-op functional contracts against spec functions written from asm.yml'},
    'C09': {'level': 'proof', 'verus_units': ['vm_core'],
            'explanation': 'control flow / repeat / eval contracts'},
    'C07': {'level': 'proof', 'verus_units': ['vm_core'],
            'explanation': 'Vm::exec loop invariant over a ghost trace of visited pcs and child gas: exact sum, <= limit, no overflow, out-of-gas raised before step_op, termination variant for positive costs'},
    'C11': {'level': 'proof', 'verus_units': ['vm_core'],
            'explanation': 'state-read ops: operand popping, view/contract routing, memory layout (layout_k), frame'},
    'C12': {'level': 'proof', 'verus_units': ['vm_core'],
            'explanation': 'access ops against spec functions; crypto marshalling assumed'},
    'C06': {'level': 'proof', 'verus_units': ['types_core', 'check_core'],
            'explanation': 'decoders / validators / graph helpers carry no precondition on the untrusted argument; Verus discharges every index, slice, unwrap/expect, arithmetic obligation'},
    'C18': {'level': 'proof', 'verus_units': ['types_core'],
            'explanation': 'decode_mutation(s) invert the spec encoders on every input; node_edges equals the documented sub-range; fixed-width conversions by complete Kani proofs'},
    'C16': {'level': 'proof', 'verus_units': ['check_core'],
            'explanation': 'validators accept exactly the documented limits (bi-implications)'},
    'C04': {'level': 'proof', 'verus_units': ['check_core'],
            'explanation': 'set validation verdict is a symmetric predicate of the solutions; one mutation per (contract, key) across the set'},
    'C01': {'level': 'other', 'verus_units': ['check_core'],
            'explanation': 'graph layer only: malformed graphs rejected (create_parent_map Ok <==> graph_ok), helpers panic-free on every graph; orchestration not covered'},
    'C03': {'level': 'other', 'verus_units': ['check_core', 'vm_core'],
            'explanation': 'state-read routing (vm_core), overlay fallback for contracts without mutations, key successor (bounded), deferral helpers panic-free; two-pass sequencing not covered'},
    'C13': {'level': 'proof', 'verus_units': ['asm_core'], 'extra': [extras.asm_table],
            'explanation': 'the codec the proc-macro generated (macro-expanded text of the working tree) is verified against spec tables generated from asm.yml by an independent YAML reading: '
                           'opcode <-> byte tables, immediates, per-op encode/decode, the byte iterators; sequence-level round trips are Verus lemmas over those tables; pinned-table comparison'},
    'C15': {'level': 'proof', 'verus_units': ['asm_core'],
            'explanation': 'analyze(ops) returns exactly the union of the effect flags of the ops (all slices); bytes_contains_any is outside Verus (by_ref/take/for_each) and checked bounded'},
}
