// ---- spec vocabulary for essential-check (C16 / C04 / C03 / C01), written from the property statements
pub mod ext {
    pub mod vm_error { #[derive(Debug)] pub struct StackError; #[derive(Debug)] pub struct MemoryError; #[derive(Debug)] pub struct ExecError<E>(pub E); }
    pub mod asm { #[derive(Debug)] pub struct FromBytesError; }
    pub mod secp256k1 { #[derive(Debug)] pub struct Error; }
}
// key successor: big-endian increment over signed words (MAX wraps to MIN with carry); None iff every word is MAX
pub open spec fn next_key_spec(k: Seq<i64>) -> Option<Seq<i64>> decreases k.len() {
    if k.len() == 0 { None }
    else if k.last() != i64::MAX { Some(k.drop_last().push((k.last() + 1) as i64)) }
    else { match next_key_spec(k.drop_last()) { Some(p) => Some(p.push(i64::MIN)), None => None } } }
// the i-th key of a range read starting at k (None once the key space is exhausted)
pub open spec fn nth_key(k: Seq<i64>, i: nat) -> Option<Seq<i64>> decreases i {
    if i == 0 { Some(k) } else { match nth_key(k, (i - 1) as nat) { Some(p) => next_key_spec(p), None => None } } }
// T-std: the derived Hash / Eq of ContentAddress ([u8; 32]) and Vec<i64> are structural and deterministic, so tuples of them obey
// vstd's hash-key model (HashSet / HashMap behave like mathematical sets / maps over spec equality)
pub broadcast axiom fn key_model_slot_ref() ensures #[trigger] vstd::std_specs::hash::obeys_key_model::<(&crate::essential_types::ContentAddress, &crate::essential_types::Key)>();
pub broadcast axiom fn key_model_slot() ensures #[trigger] vstd::std_specs::hash::obeys_key_model::<(crate::essential_types::ContentAddress, crate::essential_types::Key)>();
pub broadcast axiom fn key_model_key() ensures #[trigger] vstd::std_specs::hash::obeys_key_model::<crate::essential_types::Key>();
pub broadcast axiom fn key_model_ca() ensures #[trigger] vstd::std_specs::hash::obeys_key_model::<crate::essential_types::ContentAddress>();

// ---- predicate graphs (C01 / C06)
// a well-formed dependency graph: every node has a valid edge slice and every edge names an existing node
pub open spec fn node_ok(starts: Seq<u16>, edges: Seq<u16>, i: int) -> bool {
    match node_edges_spec(starts, edges, i) { Some(es) => forall|k: int| 0 <= k < es.len() ==> (#[trigger] es[k] as int) < starts.len(), None => false } }
pub open spec fn graph_ok(starts: Seq<u16>, edges: Seq<u16>) -> bool { forall|i: int| 0 <= i < starts.len() ==> #[trigger] node_ok(starts, edges, i) }

// ---- parent lists (C01): the parents of node n in ascending order, one entry per edge (multiplicity kept).
// plist(n, i, k) = entries contributed by all edges of the nodes below i and by the first k edges of node i, in that order.
pub open spec fn plist(starts: Seq<u16>, edges: Seq<u16>, n: u16, i: int, k: int) -> Seq<u16>
    decreases i, k
{
    if i < 0 || k < 0 { Seq::<u16>::empty() }
    else if k > 0 {
        let prev = plist(starts, edges, n, i, k - 1);
        match node_edges_spec(starts, edges, i) {
            Some(es) => if k <= es.len() && es[k - 1] == n { prev.push(i as u16) } else { prev },
            None => prev } }
    else if i == 0 { Seq::<u16>::empty() }
    else { match node_edges_spec(starts, edges, i - 1) {
        Some(es) => plist(starts, edges, n, i - 1, es.len() as int),
        None => plist(starts, edges, n, i - 1, 0) } }
}
pub open spec fn parents_of(starts: Seq<u16>, edges: Seq<u16>, n: u16) -> Seq<u16> { plist(starts, edges, n, starts.len() as int, 0) }
// ---- deferral (C01 / C03): the deferred set is exactly the descendant closure of the flagged nodes, however the nodes are numbered
pub open spec fn child_of(starts: Seq<u16>, edges: Seq<u16>, a: u16, b: u16) -> bool {
    match node_edges_spec(starts, edges, a as int) { Some(es) => es.contains(b), None => false } }
pub open spec fn is_path(starts: Seq<u16>, edges: Seq<u16>, p: Seq<u16>) -> bool {
    p.len() >= 1 && forall|i: int| 0 <= i < p.len() - 1 ==> child_of(starts, edges, #[trigger] p[i], p[i + 1]) }
// d is a flagged node or a descendant of one
pub open spec fn descends(starts: Seq<u16>, edges: Seq<u16>, flag: spec_fn(int) -> bool, d: u16) -> bool {
    exists|p: Seq<u16>| #[trigger] is_path(starts, edges, p) && (p[0] as int) < starts.len() && flag(p[0] as int) && p.last() == d }
pub open spec fn flagged(flag: spec_fn(int) -> bool, i: int) -> bool { flag(i) }
pub open spec fn in_work(d: Set<u16>, p: Seq<u16>, x: u16) -> bool { d.contains(x) || p.contains(x) }
pub proof fn lemma_descends_self(starts: Seq<u16>, edges: Seq<u16>, flag: spec_fn(int) -> bool, d: u16)
    requires (d as int) < starts.len(), flag(d as int) ensures descends(starts, edges, flag, d)
{ let p = seq![d]; assert(is_path(starts, edges, p)); assert(p[0] == d && p.last() == d); }
pub proof fn lemma_descends_step(starts: Seq<u16>, edges: Seq<u16>, flag: spec_fn(int) -> bool, a: u16, b: u16)
    requires descends(starts, edges, flag, a), child_of(starts, edges, a, b) ensures descends(starts, edges, flag, b)
{
    let p = choose|p: Seq<u16>| #[trigger] is_path(starts, edges, p) && (p[0] as int) < starts.len() && flag(p[0] as int) && p.last() == a;
    let q = p.push(b);
    assert forall|i: int| 0 <= i < q.len() - 1 implies child_of(starts, edges, #[trigger] q[i], q[i + 1]) by {
        if i < p.len() - 1 { assert(q[i] == p[i] && q[i + 1] == p[i + 1]); } else { assert(q[i] == a && q[i + 1] == b); } }
    assert(is_path(starts, edges, q)); assert(q[0] == p[0]); assert(q.last() == b);
}
pub proof fn lemma_work_push(d: Set<u16>, p: Seq<u16>, y: u16)
    ensures in_work(d, p.push(y), y), forall|x: u16| #[trigger] in_work(d, p, x) ==> in_work(d, p.push(y), x)
{
    assert(p.push(y)[p.len() as int] == y);
    assert forall|x: u16| #[trigger] in_work(d, p, x) implies in_work(d, p.push(y), x) by {
        if p.contains(x) { let i = choose|i: int| 0 <= i < p.len() && p[i] == x; assert(p.push(y)[i] == x); } }
}
pub proof fn lemma_work_move(d: Set<u16>, p: Seq<u16>, y: u16)
    ensures forall|x: u16| #[trigger] in_work(d, p.push(y), x) ==> in_work(d.insert(y), p, x)
{
    assert forall|x: u16| #[trigger] in_work(d, p.push(y), x) implies in_work(d.insert(y), p, x) by {
        if p.push(y).contains(x) { let i = choose|i: int| 0 <= i < p.push(y).len() && p.push(y)[i] == x;
            if i < p.len() { assert(p[i] == x); } else { assert(x == y); } } }
}
