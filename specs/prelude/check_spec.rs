// ---- spec vocabulary for essential-check (C16 / C04 / C03 / C01), written from the property statements
pub mod ext {
    pub mod vm_error { #[derive(Debug)] pub struct StackError; #[derive(Debug)] pub struct MemoryError; #[derive(Debug)] pub struct ExecError<E>(pub E); }
    pub mod asm { #[derive(Debug)] pub struct FromBytesError; }
    pub mod secp256k1 { #[derive(Debug)] pub struct Error; }
}
// key successor: big-endian increment over signed words (MAX wraps to MIN with carry); None iff every word is MAX
pub open spec fn next_key_spec(k: Seq<i64>) -> Option<Seq<i64>> decreases k.len() {
    if k.len() == 0 { None }
    else if k.last() != i64::MAX { Some(k.drop_last().push((k.last() + 1) as i64)) }
    else { match next_key_spec(k.drop_last()) { Some(p) => Some(p.push(i64::MIN)), None => None } } }
// the i-th key of a range read starting at k (None once the key space is exhausted)
pub open spec fn nth_key(k: Seq<i64>, i: nat) -> Option<Seq<i64>> decreases i {
    if i == 0 { Some(k) } else { match nth_key(k, (i - 1) as nat) { Some(p) => next_key_spec(p), None => None } } }
// T-std: the derived Hash / Eq of ContentAddress ([u8; 32]) and Vec<i64> are structural and deterministic, so tuples of them obey
// vstd's hash-key model (HashSet / HashMap behave like mathematical sets / maps over spec equality)
pub broadcast axiom fn key_model_slot_ref() ensures #[trigger] vstd::std_specs::hash::obeys_key_model::<(&crate::essential_types::ContentAddress, &crate::essential_types::Key)>();
pub broadcast axiom fn key_model_slot() ensures #[trigger] vstd::std_specs::hash::obeys_key_model::<(crate::essential_types::ContentAddress, crate::essential_types::Key)>();
pub broadcast axiom fn key_model_key() ensures #[trigger] vstd::std_specs::hash::obeys_key_model::<crate::essential_types::Key>();
pub broadcast axiom fn key_model_ca() ensures #[trigger] vstd::std_specs::hash::obeys_key_model::<crate::essential_types::ContentAddress>();

// ---- predicate graphs (C01 / C06)
// a well-formed dependency graph: every node has a valid edge slice and every edge names an existing node
pub open spec fn node_ok(starts: Seq<u16>, edges: Seq<u16>, i: int) -> bool {
    match node_edges_spec(starts, edges, i) { Some(es) => forall|k: int| 0 <= k < es.len() ==> (#[trigger] es[k] as int) < starts.len(), None => false } }
pub open spec fn graph_ok(starts: Seq<u16>, edges: Seq<u16>) -> bool { forall|i: int| 0 <= i < starts.len() ==> #[trigger] node_ok(starts, edges, i) }
