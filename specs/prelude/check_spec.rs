// ---- spec vocabulary for essential-check (C16 / C04 / C03 / C01), written from the property statements
pub mod ext {
    pub mod vm_error { #[derive(Debug)] pub struct StackError; #[derive(Debug)] pub struct MemoryError; #[derive(Debug)] pub struct ExecError<E>(pub E); }
    pub mod asm { #[derive(Debug)] pub struct FromBytesError; }
    pub mod secp256k1 { #[derive(Debug)] pub struct Error; }
}
// key successor: big-endian increment over signed words (MAX wraps to MIN with carry); None iff every word is MAX
pub open spec fn next_key_spec(k: Seq<i64>) -> Option<Seq<i64>> decreases k.len() {
    if k.len() == 0 { None }
    else if k.last() != i64::MAX { Some(k.drop_last().push((k.last() + 1) as i64)) }
    else { match next_key_spec(k.drop_last()) { Some(p) => Some(p.push(i64::MIN)), None => None } } }
// the i-th key of a range read starting at k (None once the key space is exhausted)
pub open spec fn nth_key(k: Seq<i64>, i: nat) -> Option<Seq<i64>> decreases i {
    if i == 0 { Some(k) } else { match nth_key(k, (i - 1) as nat) { Some(p) => next_key_spec(p), None => None } } }
// T-std: the derived Hash / Eq of ContentAddress ([u8; 32]) and Vec<i64> are structural and deterministic, so tuples of them obey
// vstd's hash-key model (HashSet / HashMap behave like mathematical sets / maps over spec equality)
pub broadcast axiom fn key_model_slot_ref() ensures #[trigger] vstd::std_specs::hash::obeys_key_model::<(&crate::essential_types::ContentAddress, &crate::essential_types::Key)>();
pub broadcast axiom fn key_model_slot() ensures #[trigger] vstd::std_specs::hash::obeys_key_model::<(crate::essential_types::ContentAddress, crate::essential_types::Key)>();
pub broadcast axiom fn key_model_key() ensures #[trigger] vstd::std_specs::hash::obeys_key_model::<crate::essential_types::Key>();
pub broadcast axiom fn key_model_ca() ensures #[trigger] vstd::std_specs::hash::obeys_key_model::<crate::essential_types::ContentAddress>();

// ---- predicate graphs (C01 / C06)
// a well-formed dependency graph: every node has a valid edge slice and every edge names an existing node
pub open spec fn node_ok(starts: Seq<u16>, edges: Seq<u16>, i: int) -> bool {
    match node_edges_spec(starts, edges, i) { Some(es) => forall|k: int| 0 <= k < es.len() ==> (#[trigger] es[k] as int) < starts.len(), None => false } }
pub open spec fn graph_ok(starts: Seq<u16>, edges: Seq<u16>) -> bool { forall|i: int| 0 <= i < starts.len() ==> #[trigger] node_ok(starts, edges, i) }

// ---- in-degree bookkeeping (C01): occurrences of c among the first k entries of a child list
pub open spec fn count_in(s: Seq<u16>, c: u16, k: int) -> int decreases k {
    if k <= 0 { 0 } else { count_in(s, c, k - 1) + (if k <= s.len() && s[k - 1] == c { 1int } else { 0int }) } }
pub open spec fn sat_sub_int(a: int, b: int) -> int { if a >= b { a - b } else { 0 } }

// number of edges a -> b (with multiplicity); 0 when a has no valid edge range
pub open spec fn edge_count(starts: Seq<u16>, edges: Seq<u16>, a: int, b: u16) -> int {
    match node_edges_spec(starts, edges, a) { Some(es) => count_in(es, b, es.len() as int), None => 0 } }
// in-degree of b counting only edges from the nodes below i that are still in `dom` (the nodes that have not been emitted yet)
pub open spec fn indeg(starts: Seq<u16>, edges: Seq<u16>, dom: Set<u16>, b: u16, i: int) -> int decreases i {
    if i <= 0 { 0 } else { indeg(starts, edges, dom, b, i - 1) + (if dom.contains((i - 1) as u16) { edge_count(starts, edges, i - 1, b) } else { 0 }) } }
pub proof fn lemma_count_nonneg(s: Seq<u16>, c: u16, k: int) ensures count_in(s, c, k) >= 0 decreases k { if k > 0 { lemma_count_nonneg(s, c, k - 1); } }
// an element that occurs is counted
pub proof fn lemma_count_pos(s: Seq<u16>, c: u16, j: int, k: int) requires 0 <= j < k <= s.len(), s[j] == c ensures count_in(s, c, k) >= 1 decreases k {
    lemma_count_nonneg(s, c, k - 1);
    if j < k - 1 { lemma_count_pos(s, c, j, k - 1); } }
pub proof fn lemma_indeg_nonneg(starts: Seq<u16>, edges: Seq<u16>, dom: Set<u16>, b: u16, i: int) ensures indeg(starts, edges, dom, b, i) >= 0 decreases i {
    if i > 0 { lemma_indeg_nonneg(starts, edges, dom, b, i - 1);
        match node_edges_spec(starts, edges, i - 1) { Some(es) => lemma_count_nonneg(es, b, es.len() as int), None => {} } } }
// removing a node from the not-yet-emitted set takes exactly its edges out of every in-degree
pub proof fn lemma_indeg_remove(starts: Seq<u16>, edges: Seq<u16>, dom: Set<u16>, a: u16, b: u16, i: int)
    requires dom.contains(a), 0 <= i <= 0x1_0000
    ensures indeg(starts, edges, dom.remove(a), b, i) == indeg(starts, edges, dom, b, i) - (if (a as int) < i { edge_count(starts, edges, a as int, b) } else { 0 })
    decreases i
{
    if i > 0 {
        lemma_indeg_remove(starts, edges, dom, a, b, i - 1);
        let x = (i - 1) as u16;
        assert(x as int == i - 1);
        if x == a {} else { assert(dom.remove(a).contains(x) == dom.contains(x)); }
    }
}
// an in-degree of zero means: no edge from any node that is still waiting
pub proof fn lemma_indeg_zero(starts: Seq<u16>, edges: Seq<u16>, dom: Set<u16>, a: u16, b: u16, i: int)
    requires dom.contains(a), (a as int) < i <= 0x1_0000, indeg(starts, edges, dom, b, i) == 0
    ensures edge_count(starts, edges, a as int, b) == 0
{
    lemma_indeg_remove(starts, edges, dom, a, b, i);
    lemma_indeg_nonneg(starts, edges, dom.remove(a), b, i);
    match node_edges_spec(starts, edges, a as int) { Some(es) => lemma_count_nonneg(es, b, es.len() as int), None => {} }
}
// the in-degrees computed from the parent lists are the edge counts over all nodes
pub proof fn lemma_plist_len(starts: Seq<u16>, edges: Seq<u16>, full: Set<u16>, b: u16, i: int, k: int)
    requires 0 <= i <= 0x1_0000, 0 <= k, forall|x: u16| (x as int) < i ==> full.contains(x),
             k > 0 ==> (node_edges_spec(starts, edges, i) is Some && k <= node_edges_spec(starts, edges, i)->Some_0.len())
    ensures plist(starts, edges, b, i, k).len() == indeg(starts, edges, full, b, i)
                + (if k > 0 { count_in(node_edges_spec(starts, edges, i)->Some_0, b, k) } else { 0 })
    decreases i, k
{
    if k > 0 {
        let es = node_edges_spec(starts, edges, i)->Some_0;
        lemma_plist_len(starts, edges, full, b, i, k - 1);
        assert(count_in(es, b, 0) == 0);
        assert(count_in(es, b, k) == count_in(es, b, k - 1) + (if es[k - 1] == b { 1int } else { 0int }));
        assert(plist(starts, edges, b, i, k) == (if es[k - 1] == b { plist(starts, edges, b, i, k - 1).push(i as u16) } else { plist(starts, edges, b, i, k - 1) }));
    } else if i > 0 {
        assert(full.contains((i - 1) as u16));
        assert(((i - 1) as u16) as int == i - 1);
        match node_edges_spec(starts, edges, i - 1) {
            Some(es) => {
                lemma_plist_len(starts, edges, full, b, i - 1, es.len() as int);
                assert(count_in(es, b, 0) == 0);
                assert(edge_count(starts, edges, i - 1, b) == count_in(es, b, es.len() as int));
                assert(plist(starts, edges, b, i, 0) == plist(starts, edges, b, i - 1, es.len() as int)); },
            None => {
                lemma_plist_len(starts, edges, full, b, i - 1, 0);
                assert(edge_count(starts, edges, i - 1, b) == 0);
                assert(plist(starts, edges, b, i, 0) == plist(starts, edges, b, i - 1, 0)); } }
    } else {
        assert(plist(starts, edges, b, i, 0).len() == 0);
    }
}

// ---- level sort (C01): node a is placed in level i of the levels emitted so far
pub open spec fn level_of(out: Seq<Vec<u16>>, a: u16, i: int) -> bool { 0 <= i < out.len() && out[i]@.contains(a) }
pub open spec fn emitted(out: Seq<Vec<u16>>, a: u16) -> bool { exists|i: int| #[trigger] level_of(out, a, i) }
// every edge into a placed node comes from a node placed in a strictly earlier level
pub open spec fn parents_first(starts: Seq<u16>, edges: Seq<u16>, out: Seq<Vec<u16>>) -> bool {
    forall|a: u16, b: u16, i: int| #[trigger] level_of(out, b, i) && #[trigger] child_of(starts, edges, a, b) ==> exists|i2: int| i2 < i && #[trigger] level_of(out, a, i2) }
pub open spec fn placed_once(out: Seq<Vec<u16>>) -> bool {
    forall|i: int, j: int, i2: int, j2: int| 0 <= i < out.len() && 0 <= j < out[i]@.len() && 0 <= i2 < out.len() && 0 <= j2 < out[i2]@.len()
        && (#[trigger] out[i]@[j]) == (#[trigger] out[i2]@[j2]) ==> i == i2 && j == j2 }
// child_of(a, b) means at least one edge a -> b
pub proof fn lemma_child_edge_count(starts: Seq<u16>, edges: Seq<u16>, a: u16, b: u16)
    requires child_of(starts, edges, a, b) ensures edge_count(starts, edges, a as int, b) >= 1, (a as int) < starts.len()
{
    assert(node_edges_spec(starts, edges, a as int) is Some);
    let es = node_edges_spec(starts, edges, a as int)->Some_0;
    assert(es.contains(b));
    let j = choose|j: int| 0 <= j < es.len() && es[j] == b;
    lemma_count_pos(es, b, j, es.len() as int);
    assert(edge_count(starts, edges, a as int, b) == count_in(es, b, es.len() as int));
}

// ---- acyclicity (C01): a graph is acyclic iff its nodes can be ranked so that every edge goes to a higher rank
pub open spec fn ranked(starts: Seq<u16>, edges: Seq<u16>, rank: spec_fn(u16) -> int) -> bool {
    forall|a: u16, b: u16| #[trigger] child_of(starts, edges, a, b) ==> rank(a) < rank(b) }
pub open spec fn acyclic(starts: Seq<u16>, edges: Seq<u16>) -> bool { exists|rank: spec_fn(u16) -> int| ranked(starts, edges, rank) }
// no edge from a waiting node below i into b  ==>  the in-degree restricted to the waiting nodes is 0
pub proof fn lemma_indeg_zero_if_no_edge(starts: Seq<u16>, edges: Seq<u16>, dom: Set<u16>, b: u16, i: int)
    requires 0 <= i <= 0x1_0000, forall|a: u16| dom.contains(a) && (a as int) < i ==> edge_count(starts, edges, a as int, b) == 0
    ensures indeg(starts, edges, dom, b, i) == 0
    decreases i
{
    if i > 0 { lemma_indeg_zero_if_no_edge(starts, edges, dom, b, i - 1); let x = (i - 1) as u16; assert(x as int == i - 1); }
}
// an edge count above zero is an edge
pub proof fn lemma_edge_count_child(starts: Seq<u16>, edges: Seq<u16>, a: u16, b: u16)
    requires edge_count(starts, edges, a as int, b) != 0 ensures child_of(starts, edges, a, b)
{
    match node_edges_spec(starts, edges, a as int) {
        Some(es) => { lemma_count_witness(es, b, es.len() as int); },
        None => {} }
}
pub proof fn lemma_count_witness(s: Seq<u16>, c: u16, k: int)
    requires count_in(s, c, k) != 0, k <= s.len() ensures s.contains(c) decreases k
{
    if k > 0 { if s[k - 1] == c { assert(s[k - 1] == c); } else { lemma_count_witness(s, c, k - 1); } }
}
// a non-empty finite set of nodes has a member of minimal rank
pub proof fn lemma_min_rank(dom: Set<u16>, rank: spec_fn(u16) -> int, bound: int) -> (m: u16)
    requires dom.finite(), dom.len() > 0
    ensures dom.contains(m), forall|x: u16| dom.contains(x) ==> rank(m) <= rank(x)
    decreases dom.len()
{
    let x = dom.choose();
    let rest = dom.remove(x);
    if rest.len() == 0 {
        assert forall|y: u16| dom.contains(y) implies rank(x) <= rank(y) by { if y != x { assert(rest.contains(y)); } }
        x
    } else {
        let m2 = lemma_min_rank(rest, rank, bound);
        if rank(x) <= rank(m2) {
            assert forall|y: u16| dom.contains(y) implies rank(x) <= rank(y) by { if y != x { assert(rest.contains(y)); } }
            x
        } else {
            assert forall|y: u16| dom.contains(y) implies rank(m2) <= rank(y) by { if y != x { assert(rest.contains(y)); } }
            m2
        }
    }
}

// ---- parent lists (C01): the parents of node n in ascending order, one entry per edge (multiplicity kept).
// plist(n, i, k) = entries contributed by all edges of the nodes below i and by the first k edges of node i, in that order.
pub open spec fn plist(starts: Seq<u16>, edges: Seq<u16>, n: u16, i: int, k: int) -> Seq<u16>
    decreases i, k
{
    if i < 0 || k < 0 { Seq::<u16>::empty() }
    else if k > 0 {
        let prev = plist(starts, edges, n, i, k - 1);
        match node_edges_spec(starts, edges, i) {
            Some(es) => if k <= es.len() && es[k - 1] == n { prev.push(i as u16) } else { prev },
            None => prev } }
    else if i == 0 { Seq::<u16>::empty() }
    else { match node_edges_spec(starts, edges, i - 1) {
        Some(es) => plist(starts, edges, n, i - 1, es.len() as int),
        None => plist(starts, edges, n, i - 1, 0) } }
}
pub open spec fn parents_of(starts: Seq<u16>, edges: Seq<u16>, n: u16) -> Seq<u16> { plist(starts, edges, n, starts.len() as int, 0) }
// ---- deferral (C01 / C03): the deferred set is exactly the descendant closure of the flagged nodes, however the nodes are numbered
pub open spec fn child_of(starts: Seq<u16>, edges: Seq<u16>, a: u16, b: u16) -> bool {
    match node_edges_spec(starts, edges, a as int) { Some(es) => es.contains(b), None => false } }
pub open spec fn is_path(starts: Seq<u16>, edges: Seq<u16>, p: Seq<u16>) -> bool {
    p.len() >= 1 && forall|i: int| 0 <= i < p.len() - 1 ==> child_of(starts, edges, #[trigger] p[i], p[i + 1]) }
// d is a flagged node or a descendant of one
pub open spec fn descends(starts: Seq<u16>, edges: Seq<u16>, flag: spec_fn(int) -> bool, d: u16) -> bool {
    exists|p: Seq<u16>| #[trigger] is_path(starts, edges, p) && (p[0] as int) < starts.len() && flag(p[0] as int) && p.last() == d }
pub open spec fn flagged(flag: spec_fn(int) -> bool, i: int) -> bool { flag(i) }
pub open spec fn in_work(d: Set<u16>, p: Seq<u16>, x: u16) -> bool { d.contains(x) || p.contains(x) }
pub proof fn lemma_descends_self(starts: Seq<u16>, edges: Seq<u16>, flag: spec_fn(int) -> bool, d: u16)
    requires (d as int) < starts.len(), flag(d as int) ensures descends(starts, edges, flag, d)
{ let p = seq![d]; assert(is_path(starts, edges, p)); assert(p[0] == d && p.last() == d); }
pub proof fn lemma_descends_step(starts: Seq<u16>, edges: Seq<u16>, flag: spec_fn(int) -> bool, a: u16, b: u16)
    requires descends(starts, edges, flag, a), child_of(starts, edges, a, b) ensures descends(starts, edges, flag, b)
{
    let p = choose|p: Seq<u16>| #[trigger] is_path(starts, edges, p) && (p[0] as int) < starts.len() && flag(p[0] as int) && p.last() == a;
    let q = p.push(b);
    assert forall|i: int| 0 <= i < q.len() - 1 implies child_of(starts, edges, #[trigger] q[i], q[i + 1]) by {
        if i < p.len() - 1 { assert(q[i] == p[i] && q[i + 1] == p[i + 1]); } else { assert(q[i] == a && q[i + 1] == b); } }
    assert(is_path(starts, edges, q)); assert(q[0] == p[0]); assert(q.last() == b);
}
pub proof fn lemma_work_push(d: Set<u16>, p: Seq<u16>, y: u16)
    ensures in_work(d, p.push(y), y), forall|x: u16| #[trigger] in_work(d, p, x) ==> in_work(d, p.push(y), x)
{
    assert(p.push(y)[p.len() as int] == y);
    assert forall|x: u16| #[trigger] in_work(d, p, x) implies in_work(d, p.push(y), x) by {
        if p.contains(x) { let i = choose|i: int| 0 <= i < p.len() && p[i] == x; assert(p.push(y)[i] == x); } }
}
pub proof fn lemma_work_move(d: Set<u16>, p: Seq<u16>, y: u16)
    ensures forall|x: u16| #[trigger] in_work(d, p.push(y), x) ==> in_work(d.insert(y), p, x)
{
    assert forall|x: u16| #[trigger] in_work(d, p.push(y), x) implies in_work(d.insert(y), p, x) by {
        if p.push(y).contains(x) { let i = choose|i: int| 0 <= i < p.push(y).len() && p.push(y)[i] == x;
            if i < p.len() { assert(p[i] == x); } else { assert(x == y); } } }
}
