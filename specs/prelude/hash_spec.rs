// ---- spec vocabulary for essential-hash (C17 / C04)
// SHA-256 over a sequence of byte chunks fed to one hasher (external crate sha2: uninterpreted, deterministic function of the fed bytes)
pub uninterp spec fn sha256(data: Seq<u8>) -> [u8; 32];
pub open spec fn concat_bytes(chunks: Seq<Seq<u8>>) -> Seq<u8> decreases chunks.len() {
    if chunks.len() == 0 { Seq::empty() } else { concat_bytes(chunks.drop_last()) + chunks.last() } }
// postcard serialisation (external crate): an uninterpreted function of the value
pub uninterp spec fn postcard_bytes<T>(t: T) -> Seq<u8>;
// T-std: the derived Ord of ContentAddress ([u8; 32], lexicographic) is a total order that is antisymmetric w.r.t. structural equality
pub uninterp spec fn ord_le<T>(a: T, b: T) -> bool;
pub open spec fn sorted_le<T>(s: Seq<T>) -> bool { forall|i: int, j: int| 0 <= i <= j < s.len() ==> ord_le(s[i], s[j]) }
pub assume_specification<T: Ord> [<[T]>::sort] (s: &mut [T])
    ensures final(s)@.to_multiset() == old(s)@.to_multiset(), sorted_le(final(s)@), final(s)@.len() == old(s)@.len();
// the all-zero hash (address reported for a predicate that cannot be encoded)
pub uninterp spec fn zero_hash() -> [u8; 32];
pub broadcast axiom fn axiom_zero_hash(i: int) ensures 0 <= i < 32 ==> #[trigger] zero_hash()@[i] == 0u8;
