// ---- spec vocabulary for essential-asm (C13 / C15)
// be_bytes / from_be: the big-endian byte image of a word and its inverse. The axioms below are exactly what the complete Kani
// harness types_k1::word_bytes_roundtrip proves of the real bytes_from_word / word_from_bytes (full domain, loop-free)
pub uninterp spec fn be_bytes(w: i64) -> [u8; 8];
pub uninterp spec fn from_be(b: [u8; 8]) -> i64;
pub broadcast axiom fn axiom_be_inv(w: i64) ensures from_be(#[trigger] be_bytes(w)) == w;
pub broadcast axiom fn axiom_be_inv2(b: [u8; 8]) ensures be_bytes(#[trigger] from_be(b)) == b;
pub broadcast axiom fn axiom_be_len(w: i64) ensures #[trigger] be_bytes(w)@.len() == 8;
// the array made of the first 8 elements of a sequence
pub uninterp spec fn arr8(s: Seq<u8>) -> [u8; 8];
pub axiom fn axiom_arr8(s: Seq<u8>) ensures s.len() >= 8 ==> arr8(s)@ =~= s.take(8);
pub axiom fn axiom_array_ext(a: [u8; 8], b: [u8; 8]) ensures a@ =~= b@ ==> a == b;
