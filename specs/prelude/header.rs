#![feature(allocator_api)]
#![verifier::allow(autoderive_clone_without_spec)]
#![allow(unused_imports, dead_code, unused_variables, unused_mut, unreachable_patterns, non_snake_case, unused_parens, unused_braces)]
use vstd::prelude::*;
