// ---- spec vocabulary for the VM (written from asm.yml and the property statements)
pub open spec fn fits(x: int) -> bool { i64::MIN <= x <= i64::MAX }
pub open spec fn b2w(b: bool) -> i64 { if b { 1i64 } else { 0i64 } }
pub open spec fn w2b(w: i64) -> Option<bool> { if w == 0 { Some(false) } else if w == 1 { Some(true) } else { None } }
pub open spec fn stack_wf(s: Seq<i64>) -> bool { s.len() <= 4096 }
pub open spec fn mem_wf(m: Seq<i64>) -> bool { m.len() <= 10240 }
pub open spec fn zeros(n: nat) -> Seq<i64> { Seq::new(n, |i: int| 0i64) }

// ---- D4: opaque stand-ins for types of external crates that only occur as payloads of error enums
pub mod ext {
    pub mod ed25519_dalek { pub mod ed25519 { #[derive(Debug)] pub struct Error; } }
    pub mod secp256k1 { #[derive(Debug)] pub struct Error; }
    pub mod asm_errors { #[derive(Debug)] pub struct FromBytesError; }
}

// ---- Stack ops (asm.yml `Stack` group).  None = the op fails.  s is the stack before the op.
pub open spec fn sp_push(s: Seq<i64>, w: i64) -> Option<Seq<i64>> { if s.len() < 4096 { Some(s.push(w)) } else { None } }
pub open spec fn sp_pop(s: Seq<i64>) -> Option<Seq<i64>> { if s.len() >= 1 { Some(s.drop_last()) } else { None } }
pub open spec fn sp_dup(s: Seq<i64>) -> Option<Seq<i64>> { if 1 <= s.len() < 4096 { Some(s.push(s.last())) } else { None } }
pub open spec fn sp_swap(s: Seq<i64>) -> Option<Seq<i64>> {
    let n = s.len() as int;
    if n >= 2 { Some(s.take(n - 2).push(s[n - 1]).push(s[n - 2])) } else { None } }
pub open spec fn sp_dup_from(s: Seq<i64>) -> Option<Seq<i64>> {
    if s.len() < 1 { None } else {
        let i = s.last() as int; let t = s.drop_last();
        if 0 <= i < t.len() { Some(t.push(t[t.len() - 1 - i])) } else { None } } }
pub open spec fn sp_swap_index(s: Seq<i64>) -> Option<Seq<i64>> {
    if s.len() < 1 { None } else {
        let i = s.last() as int; let t = s.drop_last(); let top = t.len() - 1;
        if 0 <= i < t.len() { Some(t.update(top, t[top - i]).update(top - i, t[top])) } else { None } } }
pub open spec fn sp_select(s: Seq<i64>) -> Option<Seq<i64>> {
    let n = s.len() as int;
    if n < 3 { None } else { match w2b(s[n - 1]) {
        None => None,
        Some(c) => Some(s.take(n - 3).push(if c { s[n - 2] } else { s[n - 3] })) } } }
pub open spec fn sp_select_range(s: Seq<i64>) -> Option<Seq<i64>> {
    let n = s.len() as int;
    if n < 2 { None } else { match w2b(s[n - 1]) {
        None => None,
        Some(c) => { let len = s[n - 2] as int; let t = s.take(n - 2);
            if len < 0 || 2 * len > t.len() { None }
            else { let base = t.len() - 2 * len;
                   Some(if c { t.take(base) + t.subrange(base + len, base + 2 * len) } else { t.take(base + len) }) } } } } }
pub open spec fn sp_reserve(s: Seq<i64>) -> Option<Seq<i64>> {
    if s.len() < 1 { None } else {
        let n = s.last() as int; let t = s.drop_last();
        if 0 <= n && t.len() + n + 1 <= 4096 { Some((t + zeros(n as nat)).push(t.len() as i64)) } else { None } } }
pub open spec fn sp_load(s: Seq<i64>) -> Option<Seq<i64>> {
    if s.len() < 1 { None } else {
        let i = s.last() as int; let t = s.drop_last();
        if 0 <= i < t.len() { Some(t.push(t[i])) } else { None } } }
pub open spec fn sp_store(s: Seq<i64>) -> Option<Seq<i64>> {
    let n = s.len() as int;
    if n < 2 { None } else {
        let i = s[n - 1] as int; let v = s[n - 2]; let t = s.take(n - 2);
        if 0 <= i < t.len() { Some(t.update(i, v)) } else { None } } }
pub open spec fn sp_drop(s: Seq<i64>) -> Option<Seq<i64>> {
    if s.len() < 1 { None } else {
        let k = s.last() as int; let t = s.drop_last();
        if 0 <= k <= t.len() { Some(t.take(t.len() - k)) } else { None } } }
// the `len words` operand convention: [.., w_0 .. w_{len-1}, len]
pub open spec fn lw_ok(s: Seq<i64>) -> bool { s.len() >= 1 && 0 <= s.last() <= s.len() - 1 }
pub open spec fn lw_words(s: Seq<i64>) -> Seq<i64> { s.subrange(s.len() - 1 - s.last(), s.len() - 1) }
pub open spec fn lw_rest(s: Seq<i64>) -> Seq<i64> { s.take(s.len() - 1 - s.last()) }

// items yielded by an `impl IntoIterator<Item = Word>` argument (used by the assumed contract of Stack::extend)
pub uninterp spec fn iter_items<I>(i: I) -> Seq<i64>;
pub broadcast axiom fn iter_items_array<const N: usize>(a: [i64; N]) ensures #[trigger] iter_items(a) == a@;
pub broadcast axiom fn iter_items_vec(v: Vec<i64>) ensures #[trigger] iter_items(v) == v@;

// ---- ALU (asm.yml `Alu` group; C08: mathematical integer arithmetic, fails instead of wrapping)
pub open spec fn trunc_div(a: int, b: int) -> int {      // Rust/hardware `/` : rounds toward zero
    if b == 0 { 0 } else if (a >= 0) == (b > 0) { (if a >= 0 { a } else { -a }) / (if b > 0 { b } else { -b }) }
    else { -((if a >= 0 { a } else { -a }) / (if b > 0 { b } else { -b })) } }
pub open spec fn trunc_rem(a: int, b: int) -> int { a - b * trunc_div(a, b) }
pub open spec fn sp_add(a: i64, b: i64) -> Option<i64> { if fits(a + b) { Some((a + b) as i64) } else { None } }
pub open spec fn sp_sub(a: i64, b: i64) -> Option<i64> { if fits(a - b) { Some((a - b) as i64) } else { None } }
pub open spec fn sp_mul(a: i64, b: i64) -> Option<i64> { if fits(a * b) { Some((a * b) as i64) } else { None } }
pub open spec fn sp_div(a: i64, b: i64) -> Option<i64> {
    if b == 0 || (a == i64::MIN && b == -1) { None } else { Some(trunc_div(a as int, b as int) as i64) } }
pub open spec fn sp_mod(a: i64, b: i64) -> Option<i64> {
    if b == 0 || (a == i64::MIN && b == -1) { None } else { Some(trunc_rem(a as int, b as int) as i64) } }
pub open spec fn sp_shl(a: i64, b: i64) -> Option<i64> { if 0 <= b < 64 { Some(a << b) } else { None } }
pub open spec fn sp_shr(a: i64, b: i64) -> Option<i64> { if 0 <= b < 64 { Some(((a as u64) >> (b as u64)) as i64) } else { None } }
pub open spec fn sp_shri(a: i64, b: i64) -> Option<i64> { if 0 <= b < 64 { Some(a >> b) } else { None } }

// ---- Pred
pub open spec fn sp_eq_range(s: Seq<i64>) -> Option<Seq<i64>> {      // [.., a_0..a_N, b_0..b_N, len]
    let n = s.len() as int;
    if n < 1 { None } else {
        let len = s[n - 1] as int; let t = s.drop_last();
        if len < 0 || 2 * len > t.len() { None } else {
            let base = t.len() - 2 * len;
            Some(t.take(base).push(b2w(t.subrange(base, base + len) == t.subrange(base + len, base + 2 * len)))) } } }

// ---- Memory ops: (stack, memory) -> Option<(stack, memory)>
pub open spec fn sp_mem_alloc(s: Seq<i64>, m: Seq<i64>) -> Option<(Seq<i64>, Seq<i64>)> {
    if s.len() < 1 { None } else { let n = s.last() as int; let t = s.drop_last();
        if 0 <= n && m.len() + n <= 10240 { Some((t.push(m.len() as i64), m + zeros(n as nat))) } else { None } } }
pub open spec fn sp_mem_free(s: Seq<i64>, m: Seq<i64>) -> Option<(Seq<i64>, Seq<i64>)> {
    if s.len() < 1 { None } else { let l = s.last() as int; let t = s.drop_last();
        if 0 <= l <= m.len() { Some((t, m.take(l))) } else { None } } }
pub open spec fn sp_mem_load(s: Seq<i64>, m: Seq<i64>) -> Option<(Seq<i64>, Seq<i64>)> {
    if s.len() < 1 { None } else { let a = s.last() as int; let t = s.drop_last();
        if 0 <= a < m.len() { Some((t.push(m[a]), m)) } else { None } } }
pub open spec fn sp_mem_store(s: Seq<i64>, m: Seq<i64>) -> Option<(Seq<i64>, Seq<i64>)> {
    let n = s.len() as int;
    if n < 2 { None } else { let a = s[n - 1] as int; let v = s[n - 2]; let t = s.take(n - 2);
        if 0 <= a < m.len() { Some((t, m.update(a, v))) } else { None } } }
pub open spec fn sp_mem_load_range(s: Seq<i64>, m: Seq<i64>) -> Option<(Seq<i64>, Seq<i64>)> {
    let n = s.len() as int;
    if n < 2 { None } else { let a = s[n - 2] as int; let k = s[n - 1] as int; let t = s.take(n - 2);
        if 0 <= a && 0 <= k && a + k <= m.len() && t.len() + k <= 4096 { Some((t + m.subrange(a, a + k), m)) } else { None } } }
pub open spec fn sp_mem_store_range(s: Seq<i64>, m: Seq<i64>) -> Option<(Seq<i64>, Seq<i64>)> {   // [values.., len, index]
    let n = s.len() as int;
    if n < 2 { None } else { let a = s[n - 1] as int; let t = s.drop_last();
        if !lw_ok(t) { None } else { let vs = lw_words(t);
            if 0 <= a && a + vs.len() <= m.len() { Some((lw_rest(t), m.take(a) + vs + m.skip(a + vs.len()))) } else { None } } } }

// ---- Control flow (C09).  None = error; Some(None) = fall through to pc+1; Some(Some(p)) = jump to p
pub open spec fn sp_jump_target(pc: int, dist: i64, cond: i64) -> Option<Option<int>> {
    match w2b(cond) {
        None => None,
        Some(false) => Some(None),
        Some(true) => if dist == 0 || pc + dist < 0 || pc + dist > usize::MAX { None } else { Some(Some(pc + dist)) } } }

// ---- Repeat (C09).  A slot of the repeat stack: counter, Some(limit) when counting up / None when counting down, loop start pc
pub open spec fn repeat_wf<T>(r: Seq<T>) -> bool { r.len() <= 4096 }
pub open spec fn sat_sub1(l: i64) -> int { if l == i64::MIN { i64::MIN as int } else { l - 1 } }
// RepeatEnd on the top slot: (None, _) = loop finished, slot popped, fall through;  (Some(slot'), _) = jump back to slot.start
pub open spec fn sp_repeat_end(sl: crate::repeat::SlotS) -> (Option<crate::repeat::SlotS>, int) {
    match sl.up {
        Some(limit) => if sl.counter >= sat_sub1(limit) { (None, 0) }
                       else { (Some(crate::repeat::SlotS { counter: (sl.counter + 1) as i64, up: sl.up, start: sl.start }), sl.start) },
        None => if sl.counter <= 1 { (None, 0) }
                else { (Some(crate::repeat::SlotS { counter: (sl.counter - 1) as i64, up: sl.up, start: sl.start }), sl.start) } } }
// Repeat op at pc: [.., num_repeats, count_up]
pub open spec fn sp_repeat_begin(pc: int, s: Seq<i64>, rs: Seq<crate::repeat::SlotS>) -> Option<(Seq<i64>, Seq<crate::repeat::SlotS>)> {
    let n = s.len() as int;
    if n < 2 { None } else { match w2b(s[n - 1]) {
        None => None,
        Some(up) => if pc + 1 > usize::MAX || rs.len() >= 4096 { None } else {
            Some((s.take(n - 2), rs.push(if up { crate::repeat::SlotS { counter: 0, up: Some(s[n - 2]), start: pc + 1 } }
                                         else { crate::repeat::SlotS { counter: s[n - 2], up: None, start: pc + 1 } }))) } } } }

// ---- lemmas: vstd's model of Rust `/` and `%` on signed integers (rust_div / rust_rem) is truncating division
pub proof fn lemma_div_negdiv(x: int, b: int) requires x >= 0, b < 0 ensures x / b == -(x / (-b)) {
    let q = x / b; let r = x % b;
    vstd::arithmetic::div_mod::lemma_fundamental_div_mod(x, b);
    assert(x == b * q + r);
    assert(0 <= r < -b);
    assert((-b) * (-q) == b * q) by(nonlinear_arith);
    vstd::arithmetic::div_mod::lemma_fundamental_div_mod_converse(x, -b, -q, r);
}
pub proof fn lemma_rust_div(a: int, b: int) requires b != 0
    ensures vstd::arithmetic::div_mod::rust_div(a, b) == trunc_div(a, b), vstd::arithmetic::div_mod::rust_rem(a, b) == trunc_rem(a, b) {
    if a == 0 {
        assert(0int / b == 0) by(nonlinear_arith) requires b != 0;
        assert(0int / (-b) == 0) by(nonlinear_arith) requires b != 0;
    } else if a > 0 {
        if b < 0 { lemma_div_negdiv(a, b); }
        vstd::arithmetic::div_mod::lemma_fundamental_div_mod(a, b);
        assert(vstd::arithmetic::div_mod::rust_div(a, b) == a / b);
        assert(trunc_div(a, b) == a / b);
        assert(vstd::arithmetic::div_mod::rust_rem(a, b) == a % b);
    } else {
        if b < 0 { lemma_div_negdiv(-a, b); }
        vstd::arithmetic::div_mod::lemma_fundamental_div_mod(-a, b);
        assert(vstd::arithmetic::div_mod::rust_div(a, b) == -((-a) / b));
        assert(trunc_div(a, b) == -((-a) / b));
        assert(b * (-((-a) / b)) == -(b * ((-a) / b))) by(nonlinear_arith);
        assert(vstd::arithmetic::div_mod::rust_rem(a, b) == -((-a) % b));
    }
}

// ---- State reads (C11): memory layout of the returned values
pub open spec fn mem_write(m: Seq<i64>, a: int, vs: Seq<i64>) -> Seq<i64> { m.take(a) + vs + m.skip(a + vs.len()) }
pub open spec fn sum_lens(vals: Seq<Seq<i64>>, k: int) -> int decreases k { if k <= 0 { 0 } else { sum_lens(vals, k - 1) + vals[k - 1].len() } }
// address of value i: right after the n [address, length] pairs and the values before it
pub open spec fn val_addr(addr: int, vals: Seq<Seq<i64>>, i: int) -> int { addr + 2 * vals.len() + sum_lens(vals, i) }
// memory after the first k values have been laid out: pair k at addr+2k = [val_addr(k), len_k], value k at val_addr(k)
pub open spec fn layout_k(m: Seq<i64>, addr: int, vals: Seq<Seq<i64>>, k: int) -> Seq<i64> decreases k {
    if k <= 0 { m } else {
        mem_write(mem_write(layout_k(m, addr, vals, k - 1), addr + 2 * (k - 1), seq![val_addr(addr, vals, k - 1) as i64, vals[k - 1].len() as i64]),
                  val_addr(addr, vals, k - 1), vals[k - 1]) } }
pub open spec fn layout_fits(m: Seq<i64>, addr: int, vals: Seq<Seq<i64>>) -> bool {
    (vals.len() == 0 && addr <= i64::MAX) || (vals.len() > 0 && val_addr(addr, vals, vals.len() as int) <= m.len()) }
pub proof fn lemma_sum_lens_mono(vals: Seq<Seq<i64>>, i: int, j: int) requires 0 <= i <= j <= vals.len() ensures 0 <= sum_lens(vals, i) <= sum_lens(vals, j) decreases j {
    if j > 0 { if i < j { lemma_sum_lens_mono(vals, i, j - 1); } else { lemma_sum_lens_mono(vals, i - 1, j - 1); } } }
pub proof fn lemma_fits(vals: Seq<Seq<i64>>)
    ensures forall|i: int| 0 <= i <= vals.len() ==> 0 <= #[trigger] sum_lens(vals, i) <= sum_lens(vals, vals.len() as int),
{ assert forall|i: int| 0 <= i <= vals.len() implies 0 <= #[trigger] sum_lens(vals, i) <= sum_lens(vals, vals.len() as int) by { lemma_sum_lens_mono(vals, i, vals.len() as int); } }
pub proof fn lemma_layout_len(m: Seq<i64>, addr: int, vals: Seq<Seq<i64>>, k: int)
    requires 0 <= k <= vals.len(), 0 <= addr, val_addr(addr, vals, k) <= m.len() ensures layout_k(m, addr, vals, k).len() == m.len() decreases k {
    if k > 0 { lemma_sum_lens_mono(vals, k - 1, k); lemma_sum_lens_mono(vals, 0, k - 1); lemma_layout_len(m, addr, vals, k - 1); } }
// operands of a key-range read: [.., key_0 .. key_{L-1}, L, num_keys]  ->  (key, num_keys, rest of stack)
pub open spec fn sp_key_args(s: Seq<i64>) -> Option<(Seq<i64>, int, Seq<i64>)> {
    if s.len() < 1 { None } else { let n = s.last() as int; let t = s.drop_last();
        if n < 0 || !lw_ok(t) { None } else { Some((lw_words(t), n, lw_rest(t))) } } }
// operands of KeyRange: [.., key.., key_len, num_keys, mem_addr] -> (key, num_keys, mem_addr, rest)
pub open spec fn sp_read_args(s: Seq<i64>) -> Option<(Seq<i64>, int, int, Seq<i64>)> {
    if s.len() < 1 || s.last() < 0 { None } else {
        match sp_key_args(s.drop_last()) { None => None, Some((key, n, rest)) => Some((key, n, s.last() as int, rest)) } } }

// ---- Access ops (C12): data = predicate data of the solution being checked (slots of words)
pub open spec fn sp_pred_data_len(s: Seq<i64>, data: Seq<Seq<i64>>) -> Option<Seq<i64>> {      // [slot_ix] -> [len]
    if s.len() < 1 { None } else { let slot = s.last() as int; let t = s.drop_last();
        if 0 <= slot < data.len() { Some(t.push(data[slot].len() as i64)) } else { None } } }
pub open spec fn sp_pred_data_slots(s: Seq<i64>, data: Seq<Seq<i64>>) -> Option<Seq<i64>> {    // [] -> [num_slots]
    if s.len() < 4096 { Some(s.push(data.len() as i64)) } else { None } }
pub open spec fn sp_pred_data(s: Seq<i64>, data: Seq<Seq<i64>>) -> Option<Seq<i64>> {          // [slot_ix, value_ix, len] -> [words..]
    let n = s.len() as int;
    if n < 3 { None } else { let slot = s[n - 3] as int; let ix = s[n - 2] as int; let len = s[n - 1] as int; let t = s.take(n - 3);
        if 0 <= slot < data.len() && 0 <= ix && 0 <= len && ix + len <= data[slot].len() && t.len() + len <= 4096
            { Some(t + data[slot].subrange(ix, ix + len)) } else { None } } }

// ---- Gas (C07)
pub open spec fn sum_u64(s: Seq<u64>) -> int decreases s.len() { if s.len() == 0 { 0 } else { sum_u64(s.drop_last()) + s.last() } }
