// ---- spec vocabulary for the VM (written from asm.yml and the property statements)
pub open spec fn fits(x: int) -> bool { i64::MIN <= x <= i64::MAX }
pub open spec fn b2w(b: bool) -> i64 { if b { 1i64 } else { 0i64 } }
pub open spec fn w2b(w: i64) -> Option<bool> { if w == 0 { Some(false) } else if w == 1 { Some(true) } else { None } }
pub open spec fn stack_wf(s: Seq<i64>) -> bool { s.len() <= 4096 }
pub open spec fn mem_wf(m: Seq<i64>) -> bool { m.len() <= 10240 }
pub open spec fn zeros(n: nat) -> Seq<i64> { Seq::new(n, |i: int| 0i64) }

// ---- D4: opaque stand-ins for types of external crates that only occur as payloads of error enums
pub mod ext {
    pub mod ed25519_dalek { pub mod ed25519 { pub struct Error; } }
    pub mod secp256k1 { pub struct Error; }
    pub mod asm_errors { pub struct FromBytesError; }
}

// ---- Stack ops (asm.yml `Stack` group).  None = the op fails.  s is the stack before the op.
pub open spec fn sp_push(s: Seq<i64>, w: i64) -> Option<Seq<i64>> { if s.len() < 4096 { Some(s.push(w)) } else { None } }
pub open spec fn sp_pop(s: Seq<i64>) -> Option<Seq<i64>> { if s.len() >= 1 { Some(s.drop_last()) } else { None } }
pub open spec fn sp_dup(s: Seq<i64>) -> Option<Seq<i64>> { if 1 <= s.len() < 4096 { Some(s.push(s.last())) } else { None } }
pub open spec fn sp_swap(s: Seq<i64>) -> Option<Seq<i64>> {
    let n = s.len() as int;
    if n >= 2 { Some(s.take(n - 2).push(s[n - 1]).push(s[n - 2])) } else { None } }
pub open spec fn sp_dup_from(s: Seq<i64>) -> Option<Seq<i64>> {
    if s.len() < 1 { None } else {
        let i = s.last() as int; let t = s.drop_last();
        if 0 <= i < t.len() { Some(t.push(t[t.len() - 1 - i])) } else { None } } }
pub open spec fn sp_swap_index(s: Seq<i64>) -> Option<Seq<i64>> {
    if s.len() < 1 { None } else {
        let i = s.last() as int; let t = s.drop_last(); let top = t.len() - 1;
        if 0 <= i < t.len() { Some(t.update(top, t[top - i]).update(top - i, t[top])) } else { None } } }
pub open spec fn sp_select(s: Seq<i64>) -> Option<Seq<i64>> {
    let n = s.len() as int;
    if n < 3 { None } else { match w2b(s[n - 1]) {
        None => None,
        Some(c) => Some(s.take(n - 3).push(if c { s[n - 2] } else { s[n - 3] })) } } }
pub open spec fn sp_select_range(s: Seq<i64>) -> Option<Seq<i64>> {
    let n = s.len() as int;
    if n < 2 { None } else { match w2b(s[n - 1]) {
        None => None,
        Some(c) => { let len = s[n - 2] as int; let t = s.take(n - 2);
            if len < 0 || 2 * len > t.len() { None }
            else { let base = t.len() - 2 * len;
                   Some(if c { t.take(base) + t.subrange(base + len, base + 2 * len) } else { t.take(base + len) }) } } } } }
pub open spec fn sp_reserve(s: Seq<i64>) -> Option<Seq<i64>> {
    if s.len() < 1 { None } else {
        let n = s.last() as int; let t = s.drop_last();
        if 0 <= n && t.len() + n + 1 <= 4096 { Some((t + zeros(n as nat)).push(t.len() as i64)) } else { None } } }
pub open spec fn sp_load(s: Seq<i64>) -> Option<Seq<i64>> {
    if s.len() < 1 { None } else {
        let i = s.last() as int; let t = s.drop_last();
        if 0 <= i < t.len() { Some(t.push(t[i])) } else { None } } }
pub open spec fn sp_store(s: Seq<i64>) -> Option<Seq<i64>> {
    let n = s.len() as int;
    if n < 2 { None } else {
        let i = s[n - 1] as int; let v = s[n - 2]; let t = s.take(n - 2);
        if 0 <= i < t.len() { Some(t.update(i, v)) } else { None } } }
pub open spec fn sp_drop(s: Seq<i64>) -> Option<Seq<i64>> {
    if s.len() < 1 { None } else {
        let k = s.last() as int; let t = s.drop_last();
        if 0 <= k <= t.len() { Some(t.take(t.len() - k)) } else { None } } }
// the `len words` operand convention: [.., w_0 .. w_{len-1}, len]
pub open spec fn lw_ok(s: Seq<i64>) -> bool { s.len() >= 1 && 0 <= s.last() <= s.len() - 1 }
pub open spec fn lw_words(s: Seq<i64>) -> Seq<i64> { s.subrange(s.len() - 1 - s.last(), s.len() - 1) }
pub open spec fn lw_rest(s: Seq<i64>) -> Seq<i64> { s.take(s.len() - 1 - s.last()) }

// items yielded by an `impl IntoIterator<Item = Word>` argument (used by the assumed contract of Stack::extend)
pub uninterp spec fn iter_items<I>(i: I) -> Seq<i64>;
pub broadcast axiom fn iter_items_array<const N: usize>(a: [i64; N]) ensures #[trigger] iter_items(a) == a@;
pub broadcast axiom fn iter_items_vec(v: Vec<i64>) ensures #[trigger] iter_items(v) == v@;
