// ---- T-std: specifications assumed for std functions vstd does not specify. Each is listed in evidence.
global size_of usize == 8;

pub assume_specification<'a, T: Copy> [core::option::Option::<&'a T>::copied] (o: Option<&'a T>) -> (r: Option<T>)
    ensures r == (match o { Some(x) => Some(*x), None => None });
pub assume_specification<T> [<[T]>::swap] (s: &mut [T], a: usize, b: usize)
    requires a < old(s)@.len(), b < old(s)@.len(),
    ensures final(s)@ == old(s)@.update(a as int, old(s)@[b as int]).update(b as int, old(s)@[a as int]);
pub assume_specification<T> [<[T]>::split_last] (s: &[T]) -> (r: Option<(&T, &[T])>)
    ensures s@.len() == 0 ==> r is None,
            s@.len() > 0 ==> r is Some && *r->Some_0.0 == s@.last() && r->Some_0.1@ == s@.drop_last();
pub assume_specification<T: Clone> [<[T]>::to_vec] (s: &[T]) -> (v: Vec<T>)
    ensures v@.len() == s@.len(), forall|i: int| 0 <= i < s@.len() ==> cloned(s@[i], #[trigger] v@[i]);
#[verifier::allow(undeclared_external_trait)]
pub assume_specification<T, E> [core::result::Result::<T, E>::unwrap_or] (r: Result<T, E>, d: T) -> (o: T)
    where E: core::marker::Destruct, T: core::marker::Destruct,
    ensures o == (match r { Ok(v) => v, Err(_) => d });
#[verifier::allow(undeclared_external_trait)]
pub assume_specification<T, P: FnOnce(&T) -> bool> [core::option::Option::<T>::filter] (o: Option<T>, p: P) -> (r: Option<T>)
    where P: core::marker::Destruct, T: core::marker::Destruct,
    requires o matches Some(v) ==> p.requires((&v,)),
    ensures o is None ==> r is None,
            o matches Some(v) ==> (exists|b: bool| p.ensures((&v,), b) && r == (if b { Some(v) } else { None::<T> }));
#[verifier::allow(undeclared_external_trait)]
pub assume_specification<T, U, F: FnOnce(T) -> U> [core::option::Option::<T>::map_or] (o: Option<T>, d: U, f: F) -> (r: U)
    where F: core::marker::Destruct, U: core::marker::Destruct,
    requires o matches Some(v) ==> f.requires((v,)),
    ensures o is None ==> r == d, o matches Some(v) ==> f.ensures((v,), r);
pub assume_specification [i64::saturating_sub] (a: i64, b: i64) -> (r: i64)
    ensures r == (if a - b < i64::MIN { i64::MIN } else if a - b > i64::MAX { i64::MAX } else { (a - b) as i64 });
pub assume_specification [<i64 as core::convert::From<bool>>::from] (b: bool) -> (w: i64)
    ensures w == (if b { 1i64 } else { 0i64 });
// std: impl<T, I: SliceIndex<[T]>, A> IndexMut<I> for Vec<T, A> { fn index_mut(..) { IndexMut::index_mut(&mut **self, index) } }
pub assume_specification<T, I: core::slice::SliceIndex<[T]>, A: core::alloc::Allocator>
    [<Vec<T, A> as core::ops::IndexMut<I>>::index_mut] (v: &mut Vec<T, A>, index: I)
        -> (output: &mut <Vec<T, A> as core::ops::Index<I>>::Output)
    ensures exists|os: &[T], fs: &[T]| os@ == old(v)@ && fs@ == final(v)@
            && #[trigger] vstd::slice::SliceIndexSpec::index_mut_postcondition(&index, os, fs, &*output, &*final(output));
#[verifier::allow(undeclared_external_trait)]
pub assume_specification<T, E, U, F: FnOnce(T) -> Result<U, E>> [core::result::Result::<T, E>::and_then] (r: Result<T, E>, f: F) -> (o: Result<U, E>)
    where F: core::marker::Destruct, T: core::marker::Destruct, E: core::marker::Destruct,
    requires r matches Ok(v) ==> f.requires((v,)),
    ensures r matches Err(e) ==> o == Err::<U, E>(e), r matches Ok(v) ==> f.ensures((v,), o);
pub assume_specification<T, A: core::alloc::Allocator> [Vec::<T, A>::shrink_to_fit] (v: &mut Vec<T, A>)
    ensures final(v)@ == old(v)@;
// std documents: "The absolute value of i64::MIN cannot be represented as an i64, and attempting to calculate it will
// cause an overflow" (panic with overflow checks, i64::MIN without): a precondition here.
pub assume_specification [i64::abs] (x: i64) -> (r: i64)
    requires x != i64::MIN,
    ensures r == (if x < 0 { -x } else { x as int });
pub assume_specification [i64::unsigned_abs] (x: i64) -> (r: u64)
    ensures r == (if x < 0 { -x } else { x as int });
// Rust reference: `expr?` on Err(e) returns Err(From::from(e)).  Verus models the conversion by the uninterpreted relation
// `spec_from`; this axiom ties it to the (verified) From impl's specification.
pub broadcast axiom fn spec_from_is_from<T: core::convert::From<S>, S>(s: S, t: T)
    requires #[trigger] vstd::std_specs::control_flow::spec_from::<T, S>(s, t), <T as vstd::std_specs::convert::FromSpec<S>>::obeys_from_spec()
    ensures t == <T as vstd::std_specs::convert::FromSpec<S>>::from_spec(s);
// std: "Vec never allocates more than isize::MAX bytes"; slices likewise (core::slice::from_raw_parts safety contract).
pub broadcast axiom fn axiom_vec_i64_len(v: Vec<i64>) ensures #[trigger] v@.len() <= 0x0FFF_FFFF_FFFF_FFFF;
pub broadcast axiom fn axiom_slice_vec_i64_len(s: &[Vec<i64>]) ensures #[trigger] s@.len() <= 0x0555_5555_5555_5555;
pub assume_specification<Idx: Clone> [<core::ops::Range<Idx> as Clone>::clone] (r: &core::ops::Range<Idx>) -> (o: core::ops::Range<Idx>)
    ensures cloned(r.start, o.start), cloned(r.end, o.end);
// ---- more T-std specs (so that plausible edits of the verified functions stay inside the verifier's reach)
pub open spec fn wrap64(x: int) -> i64 { ((((x + 0x8000_0000_0000_0000) % 0x1_0000_0000_0000_0000) - 0x8000_0000_0000_0000) as i64) }
pub open spec fn tdiv(a: int, b: int) -> int { vstd::arithmetic::div_mod::rust_div(a, b) }
pub open spec fn trem(a: int, b: int) -> int { vstd::arithmetic::div_mod::rust_rem(a, b) }
pub assume_specification [i64::wrapping_div] (a: i64, b: i64) -> (r: i64) requires b != 0,
    ensures r == (if a == i64::MIN && b == -1 { i64::MIN } else { tdiv(a as int, b as int) as i64 });
pub assume_specification [i64::wrapping_rem] (a: i64, b: i64) -> (r: i64) requires b != 0,
    ensures r == (if a == i64::MIN && b == -1 { 0i64 } else { trem(a as int, b as int) as i64 });
pub assume_specification [i64::wrapping_neg] (a: i64) -> (r: i64) ensures r == (if a == i64::MIN { i64::MIN } else { (-a) as i64 });
pub assume_specification [i64::wrapping_abs] (a: i64) -> (r: i64) ensures r == (if a == i64::MIN { i64::MIN } else if a < 0 { (-a) as i64 } else { a });
pub assume_specification [i64::checked_neg] (a: i64) -> (r: Option<i64>) ensures r == (if a == i64::MIN { None::<i64> } else { Some((-a) as i64) });
pub assume_specification [i64::checked_abs] (a: i64) -> (r: Option<i64>) ensures r == (if a == i64::MIN { None::<i64> } else if a < 0 { Some((-a) as i64) } else { Some(a) });
pub assume_specification [i64::saturating_add] (a: i64, b: i64) -> (r: i64)
    ensures r == (if a + b < i64::MIN { i64::MIN } else if a + b > i64::MAX { i64::MAX } else { (a + b) as i64 });
pub assume_specification [i64::saturating_mul] (a: i64, b: i64) -> (r: i64)
    ensures r == (if a * b < i64::MIN { i64::MIN } else if a * b > i64::MAX { i64::MAX } else { (a * b) as i64 });
pub assume_specification [i64::overflowing_add] (a: i64, b: i64) -> (r: (i64, bool))
    ensures r.1 == !(i64::MIN <= a + b <= i64::MAX), r.0 == wrap64(a + b);
pub assume_specification [i64::is_negative] (a: i64) -> (r: bool) ensures r == (a < 0);
pub assume_specification [i64::signum] (a: i64) -> (r: i64) ensures r == (if a < 0 { -1i64 } else if a == 0 { 0i64 } else { 1i64 });
pub assume_specification [i64::abs_diff] (a: i64, b: i64) -> (r: u64) ensures r == (if a >= b { a - b } else { b - a });
#[verifier::allow(undeclared_external_trait)]
pub assume_specification<T> [core::option::Option::<T>::or] (a: Option<T>, b: Option<T>) -> (r: Option<T>)
    where T: core::marker::Destruct,
    ensures r == (if a is Some { a } else { b });
pub broadcast axiom fn axiom_slice_i64_len(s: &[i64]) ensures #[trigger] s@.len() <= 0x0FFF_FFFF_FFFF_FFFF;
// ---- BTreeMap entry API (T-std): `m.entry(k).or_default()` yields a reference into the map at k (default-inserted if absent);
// the prophetic final map is the old map with k bound to the final value behind that reference.
#[verifier::external_type_specification]
#[verifier::external_body]
#[verifier::reject_recursive_types(K)]
#[verifier::reject_recursive_types(V)]
#[verifier::reject_recursive_types(A)]
pub struct ExBTreeEntry<'a, K: 'a, V: 'a, A: core::alloc::Allocator + Clone>(std::collections::btree_map::Entry<'a, K, V, A>);
pub uninterp spec fn entry_old<'a, K, V, A: core::alloc::Allocator + Clone>(e: std::collections::btree_map::Entry<'a, K, V, A>) -> Map<K, V>;
pub uninterp spec fn entry_key<'a, K, V, A: core::alloc::Allocator + Clone>(e: std::collections::btree_map::Entry<'a, K, V, A>) -> K;
#[verifier::prophetic]
pub uninterp spec fn entry_fin<'a, K, V, A: core::alloc::Allocator + Clone>(e: std::collections::btree_map::Entry<'a, K, V, A>) -> Map<K, V>;
pub uninterp spec fn is_default<V>(v: V) -> bool;
pub broadcast axiom fn vec_default_empty<T>(v: Vec<T>) ensures #[trigger] is_default(v) <==> v@.len() == 0;
pub assume_specification<K: Ord, V, A: core::alloc::Allocator + Clone> [std::collections::BTreeMap::<K, V, A>::entry]
    (m: &mut std::collections::BTreeMap<K, V, A>, key: K) -> (e: std::collections::btree_map::Entry<'_, K, V, A>)
    ensures entry_old(e) == old(m)@, entry_key(e) == key, final(m)@ == entry_fin(e);
pub assume_specification<'a, K: Ord, V: Default, A: core::alloc::Allocator + Clone> [std::collections::btree_map::Entry::<'a, K, V, A>::or_default]
    (e: std::collections::btree_map::Entry<'a, K, V, A>) -> (r: &'a mut V)
    ensures entry_old(e).contains_key(entry_key(e)) ==> *r == entry_old(e)[entry_key(e)],
            !entry_old(e).contains_key(entry_key(e)) ==> is_default(*r),
            entry_fin(e) == entry_old(e).insert(entry_key(e), *final(r));
// Vec::dedup removes consecutive repeated elements (so that an edit using it stays inside the verifier's reach)
pub open spec fn dedup_spec<T>(s: Seq<T>) -> Seq<T> decreases s.len() {
    if s.len() <= 1 { s } else if s[s.len() - 1] == s[s.len() - 2] { dedup_spec(s.drop_last()) } else { dedup_spec(s.drop_last()).push(s.last()) } }
pub assume_specification<T: PartialEq, A: core::alloc::Allocator> [Vec::<T, A>::dedup] (v: &mut Vec<T, A>)
    ensures final(v)@ == dedup_spec(old(v)@);
