// ---- spec vocabulary for essential-types codecs (C18 / C06 / C17), written from the documented layouts
// Mutation wire format (words): [key_len, key.., value_len, value..]
pub open spec fn enc_mutation(k: Seq<i64>, v: Seq<i64>) -> Seq<i64> { seq![k.len() as i64] + k + seq![v.len() as i64] + v }
// Mutation list: [count, mutation_0.., mutation_1.., ..]
pub open spec fn enc_mutation_list(ms: Seq<(Seq<i64>, Seq<i64>)>) -> Seq<i64> decreases ms.len() {
    if ms.len() == 0 { Seq::<i64>::empty() } else { enc_mutation(ms[0].0, ms[0].1) + enc_mutation_list(ms.skip(1)) } }
pub open spec fn enc_mutations(ms: Seq<(Seq<i64>, Seq<i64>)>) -> Seq<i64> { seq![ms.len() as i64] + enc_mutation_list(ms) }

// The documented edge sub-range of node i: empty for a leaf (edge_start == 0xFFFF); else edges[edge_start(i) .. end) where end is the
// edge_start of the next node if that node is not a leaf, otherwise the end of the edge list.  None = out of bounds.
pub open spec fn node_edges_spec(starts: Seq<u16>, edges: Seq<u16>, i: int) -> Option<Seq<u16>> {
    if i < 0 || i >= starts.len() { None }
    else if starts[i] == 0xFFFFu16 { Some(Seq::<u16>::empty()) }
    else {
        let s = starts[i] as int;
        let e = if i + 1 < starts.len() && starts[i + 1] != 0xFFFFu16 { starts[i + 1] as int } else { edges.len() as int };
        if s <= e && e <= edges.len() { Some(edges.subrange(s, e)) } else { None } } }
// documented size of the binary predicate encoding: 2 + 34*nodes + 2 + 2*edges
pub open spec fn predicate_size_spec(nodes: nat, edges: nat) -> int { 2 + 34 * (nodes as int) + 2 + 2 * (edges as int) }

pub proof fn lemma_enc_list_push(ms: Seq<(Seq<i64>, Seq<i64>)>, m: (Seq<i64>, Seq<i64>))
    ensures enc_mutation_list(ms.push(m)) =~= enc_mutation_list(ms) + enc_mutation(m.0, m.1) decreases ms.len() {
    if ms.len() == 0 {
        assert(ms.push(m).skip(1) =~= Seq::<(Seq<i64>, Seq<i64>)>::empty());
        assert(enc_mutation_list(ms.push(m).skip(1)) =~= Seq::<i64>::empty());
    } else {
        assert(ms.push(m)[0] == ms[0]);
        assert(ms.push(m).skip(1) =~= ms.skip(1).push(m));
        lemma_enc_list_push(ms.skip(1), m);
    }
}
// documented binary predicate encoding: be16(#nodes) ++ per node (be16(edge_start) ++ 32 address bytes) ++ be16(#edges) ++ per edge be16(edge)
pub open spec fn be16(x: u16) -> Seq<u8> { seq![(x >> 8) as u8, (x & 0xff) as u8] }
pub open spec fn enc_nodes(starts: Seq<u16>, addrs: Seq<Seq<u8>>) -> Seq<u8> decreases starts.len() {
    if starts.len() == 0 || addrs.len() != starts.len() { Seq::<u8>::empty() } else { enc_nodes(starts.drop_last(), addrs.drop_last()) + be16(starts.last()) + addrs.last() } }
pub open spec fn enc_edges(edges: Seq<u16>) -> Seq<u8> decreases edges.len() {
    if edges.len() == 0 { Seq::<u8>::empty() } else { enc_edges(edges.drop_last()) + be16(edges.last()) } }
pub open spec fn enc_predicate(starts: Seq<u16>, addrs: Seq<Seq<u8>>, edges: Seq<u16>) -> Seq<u8> {
    be16(starts.len() as u16) + enc_nodes(starts, addrs) + be16(edges.len() as u16) + enc_edges(edges) }
