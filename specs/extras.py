"""Extra (non-Verus) deciders registered per property: each returns a dict
{cmd, obligations, discharged, violations: [(label, err)], undecided: [..], samples: [..], rows: [..], backend}."""
import json
import os

import asm_yaml
from weave import Undecided


def _err(message, clause, detail):
    return {'message': message, 'line': None, 'clause': clause, 'sites': [{'text': detail, 'line': None, 'label': None}], 'resource': False,
            'rendered': detail, 'witness': None}


def asm_table(scratch, tier):
    """C13: the opcode table read from asm.yml stays byte-compatible with the pinned table (specs/opcodes.pinned.json),
    opcodes are unique, and the set of generated short names is exactly the set declared in asm.yml."""
    out = {'cmd': 'python3: asm.yml (PyYAML, own tree walk) == specs/opcodes.pinned.json; opcode uniqueness; short-name set of the expanded `mod short`',
           'obligations': 0, 'discharged': 0, 'violations': [], 'undecided': [], 'samples': [], 'rows': [], 'backend': 'table-comparison'}
    try:
        groups = asm_yaml.read_spec()
    except Undecided as e:
        out['undecided'].append('asm.yml: %s' % e)
        return out
    now = asm_yaml.table(groups)
    pin = asm_yaml.pinned()
    diffs = []
    for k in sorted(set(now) | set(pin)):
        if now.get(k) != pin.get(k):
            diffs.append('%s: pinned %s, asm.yml now %s' % (k, json.dumps(pin.get(k)), json.dumps(now.get(k))))
    n = len(set(now) | set(pin))
    out['obligations'] += n
    out['discharged'] += n - len(diffs)
    if diffs:
        out['violations'].append(('asm_yml::pinned_opcode_table', _err(
            'opcode table drifted from the pinned table', 'for every op: (opcode byte, num_arg_bytes, short name) == pinned', '; '.join(diffs)[:1500])))
    seen = {}
    dups = []
    for k, v in now.items():
        if v['opcode'] in seen:
            dups.append('0x%02X: %s and %s' % (v['opcode'], seen[v['opcode']], k))
        seen[v['opcode']] = k
    out['obligations'] += 1
    if dups:
        out['violations'].append(('asm_yml::opcode_unique', _err('two ops share an opcode byte', 'opcode bytes are pairwise distinct', '; '.join(dups))))
    else:
        out['discharged'] += 1
    # short-name set
    import driver
    from rustlex import SourceFile
    exp, _ = driver.expand_asm()
    sf = SourceFile(exp)
    try:
        sm = sf.find(['mod op', 'mod short'])
    except KeyError as e:
        out['undecided'].append('expanded essential-asm has no `mod op::short`: %s' % e)
        return out
    have = sorted(c.name for c in sm.children if c.kind == 'const')
    want = sorted(o['short'] for _, ops in groups for o in ops)
    out['obligations'] += 1
    if have != want:
        out['violations'].append(('asm_yml::short_name_set', _err('the generated short names are not exactly those of asm.yml', 'set(short::*) == set(asm.yml short names)',
                                  'missing: %s; extra: %s' % (sorted(set(want) - set(have)), sorted(set(have) - set(want))))))
    else:
        out['discharged'] += 1
    out['rows'].append({'fn': 'asm_yml::tables(pinned, unique, short-name set)', 'backend': 'table-comparison', 'obligations': n + 2, 'time_ms': 0, 'ok': not out['violations']})
    out['samples'].append({'obligation': 'asm_yml::pinned_opcode_table', 'goals': n, 'ensures': 'asm.yml reading == specs/opcodes.pinned.json (opcode, num_arg_bytes, short) for all %d ops' % n})
    return out
