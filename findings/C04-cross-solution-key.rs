// Demonstration for "fixed: C04 cross-solution key": place as crates/check/tests/verif_c04_cross_solution_key.rs
// Before the fix check_set accepted two solutions (of the same contract) proposing different values for one key, so the
// post-state - and with it every post-state read - depended on the order of the solutions.
use essential_check::solution::check_set;
use essential_types::{solution::{Mutation, Solution, SolutionSet}, ContentAddress, PredicateAddress};

fn sol(pred: u8, value: i64) -> Solution {
    Solution {
        predicate_to_solve: PredicateAddress { contract: ContentAddress([1; 32]), predicate: ContentAddress([pred; 32]) },
        predicate_data: vec![],
        state_mutations: vec![Mutation { key: vec![7], value: vec![value] }],
    }
}

#[test]
fn verif_one_value_per_contract_and_key() {
    let a = SolutionSet { solutions: vec![sol(2, 10), sol(3, 20)] };
    let b = SolutionSet { solutions: vec![sol(3, 20), sol(2, 10)] };
    assert!(check_set(&a).is_err(), "two values proposed for contract [1;32] key [7] were accepted");
    assert!(check_set(&b).is_err());
    // different contracts may of course use the same key
    let mut s2 = sol(3, 20);
    s2.predicate_to_solve.contract = ContentAddress([9; 32]);
    assert!(check_set(&SolutionSet { solutions: vec![sol(2, 10), s2] }).is_ok());
}
