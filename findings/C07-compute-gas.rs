// Demonstration for "fixed: C07 compute gas": place as crates/vm/tests/verif_c07_compute_gas.rs
// Before the fix: (1) exec returns Ok(g) with g > gas_limit.total, (2) the sum of child gas overflows u64 (panic in debug builds).
mod util;
use essential_vm::{asm::{self, Op}, Gas, GasLimit, Vm};
use util::*;

#[test]
fn verif_total_limit_covers_compute_children() {
    let mut vm = Vm::default();
    let ops: &[Op] = &[
        asm::Stack::Push(3).into(),     // 3 children
        asm::Compute::Compute.into(),
        asm::Stack::Pop.into(),         // child: pop its index
        asm::Compute::ComputeEnd.into(),
    ];
    let cost = &|_: &Op| 2;
    let limit = GasLimit { per_yield: GasLimit::DEFAULT_PER_YIELD, total: 8 };
    // parent spends 2 + 2 = 4, every child spends 2 + 2 = 4 <= 8, all children together 12: total 16 > 8
    let r = vm.exec_ops(ops, test_access().clone(), &State::EMPTY, cost, limit);
    match r {
        Ok(g) => panic!("execution succeeded with gas {g} > limit 8"),
        Err(_) => (),
    }
}

#[test]
fn verif_child_gas_sum_does_not_overflow() {
    let mut vm = Vm::default();
    let ops: &[Op] = &[
        asm::Stack::Push(2).into(),
        asm::Compute::Compute.into(),
        asm::Compute::ComputeEnd.into(),
    ];
    // ComputeEnd costs u64::MAX - 1: each child alone fits in the unlimited budget, two children overflow the sum
    let cost = &|op: &Op| -> Gas { if *op == Op::Compute(asm::Compute::ComputeEnd) { u64::MAX - 1 } else { 0 } };
    let r = vm.exec_ops(ops, test_access().clone(), &State::EMPTY, cost, GasLimit::UNLIMITED);
    assert!(r.is_err(), "two children spending u64::MAX-1 each cannot fit in any u64 budget: {r:?}");
}
