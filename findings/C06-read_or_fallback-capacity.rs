// Demonstration for "fixed: C06 read_or_fallback capacity": append to crates/check/src/solution/test_state_read_fallback.rs
// A program chooses the number of keys of a post-state read; before the fix `Vec::with_capacity(num_values)` panicked
// ("capacity overflow") for a large count, whatever the number of values actually produced.
#[test]
fn verif_read_or_fallback_huge_count() {
    let (post, pre) = s(&[(1, &[Word::MAX - 1], &[5])], &[]);
    let r = read_or_fallback(&post, &pre, c(1), vec![Word::MAX - 1], i64::MAX as usize).unwrap();
    // keys MAX-1 and MAX exist in the key space, then it is exhausted
    assert_eq!(r, vec![vec![5], vec![]]);
}
