// Demonstrations for the predicate-graph fixes: append to crates/check/src/solution/test_graph_ops.rs
// C01/C03: find_deferred was a single index-ordered pass, so a descendant numbered below its deferred ancestor was missed
// (it then ran in the first pass, without its parent's output).
#[test]
fn verif_find_deferred_is_closed_under_children() {
    // 2 -> 1 -> 0 : node 2 performs the post-state read
    let n = |edge_start, a| Node { edge_start, program_address: ContentAddress([a; 32]) };
    let predicate = Predicate { nodes: vec![n(Edge::MAX, 0), n(0, 1), n(1, 2)], edges: vec![0, 1] };
    let deferred = find_deferred(&predicate, |node: &Node| node.program_address.0[0] == 2);
    let expected: HashSet<_> = [0, 1, 2].into_iter().collect();
    assert_eq!(expected, deferred);
}

// C01/C06: an edge to a node that does not exist was silently ignored (the graph was partially evaluated and the node that
// owns the edge was no longer treated as a leaf constraint).
#[test]
fn verif_dangling_edge_is_rejected() {
    let n = |edge_start, a| Node { edge_start, program_address: ContentAddress([a; 32]) };
    let predicate = Predicate { nodes: vec![n(0, 0)], edges: vec![5] };
    assert!(create_parent_map::<String>(&predicate).is_err());
}
