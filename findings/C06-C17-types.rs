// Demonstrations for the types-crate fixes: place as crates/types/tests/verif_types_findings.rs
use essential_types::{predicate::{Node, Predicate}, solution::decode::{decode_mutation, decode_mutations}, ContentAddress};

// C06/C18: `decode_mutation` indexed `bytes[key_end]` when the input ends right after the key (panic: index out of bounds).
#[test]
fn verif_decode_mutation_truncated_after_key() {
    assert!(decode_mutation(&[1, 5]).is_err());
    assert!(decode_mutation(&[0, ]).is_err());
    assert!(decode_mutation(&[2, 7, 7]).is_err());
}

// C06: `decode_mutations` allocated `Vec::with_capacity(count)` for an untrusted count (capacity overflow panic / allocation abort).
#[test]
fn verif_decode_mutations_huge_count() {
    let r = decode_mutations(&[i64::MAX, 0, 0]);
    assert!(r.is_ok());
    let r = decode_mutations(&[i64::MAX]);
    assert!(r.is_ok() || r.is_err());
}

// C17/C18: `predicate_encoded_size` omitted the 2-byte edge count.
#[test]
fn verif_predicate_encoded_size_matches_encoding() {
    for (n, e) in [(0usize, 0usize), (1, 0), (2, 3), (5, 1)] {
        let p = Predicate {
            nodes: (0..n).map(|_| Node { edge_start: 0, program_address: ContentAddress([7; 32]) }).collect(),
            edges: (0..e).map(|i| i as u16).collect(),
        };
        assert_eq!(p.encoded_size(), p.encode().unwrap().count(), "nodes {n} edges {e}");
    }
}
