// Demonstration for "fixed: C16 computed mutation repeats a declared key": place as crates/check/tests/verif_c16_computed_duplicate.rs
// Before the fix the set returned by the mutation-computing check could propose two mutations for one slot and then fail check_set.
use essential_check::{solution::{self, check_set}, vm::asm};
use essential_hash::content_addr;
use essential_types::{
    contract::Contract, predicate::{Edge, Node, Predicate, Program},
    solution::{encode::encode_mutations, Mutation, Solution, SolutionSet}, ContentAddress, PredicateAddress, Word,
};
use std::{collections::HashMap, sync::Arc};
use util::State;
pub mod util;

#[test]
fn verif_computed_set_keeps_one_mutation_per_slot() {
    use essential_vm::asm::short::*;
    let computed = vec![Mutation { key: vec![9], value: vec![45] }];
    let encoded = encode_mutations(&computed).collect::<Vec<Word>>();
    let n = encoded.len() as Word;
    let mut p = encoded.into_iter().map(PUSH).collect::<Vec<_>>();
    p.extend([PUSH(n), PUSH(n), ALOC, STOR, PUSH(2)]);
    let prog = Program(asm::to_bytes(p).collect());
    let prog_ca = content_addr(&prog);
    let predicate = Predicate { nodes: vec![Node { program_address: prog_ca.clone(), edge_start: Edge::MAX }], edges: vec![] };
    let contract = Contract::without_salt(vec![predicate]);
    let addr = PredicateAddress { contract: content_addr(&contract), predicate: content_addr(&contract.predicates[0]) };
    // the solution already declares a mutation of key [9]
    let set = SolutionSet { solutions: vec![Solution {
        predicate_to_solve: addr.clone(), predicate_data: vec![], state_mutations: vec![Mutation { key: vec![9], value: vec![1] }] }] };
    assert!(check_set(&set).is_ok());
    let pred = Arc::new(contract.predicates[0].clone());
    let get_predicate = move |_: &PredicateAddress| pred.clone();
    let programs: HashMap<ContentAddress, Arc<Program>> = vec![(prog_ca, Arc::new(prog))].into_iter().collect();
    let r = solution::check_and_compute_solution_set(&State::EMPTY, set, get_predicate, Arc::new(programs),
        Arc::new(solution::CheckPredicateConfig::default()), Default::default(), &mut Default::default());
    match r {
        Ok((_, out)) => assert!(check_set(&out).is_ok(), "returned set violates the one-mutation-per-slot rule: {:?}", out.solutions[0].state_mutations),
        Err(_) => (), // rejecting the duplicate is fine
    }
}
