// Demonstration for known_findings "fixed: C05 jump_if abs": add to crates/vm/src/total_control_flow/tests.rs
// Fails (panic: attempt to negate with overflow, debug build) before the fix commit, passes after.
#[test]
fn verif_jump_if_min() {
    let mut stack = crate::Stack::default();
    stack.push(i64::MIN).unwrap();
    stack.push(1).unwrap();
    let r = crate::total_control_flow::jump_if(&mut stack, 5);
    assert!(r.is_err());
}
