// Demonstration for "fixed: C15 analyze misses the post-state reads": place as crates/asm/tests/verif_c15_analyze_post.rs
use essential_asm::{effects::{analyze, Effects}, Op, StateRead};

#[test]
fn verif_analyze_reports_post_state_reads() {
    assert_eq!(analyze(&[Op::StateRead(StateRead::PostKeyRange)]), Effects::PostKeyRange);
    assert_eq!(analyze(&[Op::StateRead(StateRead::PostKeyRangeExtern)]), Effects::PostKeyRangeExtern);
    assert_eq!(
        analyze(&[Op::StateRead(StateRead::KeyRange), Op::StateRead(StateRead::PostKeyRangeExtern)]),
        Effects::KeyRange | Effects::PostKeyRangeExtern
    );
}
