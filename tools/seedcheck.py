#!/usr/bin/env python3
"""seedcheck.py <seed-dir> <property> <name>

Validates a seeded change produced by a sub-agent and runs our check against it:
 1. in a scratch worktree of /repo HEAD: the patch applies, the workspace builds, the existing suite passes with it,
    the demonstration fails with it and passes without it;
 2. applies the patch to /repo, runs ./check <property>, and restores /repo (git checkout -- .).
Writes /verif/seeded/<name>/{patch.diff,demo.rs,meta.json} when step 1 succeeds.
"""
import json
import os
import re
import shutil
import subprocess
import sys

ROOT = os.path.dirname(os.path.dirname(os.path.abspath(__file__)))
LANE = os.environ.get('SEED_LANE', '0')
WT = '/var/tmp/seedlane-%s' % LANE
TGT = '/var/tmp/seedlane-%s-target' % LANE


def sh(cmd, cwd=None, env=None, timeout=3600):
    e = dict(os.environ, CARGO_TARGET_DIR=TGT, CARGO_NET_OFFLINE='true')
    if env:
        e.update(env)
    p = subprocess.run(cmd, shell=True, cwd=cwd, env=e, capture_output=True, text=True, timeout=timeout)
    return p.returncode, p.stdout + p.stderr


def suite_counts(out):
    p = f = 0
    for m in re.finditer(r'test result: \w+\. (\d+) passed; (\d+) failed', out):
        p += int(m.group(1))
        f += int(m.group(2))
    return p, f


def main():
    seed, prop, name = sys.argv[1], sys.argv[2], sys.argv[3]
    only_check = '--only-check' in sys.argv
    patch = os.path.join(seed, 'patch.diff')
    demo = os.path.join(seed, 'demo.rs')
    demo_path = ''
    if not only_check:
        where = open(os.path.join(seed, 'demo_where.txt')).read()
        cands = [c for c in re.findall(r'(crates/[\w\-/]+\.rs)', where) if not c.endswith('util.rs')]
        demo_path = cands[0]
    meta = {'property': prop, 'source': seed, 'demo_file': demo_path}
    out_dir = os.path.join(ROOT, 'seeded', name)
    if not only_check:
        if os.path.exists(WT):
            sh('git -C /repo worktree remove --force ' + WT)
        rc, o = sh('git -C /repo worktree add --detach %s HEAD' % WT)
        assert rc == 0, o
        try:
            rc, o = sh('git apply --check %s && git apply %s' % (patch, patch), cwd=WT)
            if rc != 0:
                print('PATCH DOES NOT APPLY', o)
                return 3
            rc, o = sh('cargo test --workspace --offline 2>&1', cwd=WT)
            p, f = suite_counts(o)
            meta['suite_with_patch'] = {'passed': p, 'failed': f, 'rc': rc}
            print('suite with patch: passed=%d failed=%d rc=%d' % (p, f, rc))
            if rc != 0 or f != 0 or p != 246:
                print(o[-3000:])
                print('EXISTING SUITE DOES NOT PASS WITH PATCH (or count != 246)')
                return 4
            # demo with patch
            dst = os.path.join(WT, demo_path)
            appended = os.path.exists(dst)
            if appended:
                with open(dst, 'a') as fh:
                    fh.write('\n' + open(demo).read())
            else:
                os.makedirs(os.path.dirname(dst), exist_ok=True)
                shutil.copy(demo, dst)
            crate = demo_path.split('/')[1]
            pkg = {'vm': 'essential-vm', 'types': 'essential-types', 'check': 'essential-check', 'asm': 'essential-asm', 'hash': 'essential-hash',
                   'sign': 'essential-sign', 'asm-spec': 'essential-asm-spec', 'asm-gen': 'essential-asm-gen', 'lock': 'essential-lock'}[crate]
            if '/tests/' in demo_path:
                tname = os.path.basename(demo_path)[:-3]
                cmd = 'cargo test -p %s --offline --test %s 2>&1' % (pkg, tname)
            else:
                cmd = 'cargo test -p %s --offline --lib 2>&1' % pkg
            rc1, o1 = sh(cmd, cwd=WT)
            p1, f1 = suite_counts(o1)
            meta['demo_cmd'] = cmd
            meta['demo_with_patch'] = {'rc': rc1, 'passed': p1, 'failed': f1}
            print('demo with patch: rc=%d passed=%d failed=%d' % (rc1, p1, f1))
            # revert patch only
            rc, o = sh('git apply -R %s' % patch, cwd=WT)
            assert rc == 0, o
            rc2, o2 = sh(cmd, cwd=WT)
            p2, f2 = suite_counts(o2)
            meta['demo_without_patch'] = {'rc': rc2, 'passed': p2, 'failed': f2}
            print('demo without patch: rc=%d passed=%d failed=%d' % (rc2, p2, f2))
            if not (rc1 != 0 and rc2 == 0):
                print('DEMONSTRATION DOES NOT DISCRIMINATE')
                print(o1[-1500:])
                print(o2[-1500:])
                return 5
        finally:
            sh('git -C /repo worktree remove --force ' + WT)
        os.makedirs(out_dir, exist_ok=True)
        shutil.copy(patch, os.path.join(out_dir, 'patch.diff'))
        shutil.copy(demo, os.path.join(out_dir, 'demo.rs'))
        notes = os.path.join(seed, 'notes.md')
        if os.path.exists(notes):
            meta['needs'] = open(notes).read()[:1500]
    else:
        if os.path.exists(os.path.join(out_dir, 'meta.json')):
            meta = json.load(open(os.path.join(out_dir, 'meta.json')))
    # ---- our check against a patched scratch worktree of /repo HEAD (VERIF_REPO), so that /repo itself is never touched
    if os.path.exists(WT):
        sh('git -C /repo worktree remove --force ' + WT)
    rc, o = sh('git -C /repo worktree add --detach %s HEAD' % WT)
    assert rc == 0, o
    try:
        rc, o = sh('git apply ' + os.path.join(out_dir, 'patch.diff'), cwd=WT)
        assert rc == 0, o
        rc, o = sh('./check %s 2>&1' % prop, cwd=ROOT, env={'VERIF_REPO': WT, 'VERIF_CACHE_DIR': '/var/tmp/seedlane-%s-cache' % LANE,
                                                           'VERIF_EVIDENCE_DIR': '/var/tmp/seedlane-%s-evidence' % LANE, 'VERIF_REPLAY_DIR': '/var/tmp/seedlane-%s-replay' % LANE})
    finally:
        sh('git -C /repo worktree remove --force ' + WT)
    lines = [l for l in o.split('\n') if l.startswith(('VIOLATION', 'OK ', 'UNDECIDED', 'KNOWN'))]
    print('check rc=%d' % rc)
    for l in lines[:8]:
        print('   ', l[:300])
    meta['check'] = {'cmd': './check ' + prop, 'rc': rc, 'lines': lines[:8], 'detected': rc == 1}
    meta['ran'] = ['cargo test --workspace --offline (existing suite, with patch)', meta.get('demo_cmd', ''), './check ' + prop]
    with open(os.path.join(out_dir, 'meta.json'), 'w') as fh:
        json.dump(meta, fh, indent=1)
    return 0 if rc == 1 else 1


if __name__ == '__main__':
    sys.exit(main())
