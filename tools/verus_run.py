"""Run Verus on an emitted unit and map the results back to labelled functions / obligations."""
import glob
import json
import os
import re
import shutil
import subprocess
import time

VERUS = shutil.which('verus') or 'verus'
SEMANTIC = ('postcondition not satisfied', 'precondition not satisfied', 'assertion failed', 'invariant not satisfied',
            'possible arithmetic underflow/overflow', 'possible division by zero', 'index out of bounds',
            'possible bit shift underflow/overflow', 'unreachable', 'recommendation not met', 'decreases not satisfied',
            'loop invariant', 'might not be', 'possible', 'failed', 'not satisfied', 'could not prove termination',
            'cannot show', 'unable to prove', 'not met', 'fails to satisfy', 'value may be out of range', 'call to', 'panic')
RESOURCE = ('Resource limit', 'rlimit', 'timed out', 'timeout', 'solver')


FN_KINDS = ('fn', 'canary', 'assumed', 'traitfn', 'lemma')


class FnResult:
    def __init__(self, label, kind):
        self.label, self.kind = label, kind
        self.errors = []       # list of dict(message, line, text, resource)
        self.obligations = 0
        self.time_ms = None
        self.rlimit = None
        self.verus_name = None
        self.success_flag = None

    @property
    def ok(self):
        return not self.errors


class UnitResult:
    def __init__(self):
        self.fns = {}          # label -> FnResult
        self.fatal = None      # compile-level failure text (undecided)
        self.verified = self.n_errors = 0
        self.wall_s = 0.0
        self.smt_ms = 0
        self.cmd = ''
        self.unmapped = []
        self.version = ''
        self.file = ''


def _label_at(table, line):
    best = None
    for e in table:
        if e['lo'] <= line <= e['hi']:
            if best is None or (e['hi'] - e['lo']) < (best['hi'] - best['lo']):
                best = e
    return best


def run(unit_name, text, table, workdir, rlimit=None, extra=(), count_obligations=True, threads=None):
    os.makedirs(workdir, exist_ok=True)
    path = os.path.join(workdir, unit_name + '.rs')
    with open(path, 'w') as f:
        f.write(text)
    logdir = os.path.join(workdir, unit_name + '.log')
    shutil.rmtree(logdir, ignore_errors=True)
    cmd = [VERUS, unit_name + '.rs', '--output-json', '--time-expanded', '--error-format=json', '--multiple-errors', '8',
           '--num-threads', str(threads or min(16, os.cpu_count() or 4))]
    if count_obligations:
        cmd += ['--log-dir', logdir, '--log', 'air-final']
    if rlimit:
        cmd += ['--rlimit', str(rlimit)]
    cmd += list(extra)
    res = UnitResult()
    res.cmd = ' '.join(cmd)
    res.file = path
    t0 = time.time()
    p = subprocess.run(cmd, cwd=workdir, capture_output=True, text=True)
    res.wall_s = time.time() - t0
    lines = text.split('\n')
    for e in table:
        if e['kind'] in FN_KINDS:
            res.fns[e['label']] = FnResult(e['label'], e['kind'])
    # ---- stdout: json summary
    out = None
    try:
        out = json.loads(p.stdout)
    except Exception:
        pass
    diags = []
    for ln in p.stderr.split('\n'):
        ln = ln.strip()
        if ln.startswith('{'):
            try:
                diags.append(json.loads(ln))
            except Exception:
                pass
    hard = []
    for d in diags:
        if d.get('level') != 'error':
            continue
        msg = d.get('message', '')
        if msg.startswith('aborting due to'):
            continue
        spans = d.get('spans') or []
        prim = [s for s in spans if s.get('is_primary')] or spans
        # for postconditions the primary span is the ensures clause; the function is found through any span
        ent = None
        clause = ''
        line = None
        for s in prim + spans:
            if s.get('file_name', '').endswith(unit_name + '.rs'):
                e2 = _label_at(table, s['line_start'])
                if e2 is not None:
                    ent = e2
                    line = s['line_start']
                    clause = ' '.join(x.get('text', '').strip() for x in s.get('text', []))[:240]
                    break
        sites = []
        for s in spans:
            if s.get('file_name', '').endswith(unit_name + '.rs'):
                sites.append({'line': s['line_start'], 'text': ' '.join(x.get('text', '').strip() for x in s.get('text', []))[:200],
                              'label': s.get('label')})
        rec = {'message': msg, 'line': line, 'clause': clause, 'sites': sites,
               'resource': any(k.lower() in msg.lower() for k in RESOURCE),
               'rendered': (d.get('rendered') or '')[:1500]}
        rec['code'] = (d.get('code') or {}).get('code') if isinstance(d.get('code'), dict) else d.get('code')
        if rec['resource'] and ent is not None and ent['kind'] in FN_KINDS:
            # `function body check: Resource limit (rlimit) exceeded`: the function is NOT verified (undecided, never a verdict)
            res.fns[ent['label']].errors.append(rec)
        elif rec['code'] or not any(k in msg for k in SEMANTIC + RESOURCE) or msg.startswith('function body check'):
            # rustc / Verus front-end rejection or an unclassified message: never a verdict
            if not (msg.startswith('function body check') and not rec['resource']):
                hard.append(rec)
        elif ent is None or ent['kind'] not in FN_KINDS:
            hard.append(rec)
        else:
            res.fns[ent['label']].errors.append(rec)
    vr = (out or {}).get('verification-results', {})
    res.verified = vr.get('verified', 0)
    res.n_errors = vr.get('errors', 0)
    res.version = ((out or {}).get('verus') or {}).get('version', '') if out else ''
    if out is None or vr.get('encountered-vir-error') or (not vr and p.returncode != 0):
        res.fatal = 'verus did not produce verification results (rc=%s): %s' % (
            p.returncode, '; '.join(h['message'] for h in hard)[:2000] or p.stderr[-2000:])
    elif hard:
        # errors outside any labelled function (spec text, prelude): treat as fatal/undecided
        sem = list(hard)
        if sem:
            res.fatal = 'errors outside labelled functions: ' + '; '.join('%s @%s' % (h['message'], h['line']) for h in sem)[:2000]
    res.unmapped = hard
    # ---- times per function
    try:
        tm = out['times-ms']
        res.smt_ms = tm.get('smt', {}).get('total', 0)
        for mod in tm['smt']['smt-run-module-times']:
            for fb in mod.get('function-breakdown', []):
                nm = fb['function']
                short = nm.split('::', 1)[1] if '::' in nm else nm
                for lab, fr in res.fns.items():
                    if lab == short or lab.replace('::', '::') == short:
                        fr.time_ms = fb.get('time')
                        fr.rlimit = fb.get('rlimit')
                        fr.success_flag = fb.get('success')
                        fr.verus_name = nm
    except Exception:
        pass
    # ---- obligations per function: count the (location ...) goals Verus generated inside each
    # `;; Function-Def <name>` block of the per-module AIR logs
    if count_obligations and os.path.isdir(logdir):
        for fpath in glob.glob(os.path.join(logdir, '*-final.air')):
            try:
                with open(fpath, errors='replace') as f:
                    data = f.read()
            except Exception:
                continue
            cur = None
            for ln in data.split('\n'):
                if ln.startswith(';; Function-'):
                    m = re.match(r';; Function-(Def|Recommends|Decl|Specs|Axioms|Termination)\s+(\S+)', ln)
                    cur = None
                    if m and m.group(1) in ('Def', 'Termination'):
                        nm = m.group(2)
                        short = nm.split('::', 1)[1] if '::' in nm else nm
                        cur = res.fns.get(short)
                elif cur is not None and '(location' in ln:
                    cur.obligations += len(re.findall(r'(?<![A-Za-z_])\(location\b', ln))
        shutil.rmtree(logdir, ignore_errors=True)
    return res
