#!/bin/bash
# re-run the registered check against every kept seed (seeded/<name>) in lane $1 of $2 lanes; updates seeded/<name>/meta.json
lane=$1; lanes=$2; export SEED_LANE=r$lane
i=0
for d in /verif/seeded/*/; do
  name=$(basename $d); i=$((i+1))
  [ $((i % lanes)) -eq $((lane % lanes)) ] || continue
  prop=$(python3 -c "import json;print(json.load(open('$d/meta.json'))['property'])")
  echo "=== $name ($prop)"
  python3 /verif/tools/seedcheck.py $d $prop $name --only-check 2>&1 | grep -v conda | tail -4
done
