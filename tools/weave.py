"""Extractor + contract weaver.

Copies the text of real items out of /repo's current working tree, applies the small fixed list of
syntactic rewrites documented in DESIGN.md §2.1 (each application is logged), weaves contract
clauses (requires / ensures / invariant / decreases / proof hints) *around* the executable text and
emits one Verus file per unit.  The executable statements are never edited by a spec, only by the
logged rewrite rules.
"""
import hashlib
import os
import re
import sys

sys.path.insert(0, os.path.dirname(os.path.abspath(__file__)))
from rustlex import SourceFile, lex, match_close, norm, LexError, OPEN  # noqa: E402


class Undecided(Exception):
    """Extraction cannot be done faithfully (lost anchor, unknown construct): check exits 2."""


DROP_ATTRS = ('inline', 'doc', 'error', 'from', 'serde', 'rustfmt', 'cfg_attr', 'must_use', 'allow',
              'deny', 'source', 'schemars', 'automatically_derived', 'non_exhaustive', 'repr')
KEEP_DERIVES = ('Clone', 'Copy', 'PartialEq', 'Eq', 'PartialOrd', 'Ord', 'Hash', 'Default')
CFG_DROP = ('cfg ( test )', 'cfg ( feature = "tracing" )')


class Edits:
    """A set of non-overlapping (start, end, replacement) edits over a char range of a file."""

    def __init__(self, sf, lo_char, hi_char):
        self.sf, self.lo, self.hi = sf, lo_char, hi_char
        self.edits = []

    def add(self, s, e, rep):
        assert self.lo <= s <= e <= self.hi, (self.lo, s, e, self.hi)
        self.edits.append((s, e, rep))

    def render(self):
        out, pos = [], self.lo
        for s, e, rep in sorted(self.edits, key=lambda x: (x[0], x[1])):
            if s < pos:
                raise Undecided('overlapping rewrites in %s at %d' % (self.sf.path, s))
            out.append(self.sf.text[pos:s])
            out.append(rep)
            pos = e
        out.append(self.sf.text[pos:self.hi])
        return ''.join(out)


def _find_seq(toks, lo, hi, pat):
    """All start indices in toks[lo:hi] where the token texts equal pat (list of str)."""
    res = []
    n = len(pat)
    for i in range(lo, hi - n + 1):
        if toks[i].text == pat[0]:
            ok = True
            for k in range(1, n):
                if toks[i + k].text != pat[k]:
                    ok = False
                    break
            if ok:
                res.append(i)
    return res


def _stmt_end(toks, i, hi):
    """Index one past the end of the statement starting at token i (ends at `;` on depth 0,
    or at the closing brace of a leading block-like expression)."""
    j = i
    while j < hi:
        t = toks[j]
        if t.kind == 'punct':
            if t.text == ';':
                return j + 1
            if t.text in OPEN:
                e = match_close(toks, j)
                if t.text == '{' and (e + 1 >= hi or toks[e + 1].text not in (';', '.', '?', ')')):
                    # block statement without trailing `;`
                    if e + 1 < hi and toks[e + 1].text == 'else':
                        j = e + 1
                        continue
                    return e + 1
                j = e
        j += 1
    return hi


class Log:
    def __init__(self):
        self.rewrites = []   # dicts: rule, where, before, after
        self.escapes = []    # assumed contracts / external bodies
        self.sources = {}    # fn id -> sha256 of extracted text

    def rw(self, rule, where, before, after):
        self.rewrites.append({'rule': rule, 'where': where, 'before': before.strip()[:160], 'after': after.strip()[:160]})


def generic_attr_edits(sf, lo, hi, ed, log, where, drop_derives=()):
    """D1: drop/trim attributes in token range [lo,hi)."""
    toks = sf.toks
    i = lo
    while i < hi:
        if toks[i].text == '#' and i + 1 < hi and toks[i + 1].text == '[':
            e = match_close(toks, i + 1)
            inner = norm(toks, i + 2, e)
            name = toks[i + 2].text
            s_char, e_char = toks[i].start, toks[e].end
            if inner in CFG_DROP:
                se = _stmt_end(toks, e + 1, hi)
                ed.add(s_char, toks[se - 1].end, '')
                log.rw('D1', where, sf.text[s_char:toks[se - 1].end], '')
                i = se
                continue
            if name == 'derive':
                names = [toks[k].text for k in range(i + 4, e - 1) if toks[k].kind == 'ident']
                # handle paths like serde::Serialize: keep only last segments that are in KEEP
                keep = [n for n in names if n in KEEP_DERIVES and n not in drop_derives]
                rep = ('#[derive(%s)]' % ', '.join(keep)) if keep else ''
                if rep != sf.text[s_char:e_char]:
                    ed.add(s_char, e_char, rep)
                    log.rw('D1', where, sf.text[s_char:e_char], rep)
            elif name in DROP_ATTRS:
                ed.add(s_char, e_char, '')
                if name not in ('doc', 'inline'):
                    log.rw('D1', where, sf.text[s_char:e_char], '')
            elif name in ('cfg', 'verifier', 'verus'):
                raise Undecided('%s: unsupported attribute #[%s]' % (where, inner))
            else:
                raise Undecided('%s: unknown attribute #[%s]' % (where, inner))
            i = e + 1
            continue
        i += 1


def closure_underscore_edits(sf, lo, hi, ed, log, where, protected=()):
    """R1 (subset, automatic): closure parameter `_` gets a name."""
    toks = sf.toks
    n = 0
    for i in range(lo, hi - 2):
        if any(a <= i < b for a, b in protected):
            continue
        if toks[i].text == '|' and toks[i + 1].text == '_' and toks[i + 2].text == '|':
            prev = toks[i - 1].text if i > lo else ''
            if prev in ('(', ',', '=', '{', ';', 'move', 'return') or prev == '=>':
                ed.add(toks[i + 1].start, toks[i + 1].end, '_e%d' % n)
                log.rw('R1', where, '|_|', '|_e%d|' % n)
                n += 1


def auto_array_let_edits(sf, lo, hi, ed, log, where, protected=()):
    """R2 (automatic): `let [a, b, ..] = e;` (irrefutable array pattern of plain identifiers) becomes
    `let __aN = e; let a = __aN[0]; let b = __aN[1]; ..`"""
    toks = sf.toks
    n = 0
    i = lo
    while i < hi - 4:
        if toks[i].text == 'let' and toks[i + 1].text == '[' and not any(a <= i < b for a, b in protected):
            e = match_close(toks, i + 1)
            names = []
            ok = True
            k = i + 2
            while k < e:
                if toks[k].kind == 'ident' and toks[k].text not in ('mut', 'ref'):
                    names.append(toks[k].text)
                elif toks[k].text != ',':
                    ok = False
                k += 1
            if ok and names and toks[e + 1].text == '=':
                # statement end
                j = e + 2
                while j < hi:
                    t = toks[j]
                    if t.kind == 'punct':
                        if t.text == ';':
                            break
                        if t.text in OPEN:
                            j = match_close(toks, j)
                    j += 1
                tmp = '__a%d' % n
                n += 1
                ed.add(toks[i + 1].start, toks[e].end, tmp)
                ed.add(toks[j].end, toks[j].end, ' ' + ' '.join('let %s = %s[%d];' % (nm, tmp, ix) for ix, nm in enumerate(names)))
                log.rw('R2', where, sf.text[toks[i].start:toks[e].end], 'let %s = ..; let %s = %s[i];' % (tmp, '/'.join(names), tmp))
                i = j
        i += 1


def auto_ctor_fn_edits(sf, lo, hi, ed, log, where, protected=()):
    """R7 (automatic): a tuple-variant constructor (or Some/Ok/Err) passed as a function value to map / map_err
    is eta-expanded: `.map_err(E::V)` -> `.map_err(|e__| E::V(e__))`."""
    toks = sf.toks
    i = lo
    while i < hi - 3:
        if toks[i].kind == 'ident' and toks[i].text in ('map', 'map_err') and toks[i - 1].text == '.' and toks[i + 1].text == '(' \
                and not any(a <= i < b for a, b in protected):
            e = match_close(toks, i + 1)
            inner = toks[i + 2:e]
            ok = len(inner) >= 1 and all((t.kind == 'ident') or t.text == '::' for t in inner) and inner[-1].kind == 'ident' \
                and inner[-1].text[:1].isupper() and (len(inner) >= 3 or inner[-1].text in ('Some', 'Ok', 'Err'))
            if ok:
                path = sf.text[inner[0].start:inner[-1].end]
                ed.add(inner[0].start, inner[-1].end, '|e__| %s(e__)' % path)
                log.rw('R7', where, '.%s(%s)' % (toks[i].text, path), '.%s(|e__| %s(e__))' % (toks[i].text, path))
            i = e
        i += 1


def auto_and_then_edits(sf, lo, hi, ed, log, where, protected):
    """R12 (only when requested by the spec): `let x = RECV.and_then(|p| BODY);` where the closure captures a `&mut` (outside Verus)
    becomes `let x = match RECV { Ok(p) => BODY, Err(e__) => Err(e__) };` - the definition of Result::and_then in std."""
    toks = sf.toks
    i = lo
    while i < hi - 4:
        if toks[i].text == 'and_then' and toks[i - 1].text == '.' and toks[i + 1].text == '(' and toks[i + 2].text == '|':
            e = match_close(toks, i + 1)
            if not (toks[e + 1].text == ';' or (toks[e + 1].text == '?' and toks[e + 2].text == ';')):
                raise Undecided('%s: R12 needs `.and_then(..)` to end a statement (`;` or `?;`)' % where)
            # closure parameter: a single identifier
            if not (toks[i + 3].kind == 'ident' and toks[i + 4].text == '|'):
                raise Undecided('%s: R12 needs a single-identifier closure parameter' % where)
            # receiver: back to the `=` of the enclosing let (depth 0)
            k = i - 2
            depth = 0
            while k > lo:
                t = toks[k].text
                if t in (')', ']', '}'):
                    depth += 1
                elif t in ('(', '[', '{'):
                    if depth == 0:
                        break       # start of the enclosing block: the receiver starts an expression statement
                    depth -= 1
                elif t == '=' and depth == 0:
                    break
                elif t == ';' and depth == 0:
                    break           # expression statement `RECV.and_then(..)?;`
                k -= 1
            recv_lo = k + 1
            param = toks[i + 3].text
            ed.add(toks[recv_lo].start, toks[recv_lo].start, 'match ')
            ed.add(toks[i - 1].start, toks[i + 4].end, ' { Ok(%s) => ' % param)
            ed.add(toks[e].start, toks[e].end, ', Err(e__) => Err(e__) }')
            protected.append((i - 1, i + 5))
            log.rw('R12', where, '.and_then(|%s| ..)' % param, 'match .. { Ok(%s) => .., Err(e__) => Err(e__) }  (definition of Result::and_then)' % param)
            i = e
        i += 1


def auto_enumerate_edits(sf, lo, hi, ed, log, where, protected):
    """R13 (only when requested by the spec): `for (I, X) in EXPR.enumerate() { BODY }` (I, X plain identifiers, BODY without `continue`)
    becomes `let mut I: usize = 0; for X in EXPR { BODY ; I = I + 1; }` - the definition of Iterator::enumerate (a counter starting at 0,
    incremented once per item).  `.enumerate()` is a provided trait method that cannot be given a Verus specification from outside vstd.
    The added `I + 1` carries an overflow obligation of its own (discharged from the loop invariant `I == iterator index`)."""
    toks = sf.toks
    i = lo
    n = 0
    while i < hi - 8:
        if toks[i].text == 'for' and toks[i + 1].text == '(' and toks[i + 2].kind == 'ident' and toks[i + 3].text == ',' \
                and toks[i + 4].kind == 'ident' and toks[i + 5].text == ')' and toks[i + 6].text == 'in':
            j = i + 7
            while j < hi and toks[j].text != '{':
                if toks[j].text in ('(', '['):
                    j = match_close(toks, j)
                j += 1
            if j >= hi or not (toks[j - 1].text == ')' and toks[j - 2].text == '(' and toks[j - 3].text == 'enumerate' and toks[j - 4].text == '.'):
                i += 1
                continue
            be = match_close(toks, j)
            if any(toks[k].text == 'continue' for k in range(j, be)):
                raise Undecided('%s: R13 cannot desugar an enumerate loop whose body contains `continue`' % where)
            ivar, xvar = toks[i + 2].text, toks[i + 4].text
            if ivar == '_' or xvar == '_':
                raise Undecided('%s: R13 needs named enumerate bindings' % where)
            ed.add(toks[i].start, toks[i].start, 'let mut %s: usize = 0; ' % ivar)
            ed.add(toks[i + 1].start, toks[i + 5].end, xvar)
            ed.add(toks[j - 4].start, toks[j - 1].end, '')
            ed.add(toks[be].start, toks[be].start, '; %s = %s + 1; ' % (ivar, ivar))
            protected.append((i + 1, i + 6))
            log.rw('R13', where, 'for (%s, %s) in ...enumerate() { .. }' % (ivar, xvar),
                   'let mut %s: usize = 0; for %s in ... { .. ; %s = %s + 1; }  (definition of Iterator::enumerate)' % (ivar, xvar, ivar, ivar))
            n += 1
        i += 1
    if n == 0:
        log.rw('R13-skipped', where, '.enumerate()', '(no enumerate loop in current source)')


def loop_sites(sf, lo, hi):
    """Token indices of the body `{` of each loop (while / for / loop) in [lo,hi), in source order."""
    toks = sf.toks
    sites = []
    i = lo
    while i < hi:
        t = toks[i]
        if t.kind == 'ident' and t.text in ('while', 'for', 'loop'):
            if t.text == 'for' and toks[i + 1].text == '<':
                i += 1
                continue
            j = i + 1
            while j < hi:
                tj = toks[j]
                if tj.kind == 'punct':
                    if tj.text == '{':
                        sites.append((i, j))
                        break
                    if tj.text in ('(', '['):
                        j = match_close(toks, j)
                j += 1
        i += 1
    return sites


def closure_sites(sf, lo, hi):
    """Token index of the body start of each closure (`|args| body` or `move |args| body`) in order.
    Returns (bar_open_index, bar_close_index)."""
    toks = sf.toks
    sites = []
    i = lo
    while i < hi:
        t = toks[i]
        if t.text in ('|', '||') and t.kind == 'punct':
            prev = toks[i - 1].text if i > lo else ''
            if prev in ('(', ',', '=', '{', ';', 'move', 'return', '=>'):
                if t.text == '||':
                    sites.append((i, i))
                else:
                    j = i + 1
                    while j < hi and toks[j].text != '|':
                        if toks[j].text in OPEN:
                            j = match_close(toks, j)
                        j += 1
                    sites.append((i, j))
                    i = j
        i += 1
    return sites


class FnSpec:
    def __init__(self, name, requires=None, ensures=None, decreases=None, ret='r', loops=None, hints=None,
                 rewrites=None, mode='verify', props=(), canary=None, attrs=None, closures=None,
                 head_proof=None, note=None, rename=None, no_unwind=False, params=None, head_ghost=None, nested=None,
                 inline_and_then=False, desugar_enumerate=False):
        self.name = name
        self.requires, self.ensures, self.decreases = requires, ensures, decreases
        self.ret = ret
        self.loops = loops or {}
        self.hints = hints or []          # (anchor, 'after'|'before', text)
        self.rewrites = rewrites or []    # (rule, before, after)
        self.mode = mode                  # verify | assumed (external_body + contract) | plain (no contract)
        self.props = tuple(props)
        self.canary = canary
        self.attrs = attrs or []
        self.closures = closures or {}    # ordinal -> {'requires':..,'ensures':..}
        self.head_proof = head_proof      # proof text inserted as first statement of the body
        self.note = note
        self.rename = rename
        self.no_unwind = no_unwind
        self.params = params              # {param name: new pattern}  (rarely needed)
        self.head_ghost = head_ghost      # ghost `let` statements inserted at the start of the body (spec-only)
        self.inline_and_then = inline_and_then
        self.desugar_enumerate = desugar_enumerate
        self.nested = nested or {}        # contracts of fn items nested in the body: name -> {'ret', 'requires', 'ensures'}


def weave_fn(sf, it, spec, log, where, canary=False):
    """Return the Verus text for fn item `it` with `spec` woven in."""
    toks = sf.toks
    if it.body_lo is None:
        # trait method declaration without body
        ed = Edits(sf, toks[it.attr_lo].start, toks[it.hi - 1].end)
        generic_attr_edits(sf, it.attr_lo, it.hi, ed, log, where)
        if spec and (spec.requires or spec.ensures):
            semi = toks[it.hi - 1]
            _name_ret(sf, it, it.hi - 1, spec, ed, log, where)
            ed.add(semi.start, semi.start, _contract_text(spec, canary))
        return ed.render()
    ed = Edits(sf, toks[it.attr_lo].start, toks[it.hi - 1].end)
    sig_only = spec is not None and spec.mode == 'assumed_sig'   # the body is dropped: no edit may touch it
    generic_attr_edits(sf, it.attr_lo, it.body_lo if sig_only else it.hi, ed, log, where)
    body_open = toks[it.body_lo]
    protected = []
    # declared rewrites (R1/R2/R3/R7...) : token-sequence match, exactly once (or every occurrence with 'all')
    for rw in (spec.rewrites if spec is not None else []):
        rule, before, after = rw[0], rw[1], rw[2]
        every = len(rw) > 3 and rw[3] == 'all'
        pat = [t.text for t in lex(before)]
        hits = _find_seq(toks, it.kw, it.hi, pat)
        if not hits:
            # the text this rewrite was written for is gone (the code changed): do not rewrite, let Verus judge the new text
            if not canary:
                log.rw(rule + '-skipped', where, before, '(anchor absent in current source: rewrite not applied)')
            continue
        if len(hits) != 1 and not every:
            raise Undecided('%s: rewrite %s anchor %r matched %d times' % (where, rule, before, len(hits)))
        for h in hits:
            ed.add(toks[h].start, toks[h + len(pat) - 1].end, after)
            protected.append((h, h + len(pat)))
        if not canary:
            log.rw(rule, where, before + (' (x%d)' % len(hits) if every else ''), after)
    if spec is None:
        closure_underscore_edits(sf, it.body_lo, it.body_hi, ed, log, where, protected)
        auto_array_let_edits(sf, it.body_lo, it.body_hi, ed, log, where, protected)
        auto_ctor_fn_edits(sf, it.body_lo, it.body_hi, ed, log, where, protected)
        return ed.render()
    # R10: alpha-renaming of a parameter (Verus rejects a contract on `fn f(.., f: T)`)
    for old_name, new_name in (spec.params or {}).items():
        cnt = 0
        for k in range(it.kw + 2, it.body_lo if sig_only else it.hi):
            t = toks[k]
            if t.kind == 'ident' and t.text == old_name and toks[k - 1].text not in ('.', '::') and toks[k + 1].text not in ('(', '::'):
                ed.add(t.start, t.end, new_name)
                cnt += 1
        if cnt == 0:
            raise Undecided('%s: parameter %s not found for renaming' % (where, old_name))
        if not canary:
            log.rw('R10', where, 'parameter `%s` (%d occurrences)' % (old_name, cnt), new_name)
    _name_ret(sf, it, it.body_lo, spec, ed, log, where)
    if canary or spec.rename:
        nm = toks[it.kw + 1]
        new = (spec.rename or spec.name) + ('__canary' if canary else '')
        ed.add(nm.start, nm.end, new)
    pre = ''
    if spec.mode in ('assumed', 'assumed_sig'):
        pre += '#[verifier::external_body] '
    if spec.mode == 'assumed_sig':
        # the body cannot even be compiled inside the unit (external crates): it is dropped, only the signature and the
        # assumed contract remain.  Reported as NOT verified.
        ed.add(body_open.end, toks[it.body_hi].start, ' unimplemented!() ')
    if spec.mode == 'external':
        pre += '#[verifier::external] '
    for a in spec.attrs:
        pre += a + ' '
    if pre:
        ed.add(toks[it.lo].start, toks[it.lo].start, pre)
    ctext = _contract_text(spec, canary)
    ed.add(body_open.start, body_open.start, ctext)
    if spec.head_ghost and spec.mode == 'verify':
        for g in spec.head_ghost.split(';'):
            if g.strip() and not g.strip().startswith('let ghost '):
                raise Undecided('%s: head_ghost may only contain `let ghost` statements' % where)
        ed.add(body_open.end, body_open.end, '\n ' + spec.head_ghost + '\n')
    if spec.head_proof and spec.mode == 'verify':
        ed.add(body_open.end, body_open.end, '\n proof { ' + spec.head_proof + ' }\n')
    # contracts of nested fn items (a fn declared inside the body is verified separately by Verus and needs its own contract)
    if spec.nested and spec.mode == 'verify':
        for nname, ns in spec.nested.items():
            hits = [k for k in range(it.body_lo + 1, it.body_hi) if toks[k].text == 'fn' and toks[k + 1].text == nname]
            if not hits:
                if not canary:
                    log.rw('nested-skipped', where, 'fn ' + nname, '(nested fn absent in current source: contract not woven)')
                continue
            if len(hits) != 1:
                raise Undecided('%s: nested fn %s found %d times' % (where, nname, len(hits)))
            k = hits[0]
            j = k + 2
            while toks[j].text != '(':
                j += 1
            j = match_close(toks, j) + 1
            while toks[j].text != '{':
                if toks[j].text in ('(', '['):
                    j = match_close(toks, j)
                j += 1
            from rustlex import Item
            pseudo = Item('fn', nname, '', k, k, k, match_close(toks, j) + 1, j, match_close(toks, j), [])
            nspec = FnSpec(nname, requires=ns.get('requires'), ensures=ns.get('ensures'), ret=ns.get('ret', 'r'))
            _name_ret(sf, pseudo, j, nspec, ed, log, where)
            ed.add(toks[j].start, toks[j].start, _contract_text(nspec, False))
    # loops
    if spec.loops and spec.mode == 'verify':
        sites = loop_sites(sf, it.body_lo + 1, it.body_hi)
        for ordinal, ls in spec.loops.items():
            if ordinal >= len(sites):
                raise Undecided('%s: loop #%d not found (%d loops)' % (where, ordinal, len(sites)))
            kwi, bi = sites[ordinal]
            txt = '\n'
            if ls.get('invariant_except_break'):
                txt += '    invariant_except_break ' + ls['invariant_except_break'].strip().rstrip(',') + ',\n'
            if ls.get('invariant'):
                txt += '    invariant ' + ls['invariant'].strip().rstrip(',') + ',\n'
            if ls.get('ensures'):
                txt += '    ensures ' + ls['ensures'].strip().rstrip(',') + ',\n'
            if ls.get('decreases'):
                txt += '    decreases ' + ls['decreases'].strip().rstrip(',') + ',\n'
            ed.add(toks[bi].start, toks[bi].start, txt)
            if ls.get('head_ghost'):
                for g in ls['head_ghost'].split(';'):
                    if g.strip() and not g.strip().startswith('let ghost '):
                        raise Undecided('%s: loop head_ghost may only contain `let ghost` statements' % where)
                ed.add(toks[bi].end, toks[bi].end, '\n ' + ls['head_ghost'] + '\n')
            if ls.get('head_proof'):
                ed.add(toks[bi].end, toks[bi].end, '\n proof { ' + ls['head_proof'] + ' }\n')
            if ls.get('after_proof'):
                be = toks[match_close(toks, bi)]
                ed.add(be.end, be.end, '\n proof { ' + ls['after_proof'] + ' }\n')
            if ls.get('tail_proof'):
                # proof block as the last statement of the loop body (the `;` closes a trailing expression statement)
                be = toks[match_close(toks, bi)]
                ed.add(be.start, be.start, '\n ; proof { ' + ls['tail_proof'] + ' }\n')
            if ls.get('iter_name'):
                # `for x in e` -> `for x in NAME: e`
                k = kwi + 1
                while toks[k].text != 'in':
                    k += 1
                ed.add(toks[k].end, toks[k].end, ' ' + ls['iter_name'] + ':')
    elif spec.mode == 'verify' and not spec.no_unwind:
        pass
    # closures: key = ordinal (int) or an anchor token sequence (str): the first closure after the anchor
    if spec.closures and spec.mode == 'verify':
        sites = closure_sites(sf, it.body_lo + 1, it.body_hi)
        for key, cs in spec.closures.items():
            if isinstance(key, int):
                if key >= len(sites):
                    raise Undecided('%s: closure #%d not found (%d closures)' % (where, key, len(sites)))
                bo, bc = sites[key]
            else:
                pat = [t.text for t in lex(key)]
                hits = _find_seq(toks, it.body_lo, it.body_hi + 1, pat)
                if len(hits) > 1:
                    raise Undecided('%s: closure anchor %r matched %d times' % (where, key, len(hits)))
                after = [x for x in sites if hits and x[0] >= hits[0] + len(pat)]
                if not hits or not after:
                    # the closure this contract was written for is gone (the code changed): nothing to weave
                    if not canary:
                        log.rw('R9-skipped', where, key, '(closure anchor absent in current source)')
                    continue
                bo, bc = after[0]
            if any(a0 <= bo < b0 for a0, b0 in protected):
                continue
            if cs.get('params') is not None:
                if bo == bc:   # `||`
                    ed.add(toks[bo].start, toks[bo].end, '|' + cs['params'] + '|')
                else:
                    ed.add(toks[bo].end, toks[bc].start, cs['params'])
                protected.append((bo, bc + 1))
            txt = ''
            if cs.get('ret'):
                txt += ' -> (' + cs['ret'] + ')'
            if cs.get('requires'):
                txt += ' requires ' + cs['requires'].strip().rstrip(',') + ','
            if cs.get('ensures'):
                txt += ' ensures ' + cs['ensures'].strip().rstrip(',') + ','
            nxt = toks[bc + 1]
            pre = cs.get('body_prefix', '')
            if nxt.text == '{':
                ed.add(nxt.start, nxt.start, txt + ' ')
                if pre:
                    ed.add(nxt.end, nxt.end, ' ' + pre + ' ')
            else:
                # expression body: wrap in a block (R9); the body ends at the first `,` `)` `;` `]` `}` on depth 0
                j = bc + 1
                while j < it.body_hi:
                    t = toks[j]
                    if t.kind == 'punct':
                        if t.text in (',', ')', ';', ']', '}'):
                            break
                        if t.text in OPEN:
                            j = match_close(toks, j)
                    j += 1
                ed.add(nxt.start, nxt.start, txt + ' { ' + (pre + ' ' if pre else ''))
                ed.add(toks[j - 1].end, toks[j - 1].end, ' }')
                if not canary:
                    log.rw('R9', where, 'closure body `%s`' % sf.text[nxt.start:toks[j - 1].end][:80], 'wrapped in a block to carry its contract')
    if spec.desugar_enumerate and spec.mode == 'verify':
        auto_enumerate_edits(sf, it.body_lo, it.body_hi, ed, log if not canary else Log(), where, protected)
    if sig_only:
        return ed.render()
    if spec.inline_and_then:
        auto_and_then_edits(sf, it.body_lo, it.body_hi, ed, log if not canary else Log(), where, protected)
    closure_underscore_edits(sf, it.body_lo, it.body_hi, ed, log, where, protected)
    auto_array_let_edits(sf, it.body_lo, it.body_hi, ed, log, where, protected)
    auto_ctor_fn_edits(sf, it.body_lo, it.body_hi, ed, log, where, protected)
    # hints
    if spec.mode == 'verify':
        for hint in spec.hints:
            anchor, pos, text = hint[0], hint[1], hint[2]
            ghost_let = len(hint) > 3 and hint[3] == 'ghost'
            if ghost_let:
                for g in text.split(';'):
                    if g.strip() and not g.strip().startswith('let ghost '):
                        raise Undecided('%s: a ghost hint may only contain `let ghost` statements' % where)
            pat = [t.text for t in lex(anchor)]
            hits = _find_seq(toks, it.body_lo, it.body_hi + 1, pat)
            if len(hits) != 1:
                raise Undecided('%s: hint anchor %r matched %d times' % (where, anchor, len(hits)))
            h = hits[0]
            if pos == 'after':
                p = toks[h + len(pat) - 1].end
            else:
                p = toks[h].start
            ed.add(p, p, ('\n ' + text + '\n') if ghost_let else ('\n proof { ' + text + ' }\n'))
    return ed.render()


def _name_ret(sf, it, sig_end, spec, ed, log, where):
    """R4: `-> T` becomes `-> (r: T)`."""
    toks = sf.toks
    # find `->` at depth 0 between kw and sig_end
    j = it.kw
    arrow = None
    while j < sig_end:
        t = toks[j]
        if t.kind == 'punct' and t.text in ('(', '['):
            j = match_close(toks, j)
        elif t.text == '->':
            arrow = j
            break
        j += 1
    if arrow is None:
        return
    # return type ends at `where` (depth 0) or sig_end
    k = arrow + 1
    end = sig_end
    depth = 0
    while k < sig_end:
        t = toks[k]
        if t.kind == 'punct' and t.text in ('(', '['):
            k = match_close(toks, k)
        elif t.text == '<':
            depth += 1
        elif t.text == '>':
            depth -= 1
        elif t.text == '>>':
            depth -= 2
        elif t.text == 'where' and depth == 0:
            end = k
            break
        k += 1
    s, e = toks[arrow + 1].start, toks[end - 1].end
    ty = sf.text[s:e]
    if ty.strip().startswith('(') and ':' in ty.split(')')[0] and not ty.strip().startswith('(('):
        return
    ed.add(s, e, '(%s: %s)' % (spec.ret, ty))


def _contract_text(spec, canary):
    out = '\n'
    if spec.requires:
        out += '    requires ' + spec.requires.strip().rstrip(',') + ',\n'
    if canary:
        out += '    ensures false,\n'
    elif spec.ensures:
        out += '    ensures ' + spec.ensures.strip().rstrip(',') + ',\n'
    if spec.decreases:
        out += '    decreases ' + spec.decreases.strip().rstrip(',') + ',\n'
    if spec.no_unwind:
        out += '    no_unwind\n'
    return out


def sha(text):
    return hashlib.sha256(text.encode()).hexdigest()[:16]
