#!/usr/bin/env python3
"""Regenerates /verif/MANIFEST.json from the table below + specs/registry.py (keeps claims and registry in step)."""
import json
import os
import sys

ROOT = os.path.dirname(os.path.dirname(os.path.abspath(__file__)))
sys.path.insert(0, os.path.join(ROOT, 'tools'))
sys.path.insert(0, os.path.join(ROOT, 'specs'))
sys.path.insert(0, os.path.join(ROOT, 'specs', 'units'))

NOTE = ('Trusted: Verus/vstd/Z3 (and Kani/CBMC where used), the reference functions of /verif/xrun for the bounded xrun checks (listed under evidence.bounded_checks, never counted as proved), extractor rewrites (DESIGN 2.1), std assume_specifications and axioms (listed by name in '
        'evidence.trusted_base), 64-bit usize; functions left unverified are listed in evidence.assumed_contracts, bounded checks in '
        'evidence.bounded_checks (never counted as proved)')
TECH = 'contract-based deductive verification (Verus on mechanically extracted real functions; Kani for complete loop-free and bounded checks; xrun small-scope execution of the real crates as bounded stand-in and replay driver)'

CLAIMS = {
    'C05': ('proof', 'Verus proof of the real VM core functions: vm_wf-style invariants as pre/postconditions plus Verus-generated no-overflow/in-bounds/no-panic goals; Vm::exec loop invariant carries the bounds to "after every executed operation"'),
    'C07': ('proof', 'Verus proof of Vm::exec: ghost trace of visited pcs and child gas; exact sum, never above the limit, no overflow, charge-before-execute assertion, termination variant for positive costs'),
    'C08': ('proof', 'Verus proof that each data op dispatcher equals its spec function written from asm.yml (=~= over whole stack/memory)'),
    'C09': ('proof', 'Verus proof of jump/halt/repeat contracts, exec path semantics (path_ok/run_end_ok) and eval'),
    'C11': ('proof', 'Verus proof of operand popping, view/contract routing and the documented memory layout (layout_k) incl. frame and no-growth'),
    'C12': ('proof', 'Verus proof of the access ops against spec functions; big-endian address words by complete Kani proofs; PredicateExists and the crypto ops only bounded: xrun vmops against SHA-256 of the documented pre-image and against the hash / sign crates on the same bytes'),
    'C06': ('proof', 'Verus proof (no precondition on untrusted arguments) of decoders, validators, overlay and graph helpers: every index/slice/unwrap/arithmetic obligation discharged'),
    'C18': ('proof', 'Verus proof that decode_mutation(s) invert the spec encoders and node_edges equals the documented sub-range; complete Kani proofs of the fixed-width conversions; encoders, hex and serde round trips (postcard / JSON / legacy names / Display-FromStr) only bounded (xrun codec)'),
    'C16': ('proof', 'Verus proof of bi-implications: validators accept exactly the documented limits; check::decode_mutations keeps one mutation per (contract, key)'),
    'C04': ('proof', 'Verus proof that set validation is a symmetric predicate of the solutions incl. one mutation per (contract,key) across the set, and that the set address is the hash of the sorted permutation of the member addresses; order independence of the two-pass verdict (incl. PredicateExists lookups) only bounded: xrun validate / graph / hash / vmops on permuted sets'),
    'C01': ('other', 'Verus proof of the graph layer (create_parent_map Ok <==> graph_ok and node -> ascending parent list with multiplicity, in_degrees, reduce_in_degrees, parallel_topo_sort: every node placed exactly once after all its parents and termination, '
                     'find_deferred == descendant closure, remove_* soundness, helpers panic-free on all graphs); '
                     'the verdict of the two-pass entry point as a whole only bounded: exhaustive execution of the real checker against the reference semantics on all graphs of <= 3 nodes and a seventh of those with 4 (xrun graph)'),
    'C03': ('other', 'Verus proof of state-read routing (vm_core), of read_or_fallback == per-key overlay of proposed values on the pre-state (all ranges, deletions, key carry) and of find_deferred == descendant closure; '
                     'next_key, post-state map construction and pass sequencing only bounded (Kani next_key all words for key lengths 0,1,2,3,4,6, thorough tier only - the quick tier relies on the key-carry cases of xrun graph; xrun graph: two-pass entry point vs reference semantics; xrun effects: the deferral byte scan)'),
    'C13': ('proof', 'Verus proof, on the macro-expanded text the proc-macro really emitted, that opcode<->byte tables, immediates, per-op parse/serialise and the byte iterators equal spec tables generated from asm.yml by an independent YAML reading; sequence round trips are Verus lemmas over those tables; comparison with the pinned opcode table; complete Kani proofs on the compiled crate; the streaming from_bytes / to_bytes adapters (from_fn / flat_map, outside Verus) additionally by a bounded stand-in: xrun asm, long streams with a Push at every byte offset, all byte strings of length <= 2, truncations, partially consumed iterators'),
    'C15': ('proof', 'Verus proof that analyze(ops) is exactly the union of the effect flags present (all slices); the bitflags API by a complete Kani proof; bytes_contains_any (outside Verus) only bounded: Kani on all well-formed byte strings up to 20 bytes x all effect sets'),
}

CLAIMS['C17'] = ('other', 'partial; bounded: xrun hash (all address helpers vs SHA-256 of the documented pre-hash encodings over the stated scope). Verus: the set address sorts its address slice in place (permutation) and sorted arrangements are unique => order independence; '
                 'from_solution_addrs, from_predicate_addrs, Program/Solution address impls and Predicate::encode delegation verified against spec functions over uninterpreted SHA-256/postcard; '
                 'predicate_encoded_size == documented size. Assumed (listed in evidence): Map/chain adapters feeding the hasher, encode_predicate layout, contract address slice function')
CLAIMS['C14'] = ('other', 'bounded only, labelled bounded: Kani on the real compiled BytecodeMapped (mapping vs a reference stream parse generated from asm.yml; random access op(i) vs the parsed list) '
                 'for all byte strings up to the stated lengths; xrun bytecode: mapped form vs parsed list and exec_bytecode vs exec_ops on every program of <= 3 ops over a 20-op palette; '
                 'beyond the bounds execution equivalence rests on Vm::exec being verified generically over OpAccess')
CLAIMS['C10'] = ('other', 'bounded only: Kani on the real compute_effects (join) through a cfg(kani) hook, concrete memory shapes with symbolic contents/gas/pcs/halts; xrun compute: Compute(n) on the real VM vs the sequential '
                 'fork/join of the property statement over 1680 parent-state x child-body x breadth cases (incl. the memory limit, nested compute, child errors); Verus contracts on Vm::exec handling of compute results; thread schedules are C02')
NA = {
    'C02': 'thread schedules: no contract on the real functions can quantify over interleavings (Kani has no threads; Verus would need a rewritten model of the rayon code)',
    'C19': 'cryptographic binding lives in FFI C (secp256k1-sys) outside both verifiers; the in-repo glue is covered under C17',
    'C20': 'mutual exclusion over all interleavings of std::sync::Mutex: same reason as C02',
}
NOT_REACHED = 'not reached yet (machinery under construction)'


def main():
    import registry
    ids = [json.loads(l)['id'] for l in open(os.path.join(ROOT, 'properties.jsonl'))]
    claimed = [p for p in ids if p in registry.PROPS and p in CLAIMS]
    checks = []
    for p in claimed:
        cat, text = CLAIMS[p]
        assert registry.PROPS[p].get('level', 'proof') == cat, (p, cat)
        checks.append({'property_id': p, 'quick_cmd': './check %s --tier quick' % p, 'thorough_cmd': './check %s --tier thorough' % p,
                       'evidence_file': '/verif/evidence/%s.json' % p, 'replay_cmd_template': './check %s --replay {path}' % p, 'engine': 'contracts',
                       'level_claimed': {'category': cat, 'text': text, 'design_ref': 'DESIGN.md 4 ' + p},
                       'level_note': NOTE + registry.PROPS[p].get('level_note_extra', ''), 'technique': registry.PROPS[p].get('technique', TECH)})
    na = [{'property_id': p, 'reason': NA.get(p, NOT_REACHED)} for p in ids if p not in claimed]
    m = {'version': 1, 'setup_cmd': './check setup',
         'hooks': {'guard': 'cfg(kani)', 'enable': 'set only by cargo-kani (it passes --cfg kani); Verus needs no hooks', 'baseline_off_cmd': 'cd /repo && cargo test --workspace --no-fail-fast --offline',
                   'source_commits': ['7d23ed0', '6e6e1e2'], 'add_only': True},
         'engines': [{'name': 'contracts', 'path': '/verif/check', 'serves_properties': claimed,
                      'kind_free_text': 'Verus contracts woven onto functions extracted from /repo each run; Kani for complete loop-free and bounded checks'}],
         'checks': checks, 'not_applicable': na, 'notes': 'exit 2 = undecided (tool limit / lost anchor), never an alarm'}
    with open(os.path.join(ROOT, 'MANIFEST.json'), 'w') as f:
        json.dump(m, f, indent=1)
    print('claimed', claimed, 'n/a', [x['property_id'] for x in na])


if __name__ == '__main__':
    main()
