#!/opt/veriftools/pyvenv/bin/python
"""Validate MANIFEST.json and evidence files against the schemas (uses the tooling venv's jsonschema if needed)."""
import json, sys, os, glob
try:
    import jsonschema
except ImportError:
    os.execv('/opt/veriftools/pyvenv/bin/python3', ['python3'] + sys.argv)
R = os.path.dirname(os.path.dirname(os.path.abspath(__file__)))
ms = json.load(open('/root/.vp/MANIFEST.schema.json')); es = json.load(open('/root/.vp/EVIDENCE.schema.json'))
m = json.load(open(os.path.join(R, 'MANIFEST.json')))
jsonschema.validate(m, ms)
ids = [json.loads(l)['id'] for l in open(os.path.join(R, 'properties.jsonl'))]
claimed = [c['property_id'] for c in m['checks']]
na = [c['property_id'] for c in m.get('not_applicable', [])]
assert sorted(claimed + na) == sorted(ids), (set(ids) - set(claimed + na), set(claimed) & set(na))
print('MANIFEST ok: claimed', claimed, 'n/a', na)
for f in glob.glob(os.path.join(R, 'evidence', '*.json')):
    jsonschema.validate(json.load(open(f)), es)
    print('evidence ok', os.path.basename(f))
