#!/bin/bash
# dev helper: emit a unit and run verus on it. usage: devrun.sh vm_core [extra verus args]
set -e
U=$1; shift
mkdir -p /var/tmp/vdev
cd /verif && python3 - "$U" <<'PY'
import sys, importlib
sys.path.insert(0,'tools'); sys.path.insert(0,'specs/units')
name=sys.argv[1]
m=importlib.import_module(name)
exp=None
u=m.build('/var/tmp/asm_expanded.rs')
text,table=u.emit()
open('/var/tmp/vdev/%s.rs'%name,'w').write(text)
print(len(text.splitlines()),'lines')
PY
cd /var/tmp/vdev && verus $U.rs "$@" 2>&1
