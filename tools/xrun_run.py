"""Build and run the executable small-scope checker / replay driver (xrun) against the real crates of the current tree.

xrun links /repo's crates (path dependencies, built from the working tree on every run, debug assertions and overflow checks on) and runs
them on every input of a stated small scope, comparing with reference functions written from the property statements.  It is a bounded check
(reported under bounded_checks, never counted as proved) and the source of concrete, replayable counterexamples.
"""
import json
import os
import shutil
import subprocess
import time

ROOT = os.path.dirname(os.path.dirname(os.path.abspath(__file__)))
REPO = os.environ.get('VERIF_REPO', '/repo')
CACHE = os.environ.get('VERIF_CACHE_DIR', '/var/tmp/verif-cache')
_built = {}


def build(scratch):
    """Returns (binary path or None, log)."""
    key = REPO
    if key in _built:
        return _built[key]
    work = os.path.join(scratch, 'xrun')
    if os.path.exists(work):
        shutil.rmtree(work)
    shutil.copytree(os.path.join(ROOT, 'xrun'), work, ignore=shutil.ignore_patterns('target'))
    ct = os.path.join(work, 'Cargo.toml')
    with open(ct) as f:
        txt = f.read()
    with open(ct, 'w') as f:
        f.write(txt.replace('"/repo/', '"%s/' % REPO.rstrip('/')))
    lock = os.path.join(REPO, 'Cargo.lock')
    if os.path.exists(lock):
        shutil.copy(lock, os.path.join(work, 'Cargo.lock'))
    target = os.path.join(CACHE, 'xrun-target')
    os.makedirs(target, exist_ok=True)
    env = dict(os.environ, CARGO_NET_OFFLINE='true', CARGO_TARGET_DIR=target)
    t0 = time.time()
    p = subprocess.run(['cargo', 'build', '--offline'], cwd=work, env=env, capture_output=True, text=True)
    log = 'cargo build (xrun) rc=%d %.0fs' % (p.returncode, time.time() - t0)
    if p.returncode != 0:
        errs = [ln for ln in p.stderr.split('\n') if ln.startswith('error')]
        _built[key] = (None, log + ': ' + '; '.join(errs[:4]) + ' | ' + p.stderr[-800:])
    else:
        # copy the binary out of the shared target dir so that a later build for another tree cannot replace it under us
        binp = os.path.join(scratch, 'verif-xrun')
        shutil.copy(os.path.join(target, 'debug', 'verif-xrun'), binp)
        _built[key] = (binp, log)
    return _built[key]


def run_suite(suite, scratch, tier, only=None, timeout_s=1500):
    """Returns dict(status, cases, failures=[{case, clause, detail}], wall_s, cmd)."""
    binp, log = build(scratch)
    rec = {'suite': suite, 'cmd': 'cd xrun && cargo build --offline && verif-xrun %s --tier %s%s' % (suite, tier, (' --only ' + only) if only else ''),
           'build': log, 'failures': [], 'cases': 0}
    if binp is None:
        rec['status'] = 'error(build: %s)' % log[:600]
        return rec
    t0 = time.time()
    cmd = [binp, suite, '--tier', tier] + (['--only', only] if only else [])
    try:
        p = subprocess.run(cmd, capture_output=True, text=True, timeout=timeout_s)
    except subprocess.TimeoutExpired:
        rec['status'] = 'timeout(%ds)' % timeout_s
        return rec
    rec['wall_s'] = round(time.time() - t0, 1)
    summary = None
    for ln in p.stdout.split('\n'):
        ln = ln.strip()
        if not ln.startswith('{'):
            continue
        try:
            d = json.loads(ln)
        except Exception:
            continue
        if d.get('summary'):
            summary = d
        elif 'case' in d:
            rec['failures'].append(d)
    if summary is None:
        rec['status'] = 'error(no summary, rc=%s): %s' % (p.returncode, (p.stderr or p.stdout)[-600:])
        return rec
    rec['cases'] = summary['cases']
    rec['n_failures'] = summary['failures']
    rec['status'] = 'failed' if summary['failures'] else 'success'
    return rec


def run_probe(name, scratch, mem_gb=3, timeout_s=20):
    """Run `verif-xrun <name>` in a subprocess under an address-space limit and a time limit.
    Returns dict(status: 'returned' | 'killed(...)' | 'error(...)', detail)."""
    import resource
    binp, log = build(scratch)
    rec = {'probe': name, 'cmd': 'verif-xrun %s (RLIMIT_AS %d GB, timeout %ds)' % (name, mem_gb, timeout_s), 'build': log}
    if binp is None:
        rec['status'] = 'error(build)'
        return rec

    def limit():
        resource.setrlimit(resource.RLIMIT_AS, (mem_gb << 30, mem_gb << 30))
    t0 = time.time()
    try:
        p = subprocess.run([binp, name], capture_output=True, text=True, timeout=timeout_s, preexec_fn=limit)
    except subprocess.TimeoutExpired:
        rec['status'] = 'killed(no result within %ds)' % timeout_s
        rec['wall_s'] = round(time.time() - t0, 1)
        return rec
    rec['wall_s'] = round(time.time() - t0, 1)
    if p.returncode == 0 and '"returned":true' in p.stdout:
        rec['status'] = 'returned'
        rec['detail'] = p.stdout.strip()[-200:]
    else:
        rec['status'] = 'killed(rc=%s: %s)' % (p.returncode, (p.stderr or '').strip().split('\n')[-1][:160])
    return rec
