#!/bin/bash
# usage: seedbatch.sh <lane> <prop> <n> [<prop> <n> ...]   (seed dirs /tmp/seed/<prop>/_seeds/<n>; results in /verif/seeded/<prop>-s<n>)
lane=$1; shift
export SEED_LANE=$lane
while [ $# -gt 0 ]; do
  p=$1; n=$2; shift 2
  echo "=== $p seed $n (lane $lane)"
  python3 /verif/tools/seedcheck.py /tmp/seed/$p/_seeds/$n $p $p-${SEED_TAG:-t}$n 2>&1 | grep -v conda | tail -8
done
