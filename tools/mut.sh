#!/bin/bash
# dev helper: mut.sh <unit> <file-relative-to-repo> <sed-expr>  -- applies the sed edit on the scratch worktree /var/tmp/mut and runs the unit there
U=$1; F=$2; E=$3
cd /var/tmp/mut && git checkout -q -- . && sed -i "$E" $F && git diff --stat | tail -1
cd /verif && VERIF_REPO=/var/tmp/mut python3 tools/dev.py $U 2>&1 | grep -v conda | tail -${4:-8}
cd /var/tmp/mut && git checkout -q -- .
