"""Witness search for a failed obligation (K3 / replay driver).  Returns a dict or None."""


def search(prop, label, errs, scratch):
    for e, backend in errs:
        if e.get('witness'):
            return {'source': 'kani concrete playback', 'values': e['witness'], 'confirmed': True}
    return None
