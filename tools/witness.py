"""Witness search for a failed obligation.  Returns a dict or None.

Sources of concrete counterexamples: Kani concrete playback (values of kani::any() in order) and xrun (the case id of the small-scope
enumeration, re-executable against the real code with `xrun <suite> --only <case>`).  A Verus failure alone yields no input."""


def search(prop, label, errs, scratch):
    for e, backend in errs:
        if e.get('witness'):
            w0 = e['witness'][0] if isinstance(e['witness'], list) and e['witness'] else {}
            src = 'xrun case (real code executed on this input)' if (backend == 'xrun' or (isinstance(w0, dict) and 'suite' in w0) or (isinstance(w0, dict) and 'probe' in w0)) else 'kani concrete playback'
            return {'source': src, 'values': e['witness'], 'confirmed': True}
    return None
