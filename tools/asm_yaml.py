"""Independent reading of crates/asm-spec/asm.yml (PyYAML + own tree walk; nothing from asm-spec / asm-gen is used)
and generation of the Verus spec tables the generated codec is verified against (C13, C15)."""
import json
import os

import yaml

from weave import Undecided

REPO = os.environ.get('VERIF_REPO', '/repo')
ROOT = os.path.dirname(os.path.dirname(os.path.abspath(__file__)))


def read_spec(path=None):
    """-> list of (group, [dict(name, opcode, nargs, short)]) in file order."""
    path = path or os.path.join(REPO, 'crates', 'asm-spec', 'asm.yml')
    with open(path) as f:
        doc = yaml.safe_load(f)
    if list(doc.keys()) != ['Op'] or 'group' not in doc['Op']:
        raise Undecided('asm.yml: expected a single top-level `Op` group')
    groups = []
    for gname, g in doc['Op']['group'].items():
        if 'group' not in g:
            raise Undecided('asm.yml: top-level entry %s is not a group (the generated enums are two-level)' % gname)
        ops = []
        for oname, o in g['group'].items():
            if 'group' in o:
                raise Undecided('asm.yml: nested group %s::%s (deeper nesting is outside the spec generator)' % (gname, oname))
            if 'opcode' not in o:
                raise Undecided('asm.yml: %s::%s has no opcode' % (gname, oname))
            nargs = int(o.get('num_arg_bytes', 0) or 0)
            if nargs not in (0, 8):
                raise Undecided('asm.yml: %s::%s has num_arg_bytes=%d (only 0 and 8 are modelled)' % (gname, oname, nargs))
            oc = int(o['opcode'])
            if not 0 <= oc <= 255:
                raise Undecided('asm.yml: %s::%s opcode out of range' % (gname, oname))
            ops.append({'name': oname, 'opcode': oc, 'nargs': nargs, 'short': o.get('short') or oname.upper()})
        groups.append((gname, ops))
    return groups


def table(groups):
    return {('%s::%s' % (g, o['name'])): {'opcode': o['opcode'], 'num_arg_bytes': o['nargs'], 'short': o['short']} for g, ops in groups for o in ops}


def pinned():
    with open(os.path.join(ROOT, 'specs', 'opcodes.pinned.json')) as f:
        return json.load(f)


def _pat(g, o, bind='_'):
    return 'op::%s::%s%s' % (g, o['name'], ('(%s)' % bind) if o['nargs'] else '')


def gen_spec(groups):
    """Verus text of `pub mod asm_yml` (spec fns + lemmas).  Everything below is spec/proof code."""
    L = []
    A = L.append
    A('// ---- GENERATED from crates/asm-spec/asm.yml by tools/asm_yaml.py (independent YAML reading): the assembly specification as spec tables')
    A('pub mod asm_yml {')
    A('use vstd::prelude::*; use crate::{op, opcode}; use crate::{be_bytes, from_be};')
    A('pub enum DecErr { InvalidOpcode(u8), NotEnoughBytes }')
    for g, ops in groups:
        A('pub open spec fn byte_of_%s(o: opcode::%s) -> u8 { match o { %s } }' % (g, g, ' '.join('opcode::%s::%s => %du8,' % (g, o['name'], o['opcode']) for o in ops)))
        A('pub open spec fn %s_of_byte(b: u8) -> Option<opcode::%s> { %s { None } }' % (g, g, ' '.join('if b == %du8 { Some(opcode::%s::%s) } else' % (o['opcode'], g, o['name']) for o in ops)))
        A('pub open spec fn opcode_of_%s(o: op::%s) -> opcode::%s { match o { %s } }' % (g, g, g, ' '.join('%s => opcode::%s::%s,' % (_pat(g, o), g, o['name']) for o in ops)))
        A('pub open spec fn nargs_%s(o: opcode::%s) -> nat { match o { %s } }' % (g, g, ' '.join('opcode::%s::%s => %d,' % (g, o['name'], o['nargs']) for o in ops)))
        A('pub open spec fn enc_%s(o: op::%s) -> Seq<u8> { match o { %s } }' % (g, g, ' '.join(
            ('%s => seq![%du8] + be_bytes(w)@,' % (_pat(g, o, 'w'), o['opcode'])) if o['nargs'] else ('%s => seq![%du8],' % (_pat(g, o), o['opcode'])) for o in ops)))
        # parse the immediate of opcode c from the remaining bytes: Some(op) / None = not enough bytes
        A('pub open spec fn parse_%s(c: opcode::%s, rem: Seq<u8>) -> Option<op::%s> { match c { %s } }' % (g, g, g, ' '.join(
            ('opcode::%s::%s => if rem.len() >= 8 { Some(op::%s::%s(from_be(crate::arr8(rem)))) } else { None },' % (g, o['name'], g, o['name'])) if o['nargs']
            else ('opcode::%s::%s => Some(op::%s::%s),' % (g, o['name'], g, o['name'])) for o in ops)))
    A('pub open spec fn byte_of_Op(o: opcode::Op) -> u8 { match o { %s } }' % ' '.join('opcode::Op::%s(g) => byte_of_%s(g),' % (g, g) for g, _ in groups))
    A('pub open spec fn Op_of_byte(b: u8) -> Option<opcode::Op> { %s { None } }' % ' '.join(
        'if b == %du8 { Some(opcode::Op::%s(opcode::%s::%s)) } else' % (o['opcode'], g, g, o['name']) for g, ops in groups for o in ops))
    A('pub open spec fn opcode_of_Op(o: op::Op) -> opcode::Op { match o { %s } }' % ' '.join('op::Op::%s(g) => opcode::Op::%s(opcode_of_%s(g)),' % (g, g, g) for g, _ in groups))
    A('pub open spec fn nargs_Op(o: opcode::Op) -> nat { match o { %s } }' % ' '.join('opcode::Op::%s(g) => nargs_%s(g),' % (g, g) for g, _ in groups))
    A('pub open spec fn enc_Op(o: op::Op) -> Seq<u8> { match o { %s } }' % ' '.join('op::Op::%s(g) => enc_%s(g),' % (g, g) for g, _ in groups))
    A('pub open spec fn parse_Op(c: opcode::Op, rem: Seq<u8>) -> Option<op::Op> { match c { %s } }' % ' '.join(
        'opcode::Op::%s(g) => match parse_%s(g, rem) { Some(o) => Some(op::Op::%s(o)), None => None },' % (g, g, g) for g, _ in groups))
    A('pub open spec fn word_of(o: op::Op) -> i64 { match o { %s _ => 0i64 } }' % ' '.join('op::Op::%s(%s) => w,' % (g, _pat(g, o, 'w')) for g, ops in groups for o in ops if o['nargs']))
    A('''
// ---- the documented byte-stream format: one op = opcode byte followed by nargs immediate bytes
// first op of a byte string: None = empty input; Some(Err) = invalid opcode / truncated immediate; Some(Ok((op, consumed)))
pub open spec fn dec_Op(bs: Seq<u8>) -> Option<Result<(op::Op, nat), DecErr>> {
    if bs.len() == 0 { None } else { match Op_of_byte(bs[0]) {
        None => Some(Err(DecErr::InvalidOpcode(bs[0]))),
        Some(c) => match parse_Op(c, bs.skip(1)) { Some(o) => Some(Ok((o, 1 + nargs_Op(c)))), None => Some(Err(DecErr::NotEnoughBytes)) } } } }
pub open spec fn enc_seq(ops: Seq<op::Op>) -> Seq<u8> decreases ops.len() {
    if ops.len() == 0 { Seq::empty() } else { enc_Op(ops[0]) + enc_seq(ops.skip(1)) } }
// parsing a whole byte string: Ok(ops) or the first error
pub open spec fn dec_seq(bs: Seq<u8>) -> Result<Seq<op::Op>, DecErr> decreases bs.len() {
    match dec_Op(bs) { None => Ok(Seq::empty()), Some(Err(e)) => Err(e),
        Some(Ok((o, n))) => if n == 0 || n > bs.len() { Err(DecErr::NotEnoughBytes) } else { match dec_seq(bs.skip(n as int)) { Ok(rest) => Ok(seq![o] + rest), Err(e) => Err(e) } } } }

// ---- C13 lemmas over the tables (proved by Verus from the YAML reading alone)
@PER_GROUP@
pub proof fn lemma_of_byte(b: u8)
    ensures Op_of_byte(b) matches Some(o) ==> byte_of_Op(o) == b
{ }
pub proof fn lemma_byte_of(o: opcode::Op)
    ensures Op_of_byte(byte_of_Op(o)) == Some(o)
{ match o { @BYTE_OF_ARMS@ } }
pub proof fn lemma_enc_shape(o: op::Op)
    ensures enc_Op(o).len() == 1 + nargs_Op(opcode_of_Op(o)), enc_Op(o)[0] == byte_of_Op(opcode_of_Op(o)), nargs_Op(opcode_of_Op(o)) == 0 || nargs_Op(opcode_of_Op(o)) == 8
{ broadcast use crate::axiom_be_len; match o { @ENC_ARMS@ } }
// the opcode table is a bijection between the valid bytes and the opcodes
pub proof fn lemma_table_bijection()
    ensures forall|b: u8| (#[trigger] Op_of_byte(b)) matches Some(o) ==> byte_of_Op(o) == b,
            forall|o: opcode::Op| #[trigger] Op_of_byte(byte_of_Op(o)) == Some(o),
            forall|o: op::Op| (#[trigger] enc_Op(o))[0] == byte_of_Op(opcode_of_Op(o)) && enc_Op(o).len() == 1 + nargs_Op(opcode_of_Op(o)),
{
    assert forall|b: u8| (#[trigger] Op_of_byte(b)) matches Some(o) ==> byte_of_Op(o) == b by { lemma_of_byte(b); }
    assert forall|o: opcode::Op| #[trigger] Op_of_byte(byte_of_Op(o)) == Some(o) by { lemma_byte_of(o); }
    assert forall|o: op::Op| (#[trigger] enc_Op(o))[0] == byte_of_Op(opcode_of_Op(o)) && enc_Op(o).len() == 1 + nargs_Op(opcode_of_Op(o)) by { lemma_enc_shape(o); }
}
pub proof fn lemma_dec_enc(o: op::Op, rest: Seq<u8>)
    ensures dec_Op(enc_Op(o) + rest) == Some(Ok::<(op::Op, nat), DecErr>((o, enc_Op(o).len())))
{
    broadcast use {crate::axiom_be_len, crate::axiom_be_inv, crate::axiom_be_inv2};
    lemma_enc_shape(o);
    let bs = enc_Op(o) + rest;
    assert(bs[0] == enc_Op(o)[0]);
    let c = opcode_of_Op(o);
    lemma_byte_of(c);
    assert(Op_of_byte(bs[0]) == Some(c));
    lemma_parse_shape(c, bs.skip(1));
    if nargs_Op(c) == 0 { lemma_parse0(o); }
    if nargs_Op(c) == 8 {
        let w = word_of(o);
        assert(bs.skip(1).take(8) =~= be_bytes(w)@);
        assert(crate::arr8(bs.skip(1)) == be_bytes(w)) by { crate::axiom_arr8(bs.skip(1)); assert(crate::arr8(bs.skip(1))@ =~= be_bytes(w)@); crate::axiom_array_ext(crate::arr8(bs.skip(1)), be_bytes(w)); }
        lemma_parse8(o, bs.skip(1));
    }
}
pub proof fn lemma_enc_dec(bs: Seq<u8>)
    ensures dec_Op(bs) matches Some(Ok((o, n))) ==> (n <= bs.len() ==> bs.take(n as int) =~= enc_Op(o)) && n == enc_Op(o).len() && n >= 1
{
    broadcast use {crate::axiom_be_len, crate::axiom_be_inv, crate::axiom_be_inv2};
    if let Some(Ok((o, n))) = dec_Op(bs) {
        lemma_of_byte(bs[0]);
        let c = Op_of_byte(bs[0])->Some_0;
        assert(byte_of_Op(c) == bs[0]);
        lemma_parse_shape(c, bs.skip(1));
        lemma_enc_shape(o);
        if nargs_Op(c) == 0 { lemma_parse0(o); assert(bs.take(1) =~= seq![bs[0]]); }
        if nargs_Op(c) == 8 && n <= bs.len() {
            lemma_parse8(o, bs.skip(1));
            crate::axiom_arr8(bs.skip(1));
            assert(be_bytes(from_be(crate::arr8(bs.skip(1))))@ =~= bs.skip(1).take(8));
            assert(bs.take(n as int) =~= seq![bs[0]] + bs.skip(1).take(8));
        }
    }
}
// serialise-then-parse is the identity on op sequences
pub proof fn lemma_roundtrip_ops(ops: Seq<op::Op>)
    ensures dec_seq(enc_seq(ops)) == Ok::<Seq<op::Op>, DecErr>(ops)
    decreases ops.len()
{
    if ops.len() == 0 { assert(enc_seq(ops) =~= Seq::<u8>::empty()); assert(dec_Op(enc_seq(ops)) is None); assert(ops =~= Seq::<op::Op>::empty()); }
    else {
        let o = ops[0]; let rest = enc_seq(ops.skip(1));
        lemma_dec_enc(o, rest); lemma_table_bijection();
        let bs = enc_seq(ops);
        assert(bs == enc_Op(o) + rest);
        assert(bs.skip(enc_Op(o).len() as int) =~= rest);
        lemma_roundtrip_ops(ops.skip(1));
        assert(seq![o] + ops.skip(1) =~= ops);
    }
}
// parse-then-serialise reproduces exactly the parsed bytes: the encoding is unambiguous
pub proof fn lemma_roundtrip_bytes(bs: Seq<u8>)
    ensures dec_seq(bs) matches Ok(ops) ==> enc_seq(ops) =~= bs
    decreases bs.len()
{
    match dec_Op(bs) {
        None => { assert(bs =~= Seq::<u8>::empty()); }
        Some(Err(_)) => {}
        Some(Ok((o, n))) => {
            lemma_enc_dec(bs);
            if n <= bs.len() {
                lemma_roundtrip_bytes(bs.skip(n as int));
                if let Ok(rest) = dec_seq(bs.skip(n as int)) {
                    let ops = seq![o] + rest;
                    assert(ops[0] == o); assert(ops.skip(1) =~= rest);
                    assert(bs =~= bs.take(n as int) + bs.skip(n as int));
                }
            }
        }
    }
}
''')
    A('} // mod asm_yml')
    text = '\n'.join(L) + '\n'
    per = []
    for g, ops in groups:
        per.append('pub proof fn lemma_byte_of_%s(o: opcode::%s) ensures Op_of_byte(byte_of_%s(o)) == Some(opcode::Op::%s(o)), %s_of_byte(byte_of_%s(o)) == Some(o) { }' % (g, g, g, g, g, g))
        per.append('pub proof fn lemma_of_byte_%s(b: u8) ensures %s_of_byte(b) matches Some(o) ==> byte_of_%s(o) == b && Op_of_byte(b) == Some(opcode::Op::%s(o)) { }' % (g, g, g, g))
        per.append('pub proof fn lemma_enc_shape_%s(o: op::%s) ensures enc_%s(o).len() == 1 + nargs_%s(opcode_of_%s(o)), enc_%s(o)[0] == byte_of_%s(opcode_of_%s(o)), nargs_%s(opcode_of_%s(o)) == 0 || nargs_%s(opcode_of_%s(o)) == 8 { broadcast use crate::axiom_be_len; }'
                   % (g, g, g, g, g, g, g, g, g, g, g, g))
    per.append('''// parse_Op either fails (too few bytes) or yields an op of that opcode whose word is the big-endian value of the first 8 bytes
pub proof fn lemma_parse_shape(c: opcode::Op, rem: Seq<u8>)
    ensures parse_Op(c, rem) matches Some(o) ==> opcode_of_Op(o) == c && (nargs_Op(c) == 8 ==> rem.len() >= 8 && word_of(o) == from_be(crate::arr8(rem))),
            parse_Op(c, rem) is None ==> nargs_Op(c) == 8 && rem.len() < 8,
            nargs_Op(c) == 0 || nargs_Op(c) == 8
{ match c { %s } }
pub proof fn lemma_parse0(o: op::Op)
    ensures nargs_Op(opcode_of_Op(o)) == 0 ==> (forall|rem: Seq<u8>| #[trigger] parse_Op(opcode_of_Op(o), rem) == Some(o)) && enc_Op(o) =~= seq![byte_of_Op(opcode_of_Op(o))]
{ match o { %s } }
pub proof fn lemma_parse8(o: op::Op, rem: Seq<u8>)
    ensures nargs_Op(opcode_of_Op(o)) == 8 ==> enc_Op(o) =~= seq![byte_of_Op(opcode_of_Op(o))] + be_bytes(word_of(o))@
        && (rem.len() >= 8 && from_be(crate::arr8(rem)) == word_of(o) ==> parse_Op(opcode_of_Op(o), rem) == Some(o))
{ match o { %s } }''' % (' '.join('opcode::Op::%s(g) => { match g { %s } }' % (g, ' '.join('opcode::%s::%s => {}' % (g, o['name']) for o in ops)) for g, ops in groups),
                         ' '.join('op::Op::%s(g) => { match g { %s } }' % (g, ' '.join('%s => {}' % _pat(g, o) for o in ops)) for g, ops in groups),
                         ' '.join('op::Op::%s(g) => { match g { %s } }' % (g, ' '.join('%s => {}' % _pat(g, o) for o in ops)) for g, ops in groups)))
    text = text.replace('@PER_GROUP@', '\n'.join(per))
    text = text.replace('@BYTE_OF_ARMS@', ' '.join('opcode::Op::%s(g) => { lemma_byte_of_%s(g); }' % (g, g) for g, _ in groups))
    text = text.replace('@ENC_ARMS@', ' '.join('op::Op::%s(g) => { lemma_enc_shape_%s(g); }' % (g, g) for g, _ in groups))
    return text



def effect_flags():
    """C15: which ops carry which effect flag (from the property statement / the documented flags in effects.rs)."""
    return [('StateRead', 'KeyRange', 'KeyRange', 0), ('StateRead', 'KeyRangeExtern', 'KeyRangeExtern', 1), ('Access', 'ThisAddress', 'ThisAddress', 2),
            ('Access', 'ThisContractAddress', 'ThisContractAddress', 3), ('StateRead', 'PostKeyRange', 'PostKeyRange', 4),
            ('StateRead', 'PostKeyRangeExtern', 'PostKeyRangeExtern', 5)]


def gen_kani_table(workdir):
    """writes src/gen_table.rs of the Kani crate kani/asm_k1 from the YAML reading"""
    groups = read_spec()
    flags = {(g, o): 1 << bit for g, o, _, bit in effect_flags()}
    L = ['// GENERATED from crates/asm-spec/asm.yml by /verif/tools/asm_yaml.py', 'use essential_asm as asm;',
         'pub const ALL_FLAGS: u8 = %d;' % sum(flags.values()),
         '/// (effect flag, number of immediate bytes) of the op an opcode byte denotes; None = not a valid opcode',
         'pub fn yaml_op(b: u8) -> Option<(u8, u8)> { match b {']
    ix = 0
    idx_arms, op_arms = [], []
    for g, ops in groups:
        for o in ops:
            L.append('    %d => Some((%d, %d)),' % (o['opcode'], flags.get((g, o['name']), 0), o['nargs']))
            idx_arms.append('    %d => %d,' % (o['opcode'], ix))
            op_arms.append('    asm::Op::%s(asm::%s::%s%s) => Some(%d),' % (g, g, o['name'], '(_)' if o['nargs'] else '', ix))
            ix += 1
    L.append('    _ => None } }')
    L.append('pub fn yaml_byte_index(b: u8) -> usize { match b {')
    L += idx_arms
    L.append('    _ => usize::MAX } }')
    L.append('pub fn yaml_flag_by_index(ix: usize) -> u8 { match ix {')
    k = 0
    for g, ops in groups:
        for o in ops:
            if flags.get((g, o['name'])):
                L.append('    %d => %d,' % (k, flags[(g, o['name'])]))
            k += 1
    L.append('    _ => 0 } }')
    L.append('#[allow(unreachable_patterns)] pub fn yaml_index(op: &asm::Op) -> Option<usize> { match *op {')
    L += op_arms
    L.append('    _ => None } }')
    with open(os.path.join(workdir, 'src', 'gen_table.rs'), 'w') as f:
        f.write('\n'.join(L) + '\n')
