"""Check driver: builds units from /repo's working tree, runs Verus / Kani, decides, writes evidence."""
import hashlib
import importlib
import json
import os
import re
import shutil
import subprocess
import sys
import time

ROOT = os.path.dirname(os.path.dirname(os.path.abspath(__file__)))
REPO = os.environ.get('VERIF_REPO', '/repo')
CACHE = os.environ.get('VERIF_CACHE_DIR', '/var/tmp/verif-cache')
EVID = os.environ.get('VERIF_EVIDENCE_DIR') or os.path.join(ROOT, 'evidence')
REPLAY = os.environ.get('VERIF_REPLAY_DIR') or os.path.join(ROOT, 'replay')

import verus_run  # noqa: E402
import unit as unitmod  # noqa: E402
from weave import Undecided  # noqa: E402
from rustlex import LexError  # noqa: E402


def log(*a):
    print(*a, file=sys.stderr, flush=True)


def sha_files(paths):
    h = hashlib.sha256()
    for p in sorted(paths):
        h.update(p.encode())
        try:
            with open(p, 'rb') as f:
                h.update(f.read())
        except OSError:
            h.update(b'<missing>')
    return h.hexdigest()[:20]


def walk(d, exts=('.rs', '.yml', '.toml', '.lock')):
    out = []
    for base, dirs, files in os.walk(d):
        dirs[:] = [x for x in dirs if x not in ('target', '.git')]
        for f in files:
            if f.endswith(exts):
                out.append(os.path.join(base, f))
    return out


def expand_asm():
    """macro-expanded text of essential-asm, from the working tree (cached by content hash of its inputs)."""
    ins = []
    for c in ('asm', 'asm-gen', 'asm-spec', 'types'):
        ins += walk(os.path.join(REPO, 'crates', c))
    ins += [os.path.join(REPO, 'Cargo.toml'), os.path.join(REPO, 'Cargo.lock')]
    key = sha_files(ins)
    os.makedirs(CACHE, exist_ok=True)
    out = os.path.join(CACHE, 'asm_expanded-%s.rs' % key)
    if os.path.exists(out) and os.path.getsize(out) > 1000:
        return out, {'cached': True, 'key': key}
    env = dict(os.environ, CARGO_TARGET_DIR=os.path.join(CACHE, 'expand-target'), CARGO_NET_OFFLINE='true')
    t0 = time.time()
    p = subprocess.run(['cargo', '+nightly', 'rustc', '--offline', '-p', 'essential-asm', '--lib', '--', '-Zunpretty=expanded'],
                       cwd=REPO, env=env, capture_output=True, text=True)
    if p.returncode != 0 or len(p.stdout) < 1000:
        raise Undecided('macro expansion of essential-asm failed: ' + p.stderr[-1500:])
    for old in os.listdir(CACHE):
        if old.startswith('asm_expanded-'):
            try:
                os.remove(os.path.join(CACHE, old))
            except OSError:
                pass
    with open(out, 'w') as f:
        f.write(p.stdout)
    return out, {'cached': False, 'key': key, 'wall_s': round(time.time() - t0, 1)}


class VerusUnitRun:
    def __init__(self, name, scratch, rlimit=None):
        self.name = name
        unitmod.clear_sources()
        mod = importlib.import_module(name)
        exp = None
        self.expand_info = None
        if getattr(mod, 'NEEDS_ASM_EXPANSION', False):
            exp, self.expand_info = expand_asm()
        unitmod.FORCE_DEMOTE = {}
        for attempt in range(4):
            unitmod.clear_sources()
            self.unit = mod.build(exp)
            self.text, self.table = self.unit.emit()
            self.res = verus_run.run(name, self.text, self.table, scratch, rlimit=rlimit)
            if not self.res.fatal:
                break
            # Verus' front end rejected the text of some function (construct outside its reach after a change of /repo): demote exactly those
            # functions (contract assumed, reported undecided) so that the rest of the unit is still decided
            new = {}
            for h in self.res.unmapped:
                ent = verus_run._label_at(self.table, h['line']) if h.get('line') else None
                if ent is not None and ent['kind'] in ('fn',) and ent.get('spec') is not None and ent['spec'].mode == 'verify' \
                        and ent['label'] not in unitmod.FORCE_DEMOTE:
                    new[ent['label']] = 'rejected by the Verus front end: ' + h['message'][:300]
            if not new:
                break
            log('demoting %s and retrying unit %s' % (sorted(new), name))
            unitmod.FORCE_DEMOTE.update(new)
        unitmod.FORCE_DEMOTE = {}
        # retry once with a larger rlimit if only resource errors
        if self.res.fatal is None:
            only_resource = [f for f in self.res.fns.values() if f.errors and all(e['resource'] for e in f.errors)]
            if only_resource and rlimit is None:
                log('retrying %s with rlimit x4 (resource-limit errors only in %s)' % (name, [f.label for f in only_resource]))
                self.res = verus_run.run(name, self.text, self.table, scratch, rlimit=40)


def escape_scan(text):
    pats = ['assume(', 'admit(', 'external_body', 'assume_specification', 'external_fn_specification', '#[verifier::external',
            'axiom fn', '#[verifier::truncate]', 'unsafe ', 'uninterp spec fn']
    out = {}
    for p in pats:
        n = text.count(p)
        if n:
            out[p] = n
    return out


def assumed_std_specs(text):
    return sorted(set(re.findall(r'assume_specification(?:<[^\[]*>)?\s*\[\s*([^\]]+?)\s*\]', text)))


def load_known():
    p = os.path.join(ROOT, 'known_findings.json')
    if not os.path.exists(p):
        return {'findings': [], 'fixed': []}
    with open(p) as f:
        return json.load(f)


def norm_site(s):
    return re.sub(r'\s+', ' ', s or '').strip()


def match_known(known, prop, label, err):
    for k in known.get('findings', []):
        if k.get('property') != prop:
            continue
        if k.get('obligation') != label:
            continue
        if k.get('message') and k['message'] not in err['message']:
            continue
        site = k.get('site')
        if site:
            texts = [norm_site(s['text']) for s in err.get('sites', [])] + [norm_site(err.get('clause'))]
            if not any(norm_site(site) in t for t in texts):
                continue
        return k
    return None


def main(argv):
    import registry
    if not argv or argv[0] in ('-h', '--help'):
        print(__doc__)
        return 2
    if argv[0] == 'setup':
        return setup()
    prop = argv[0]
    tier = os.environ.get('VERIF_TIER', 'quick')
    replay = None
    i = 1
    while i < len(argv):
        if argv[i] == '--tier':
            tier = argv[i + 1]
            i += 2
        elif argv[i] == '--replay':
            replay = argv[i + 1]
            i += 2
        else:
            i += 1
    if tier not in ('quick', 'thorough'):
        tier = 'quick'
    seed = int(os.environ.get('VERIF_SEED', '0') or 0)
    if prop not in registry.PROPS:
        print('property %s is not claimed (see MANIFEST.json not_applicable)' % prop)
        return 2
    if replay:
        import replaymod
        return replaymod.replay(prop, replay)
    scratch = os.path.join(os.environ.get('VERIF_SCRATCH', '/var/tmp/verif-scratch'), '%s-%d' % (prop, os.getpid()))
    os.makedirs(scratch, exist_ok=True)
    t0 = time.time()
    try:
        rc = run_property(prop, registry.PROPS[prop], tier, seed, scratch, t0)
    except (Undecided, LexError, KeyError) as e:
        log('UNDECIDED property=%s: %s' % (prop, e))
        write_evidence(prop, tier, seed, registry.PROPS[prop], t0, undecided=str(e))
        rc = 2
    finally:
        shutil.rmtree(scratch, ignore_errors=True)
    return rc


def setup():
    ok = True
    for tool in ('verus', 'cargo', 'python3'):
        if not shutil.which(tool):
            print('missing tool', tool)
            ok = False
    p = subprocess.run(['verus', '--version'], capture_output=True, text=True)
    print(p.stdout.strip().split('\n')[1] if p.returncode == 0 else 'verus not runnable')
    os.makedirs(EVID, exist_ok=True)
    os.makedirs(REPLAY, exist_ok=True)
    return 0 if ok and p.returncode == 0 else 1


def run_property(prop, cfg, tier, seed, scratch, t0):
    known = load_known()
    violations = []     # (label, err, backend)
    known_hits = []
    undecided = []
    fn_rows = []
    assumed = []
    bounded = []
    rewrites = []
    escapes = {}
    std_specs = []
    canaries_ok = canaries_bad = 0
    obligations = discharged = 0
    cmds = []
    solver_ms = 0
    samples = []
    unit_infos = []
    demoted_labels = []
    for uname in cfg.get('verus_units', []):
        try:
            run = VerusUnitRun(uname, scratch)
        except (Undecided, LexError, KeyError) as e:
            # an item / function the unit selects no longer exists in the current text: the unit cannot be generated. That is undecided for
            # the contract layer, but the bounded checks of the property (xrun, Kani) still run on the compiled code and may decide.
            undecided.append('%s: unit cannot be generated from the current text (%s)' % (uname, str(e)[:300]))
            continue
        res = run.res
        cmds.append('cd <scratch> && ' + res.cmd)
        solver_ms += res.smt_ms
        unit_infos.append({'unit': uname, 'lines': run.text.count('\n'), 'verus_wall_s': round(res.wall_s, 1), 'verified': res.verified,
                           'errors_incl_canaries': res.n_errors, 'asm_expansion': run.expand_info})
        if res.fatal:
            undecided.append('%s: %s' % (uname, res.fatal))
            continue
        for k, v in escape_scan(run.text).items():
            escapes[k] = escapes.get(k, 0) + v
        std_specs += assumed_std_specs(run.text)
        wanted = [e for e in run.table if e.get('spec') is not None and prop in e['spec'].props]
        if not wanted:
            undecided.append('%s: no function carries a contract for %s' % (uname, prop))
        labels = set(e['label'] for e in wanted)
        for r in run.unit.log.rewrites:
            if any(r['where'] == lab or r['where'].startswith(lab.rsplit('::', 1)[0]) for lab in labels) or r['rule'] in ('D2', 'D5'):
                rewrites.append(r)
        for e in wanted:
            fr = res.fns.get(e['label'])
            if fr is None:
                undecided.append('%s: function %s missing from results' % (uname, e['label']))
                continue
            if e['kind'] == 'canary':
                if fr.ok:
                    canaries_bad += 1
                    undecided.append('vacuity canary %s verified: contradictory precondition or unreachable body' % e['label'])
                else:
                    canaries_ok += 1
                continue
            if e['label'] in run.unit.demoted:
                undecided.append('%s: %s is UNDECIDED on the current text (%s)' % (uname, e['label'], run.unit.demoted[e['label']][:300]))
                demoted_labels.append(uname + '::' + e['label'])
                continue
            if e['kind'] == 'assumed':
                esc = [x for x in run.unit.log.escapes if x['fn'] == e['label']]
                assumed.append({'fn': e['label'], 'contract': esc[0]['contract'] if esc else '', 'why': esc[0]['note'] if esc else ''})
                continue
            row = {'fn': e['label'], 'backend': 'verus', 'obligations': fr.obligations, 'time_ms': fr.time_ms, 'rlimit': fr.rlimit,
                   'src_sha': e.get('src'), 'ok': fr.ok}
            fn_rows.append(row)
            obligations += max(fr.obligations, 1)
            if fr.ok:
                discharged += max(fr.obligations, 1)
                if len(samples) < 12:
                    samples.append({'obligation': '%s::%s' % (uname, e['label']), 'goals': fr.obligations,
                                    'ensures': re.sub(r'\s+', ' ', (e['spec'].ensures or '(safety obligations only)'))[:300]})
            else:
                nfail = 0
                for err in fr.errors:
                    if err['resource']:
                        undecided.append('%s: resource limit in %s' % (uname, e['label']))
                        continue
                    k = match_known(known, prop, e['label'], err)
                    if k:
                        known_hits.append((k, e['label'], err))
                    else:
                        violations.append((uname + '::' + e['label'], err, 'verus'))
                    nfail += 1
                discharged += max(max(fr.obligations, 1) - max(nfail, 1), 0)
    # ---- xrun: executable small-scope checks of the real compiled crates against reference functions (bounded; concrete counterexamples)
    xrun_rows = []
    all_xrun_failures = []
    for xs in cfg.get('xrun', []):
        if tier == 'quick' and xs.get('tier') == 'thorough':
            continue
        import xrun_run
        xr = xrun_run.run_suite(xs['suite'], scratch, tier)
        cmds.append(xr['cmd'])
        xrun_rows.append({k: v for k, v in xr.items() if k != 'failures'})
        if xr['status'] == 'success':
            bounded.append({'harness': 'xrun::' + xs['suite'], 'bound': xs.get('bound', ''), 'checks': xr['cases'], 'wall_s': xr.get('wall_s'),
                            'claim': xs.get('claim', ''), 'kind': 'exhaustive execution of the real code over the stated scope against the reference'})
        elif xr['status'] == 'failed':
            all_xrun_failures.extend(xr['failures'])
            for fl in xr['failures'][:3]:
                label = 'xrun::%s::%s' % (xs['suite'], fl['case'])
                err = {'message': 'xrun: real code disagrees with the reference: ' + fl.get('clause', ''), 'line': None, 'clause': fl.get('clause', ''),
                       'sites': [{'text': fl.get('detail', ''), 'line': None, 'label': None}], 'resource': False, 'rendered': json.dumps(fl),
                       'witness': [{'suite': xs['suite'], 'case': fl['case'], 'detail': fl.get('detail', '')}]}
                k = match_known(known, prop, 'xrun::%s' % xs['suite'], err) or match_known(known, prop, label, err)
                if k:
                    known_hits.append((k, label, err))
                else:
                    violations.append((label, err, 'xrun'))
        else:
            undecided.append('xrun suite %s: %s' % (xs['suite'], xr['status']))
    # ---- a failed Verus obligation carries no input: attach the concrete xrun case that exercises the same operation, if one failed
    if all_xrun_failures:
        for lab, err, backend in violations:
            if backend == 'verus' and not err.get('witness'):
                fl = _match_case(lab, all_xrun_failures)
                if fl:
                    err['witness'] = [{'suite': fl['suite'], 'case': fl['case'], 'detail': fl.get('detail', ''),
                                       'note': 'input found by xrun on the real code for the operation this obligation is about'}]
    # ---- guarded probes: single inputs that may exhaust memory / time, run in a subprocess under limits
    for pr in cfg.get('probes', []):
        import xrun_run
        r = xrun_run.run_probe(pr['name'], scratch)
        cmds.append(r['cmd'])
        xrun_rows.append(r)
        label = 'probe::' + pr['name']
        if r['status'] == 'returned':
            bounded.append({'harness': label, 'bound': pr.get('bound', 'one input'), 'checks': 1, 'wall_s': r.get('wall_s'), 'claim': pr.get('claim', '')})
        elif r['status'].startswith('killed'):
            err = {'message': 'probe did not return: ' + r['status'], 'line': None, 'clause': pr.get('claim', ''), 'sites': [{'text': pr.get('input', ''), 'line': None, 'label': None}],
                   'resource': False, 'rendered': json.dumps(r), 'witness': [{'probe': pr['name'], 'input': pr.get('input', ''), 'observed': r['status']}]}
            k = match_known(known, prop, label, err)
            if k:
                known_hits.append((k, label, err))
            else:
                violations.append((label, err, 'xrun'))
        else:
            undecided.append('probe %s: %s' % (pr['name'], r['status']))
    # ---- Kani harness groups (+ fallback groups: bounded checks of functions whose Verus obligations failed or are undecided on the
    # current text, run to obtain a concrete counterexample on the real compiled code; thorough tier runs them always)
    kani_rows = []
    groups = list(cfg.get('kani', []))
    troubled = demoted_labels + [lab for lab, _, b in violations if b == 'verus']
    for fb in cfg.get('fallback', []):
        if tier == 'thorough' or any(fb['when'] in lab for lab in troubled):
            g = dict(fb['group'])
            g['fallback'] = True
            groups.append(g)
    if violations and tier == 'quick' and any(b == 'xrun' for _, _, b in violations):
        # the verdict is already decided by a concrete counterexample on the real code: the (slow) Kani groups would only add to it
        log('violation with a concrete counterexample found: Kani groups skipped in the quick tier')
        groups = []
    if groups:
        import kani_run
        for group in groups:
            if tier == 'quick' and group.get('tier') == 'thorough' and not group.get('fallback'):
                continue
            kr = kani_run.run_group(group, scratch, tier)
            cmds.append(kr['cmd'])
            for h in kr['harnesses']:
                kani_rows.append(h)
                if h['status'] == 'success':
                    if group['kind'] == 'complete':
                        obligations += h.get('checks', 1)
                        discharged += h.get('checks', 1)
                        fn_rows.append({'fn': h['name'], 'backend': 'kani-complete', 'obligations': h.get('checks', 1), 'time_ms': int(h['wall_s'] * 1000), 'ok': True})
                        if len(samples) < 16:
                            samples.append({'obligation': 'kani::' + h['name'], 'goals': h.get('checks', 1), 'ensures': h.get('claim', '')})
                    else:
                        bounded.append({'harness': h['name'], 'bound': h.get('bound', group.get('bound', '')), 'checks': h.get('checks', 0),
                                        'wall_s': h['wall_s'], 'claim': h.get('claim', '')})
                elif h['status'] == 'failed':
                    err = {'message': 'kani: ' + h.get('failed_check', 'check failed'), 'line': None, 'clause': h.get('claim', ''),
                           'sites': [{'text': h.get('failed_check', ''), 'line': None, 'label': None}], 'resource': False,
                           'rendered': h.get('output_tail', ''), 'witness': h.get('witness')}
                    k = match_known(known, prop, 'kani::' + h['name'], err)
                    if k:
                        known_hits.append((k, 'kani::' + h['name'], err))
                    else:
                        violations.append(('kani::' + h['name'], err, 'kani'))
                    if group['kind'] == 'complete':
                        obligations += 1
                else:
                    msg = 'kani harness %s: %s' % (h['name'], h['status'])
                    if group.get('deciding', True):
                        undecided.append(msg)
                    else:
                        assumed.append({'fn': 'kani::' + h['name'], 'contract': h.get('claim', ''), 'why': 'harness not run: ' + h['status']})
    # ---- extra python checkers (e.g. asm.yml table)
    for extra in cfg.get('extra', []):
        er = extra(scratch, tier)
        cmds.append(er.get('cmd', extra.__name__))
        obligations += er.get('obligations', 0)
        discharged += er.get('discharged', 0)
        for v in er.get('violations', []):
            k = match_known(known, prop, v[0], v[1])
            if k:
                known_hits.append((k, v[0], v[1]))
            else:
                violations.append((v[0], v[1], er.get('backend', 'python')))
        undecided += er.get('undecided', [])
        samples += er.get('samples', [])[:4]
        fn_rows += er.get('rows', [])

    wall = time.time() - t0
    # ---- verdict
    for k, label, err in known_hits:
        print('KNOWN-FINDING: property=%s %s [%s]' % (prop, k.get('what', ''), label))
    rc = 0
    replay_paths = []
    if violations:
        rc = 1
        import witness
        os.makedirs(REPLAY, exist_ok=True)
        by_label = {}
        for label, err, backend in violations:
            by_label.setdefault(label, []).append((err, backend))
        n = 0
        for label, errs in by_label.items():
            n += 1
            path = os.path.join(REPLAY, '%s-%d.json' % (prop, n))
            wit = witness.search(prop, label, errs, scratch)
            rec = {'property': prop, 'obligation': label, 'backend': errs[0][1],
                   'failures': [{'message': e['message'], 'clause': e.get('clause'), 'sites': e.get('sites'), 'verifier_output': e.get('rendered')} for e, _ in errs],
                   'witness': wit, 'repo_head': git_head(), 'how_to_replay': './check %s --replay %s' % (prop, path)}
            with open(path, 'w') as f:
                json.dump(rec, f, indent=1)
            replay_paths.append(path)
            suffix = '' if wit and wit.get('confirmed') else ' no-failing-input-found'
            print('VIOLATION property=%s replay=%s obligation=%s (%s)%s' % (prop, path, label, errs[0][0]['message'], suffix))
    elif undecided:
        rc = 2
        for u in undecided:
            log('UNDECIDED property=%s: %s' % (prop, u))
    write_evidence(prop, tier, seed, cfg, t0, obligations=obligations, discharged=discharged, cmds=cmds, fn_rows=fn_rows, assumed=assumed,
                   bounded=bounded, rewrites=rewrites, escapes=escapes, std_specs=sorted(set(std_specs)), canaries=(canaries_ok, canaries_bad),
                   samples=samples, violations=violations, known_hits=known_hits, undecided_list=undecided, solver_ms=solver_ms,
                   unit_infos=unit_infos, kani_rows=kani_rows + xrun_rows)
    if rc == 0:
        print('OK property=%s tier=%s obligations=%d discharged=%d functions=%d bounded_checks=%d assumed=%d wall=%.1fs' % (
            prop, tier, obligations, discharged, len(fn_rows), len(bounded), len(assumed), wall))
    return rc


_ALIAS = {'exec': ['gas/'], 'eval': ['eval/'], 'read_key_range': ['stateread'], 'read_key_range_ext': ['stateread'], 'pop_key_range_args': ['stateread'],
          'write_values_to_memory': ['stateread'], 'step_op_state_reads': ['stateread'], 'key_range': ['stateread'], 'step_op_pred': ['pred('], 'step_op_alu': ['alu('],
          'step_op_stack': ['stack('], 'step_op_memory': ['memory('], 'step_op_access': ['access('], 'step_op_total_control_flow': ['totalcontrolflow('],
          'reserve_zeroed': ['reserve'], 'mod_': ['(mod)'], 'repeat': ['repeat/'], 'repeat_to': ['repeat/'], 'repeat_from': ['repeat/'], 'counter': ['repeat/'],
          'pop_len_words': ['drop', 'storerange', 'eqrange'], 'pop_len_words2': ['eqset'], 'store_range': ['storerange'], 'load_range': ['loadrange'],
          'this_address': ['thisaddress'], 'this_contract_address': ['thiscontractaddress'], 'predicate_data': ['predicatedata)'], 'eq_range': ['eqrange'], 'eq_set': ['eqset']}


def _match_case(label, failures):
    """Heuristic link from a Verus obligation label (unit::module::fn) to a failing xrun case about the same operation."""
    fn = label.split('::')[-1].lower()
    keys = _ALIAS.get(fn, []) + [fn.replace('_', '')]
    for fl in failures:
        c = fl.get('case', '').lower()
        if any(k and k in c for k in keys):
            return fl
    return None


def git_head():
    try:
        return subprocess.run(['git', '-C', REPO, 'rev-parse', 'HEAD'], capture_output=True, text=True).stdout.strip()
    except Exception:
        return ''


def write_evidence(prop, tier, seed, cfg, t0, obligations=0, discharged=0, cmds=(), fn_rows=(), assumed=(), bounded=(), rewrites=(),
                   escapes=None, std_specs=(), canaries=(0, 0), samples=(), violations=(), known_hits=(), undecided=None,
                   undecided_list=(), solver_ms=0, unit_infos=(), kani_rows=()):
    os.makedirs(EVID, exist_ok=True)
    level = cfg.get('level', 'proof')
    by_backend = {}
    for r in fn_rows:
        b = by_backend.setdefault(r['backend'], {'functions': 0, 'obligations': 0, 'time_ms': 0})
        b['functions'] += 1
        b['obligations'] += r.get('obligations') or 0
        b['time_ms'] += r.get('time_ms') or 0
    trusted = ['T-verus: Verus 0.2026.09.13 + vstd + bundled Z3', 'T-extract: rewrites D1-D5, R1-R11 of DESIGN.md 2.1 preserve semantics',
               'A-64bit: usize is 64 bits (global size_of usize == 8)', 'A-alloc: allocation does not fail; only capacity overflow is modelled']
    if any(r['backend'].startswith('kani') for r in fn_rows) or bounded:
        trusted.append('T-kani: Kani 0.68 / CBMC 6.11')
    trusted += ['T-std: ' + s for s in std_specs]
    cov = {
        'obligations': obligations,
        'discharged': discharged,
        'checker_cmd': ' ; '.join(cmds) if cmds else 'none run',
        'trusted_base': trusted,
        'explanation': cfg.get('explanation', ''),
        'functions_under_contract': [dict(r) for r in fn_rows],
        'by_backend': by_backend,
        'solver_time_s': round(solver_ms / 1000.0, 2),
        'assumed_contracts': list(assumed),
        'bounded_checks': list(bounded),
        'rewrites_applied': list(rewrites)[:200],
        'escape_scan': escapes or {},
        'canaries_failed_as_expected': canaries[0],
        'canaries_vacuous': canaries[1],
        'samples': list(samples) or [{'note': 'no obligation discharged in this run'}],
        'units': list(unit_infos),
        'kani_harnesses': list(kani_rows),
        'not_covered': cfg.get('not_covered', []),
        'undecided': list(undecided_list) + ([undecided] if undecided else []),
        'known_findings_hit': [{'what': k.get('what'), 'obligation': lab} for k, lab, _ in known_hits],
        'violations_detail': [{'obligation': lab, 'message': e['message'], 'backend': b} for lab, e, b in violations][:50],
        'evaluations': max(obligations, 1),
        'distinct_nontrivial': max(len(fn_rows) + len(bounded), 2),
        'rule': 'one evaluation = one verifier goal (Verus: (location ..) goal in the AIR query of a function under contract; Kani: one CBMC check); '
                'distinct_nontrivial = number of distinct functions / harnesses under contract for this property',
    }
    ev = {'property_id': prop, 'tier': tier, 'seed': seed, 'level': level, 'coverage': cov,
          'assumptions': trusted + ['assumed contract: %s' % a['fn'] for a in assumed] + cfg.get('assumptions', []),
          'wall_s': round(time.time() - t0, 2), 'violations': len(violations)}
    with open(os.path.join(EVID, prop + '.json'), 'w') as f:
        json.dump(ev, f, indent=1)
