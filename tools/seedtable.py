#!/usr/bin/env python3
"""Regenerates the table of DESIGN.md section 8 from seeded/*/meta.json (between the SEEDTABLE markers)."""
import glob
import json
import os
import re

ROOT = os.path.dirname(os.path.dirname(os.path.abspath(__file__)))
NOTES = {}
np_ = os.path.join(ROOT, 'seeded', 'NOTES.json')
if os.path.exists(np_):
    NOTES = json.load(open(np_))


def first_line(needs):
    for ln in (needs or '').split('\n'):
        ln = ln.strip().lstrip('#').strip()
        if ln:
            return re.sub(r'^Seed\s*[\w/]*\s*[-—:]+\s*', '', ln)[:110]
    return ''


rows = []
for d in sorted(glob.glob(os.path.join(ROOT, 'seeded', '*', 'meta.json'))):
    m = json.load(open(d))
    name = os.path.basename(os.path.dirname(d))
    c = m.get('check', {})
    lines = c.get('lines') or []
    obl = []
    for ln in lines:
        mm = re.search(r'obligation=(\S+)', ln)
        if mm and ln.startswith('VIOLATION'):
            o = mm.group(1)
            o = re.sub(r'^(xrun::\w+)::.*', r'\1', o)
            if o not in obl:
                obl.append(o)
    verdict = {1: 'detected', 0: 'MISSED (exit 0)', 2: 'undecided (exit 2)'}.get(c.get('rc'), '?')
    witness = ''
    if c.get('rc') == 1:
        witness = 'concrete input' if any('no-failing-input-found' not in ln for ln in lines if ln.startswith('VIOLATION')) else 'no input'
    rows.append('| %s | %s | %s | %s | %s | %s |' % (name, m.get('property'), first_line(m.get('needs')), verdict, ', '.join(obl[:3]), (witness + ' ' + NOTES.get(name, '')).strip()))
table = ['| seed | property | change (what it needs to manifest is in seeded/<seed>/meta.json) | `./check <property>` | failing obligations | witness / note |',
         '|------|----------|------|------|------|------|'] + rows
det = sum(1 for r in rows if '| detected |' in r)
text = '\n'.join(table) + '\n\n%d of %d kept seeds are detected (exit 1) by the registered quick check of their property.\n' % (det, len(rows))
p = os.path.join(ROOT, 'DESIGN.md')
s = open(p).read()
if '(SEEDTABLE)' in s:
    s = s.replace('(SEEDTABLE)', '<!-- SEEDTABLE-BEGIN -->\n' + text + '<!-- SEEDTABLE-END -->')
else:
    s = re.sub(r'<!-- SEEDTABLE-BEGIN -->.*<!-- SEEDTABLE-END -->', lambda _: '<!-- SEEDTABLE-BEGIN -->\n' + text + '<!-- SEEDTABLE-END -->', s, flags=re.S)
open(p, 'w').write(s)
print('seeds', len(rows), 'detected', det)
