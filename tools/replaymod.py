"""Replay of a recorded violation: re-derives the obligation from the current tree and reports whether it still fails."""
import json
import os
import sys


def replay(prop, path):
    import driver, registry
    with open(path) as f:
        rec = json.load(f)
    print('replaying obligation %s of %s' % (rec['obligation'], prop))
    scratch = os.path.join(os.environ.get('VERIF_SCRATCH', '/var/tmp/verif-scratch'), 'replay-%d' % os.getpid())
    os.makedirs(scratch, exist_ok=True)
    try:
        cfg = registry.PROPS[prop]
        if rec.get('backend') == 'verus':
            uname, label = rec['obligation'].split('::', 1)
            run = driver.VerusUnitRun(uname, scratch)
            if run.res.fatal:
                print('undecided:', run.res.fatal)
                return 2
            fr = run.res.fns.get(label)
            if fr is None:
                print('obligation no longer exists')
                return 2
            if fr.ok:
                print('obligation %s is discharged on the current tree' % rec['obligation'])
                return 0
            for e in fr.errors:
                print('STILL FAILS:', e['message'], '|', e['clause'])
                print(e['rendered'])
            w = rec.get('witness')
            if w:
                print('recorded witness:', json.dumps(w))
                for v in (w.get('values') or []):
                    if isinstance(v, dict) and v.get('suite') and v.get('case'):
                        import xrun_run
                        xr = xrun_run.run_suite(v['suite'], scratch, 'thorough', only=v['case'])
                        print('replay of the witness on the real code: xrun %s --only %s: %s' % (v['suite'], v['case'], xr['status']))
                        for fl in xr.get('failures', []):
                            print('STILL FAILS on the real code:', json.dumps(fl))
            return 1
        if rec.get('backend') == 'kani':
            # re-run the recorded harness on the real crates compiled from the current tree (with concrete playback of the counterexample)
            import kani_run
            name = rec['obligation'].split('kani::', 1)[1]
            groups = list(cfg.get('kani', [])) + [f['group'] for f in cfg.get('fallback', [])]
            for g in groups:
                hs = [h for h in g['harnesses'] if h['name'] == name]
                if hs:
                    g2 = dict(g)
                    h2 = dict(hs[0])
                    h2['playback'] = True
                    h2.pop('tier', None)
                    g2['harnesses'] = [h2]
                    kr = kani_run.run_group(g2, scratch, 'thorough')
                    h = kr['harnesses'][0]
                    print('harness %s: %s' % (name, h['status']))
                    if h['status'] == 'failed':
                        print('STILL FAILS:', h.get('failed_check'))
                        print('counterexample (kani concrete playback):', json.dumps(h.get('witness')))
                        return 1
                    return 0 if h['status'] == 'success' else 2
            print('harness no longer registered')
            return 2
        if rec.get('backend') == 'xrun':
            import xrun_run
            _, suite, case = rec['obligation'].split('::', 2)
            xr = xrun_run.run_suite(suite, scratch, 'thorough', only=case)
            print('xrun %s --only %s: %s' % (suite, case, xr['status']))
            if xr['status'] == 'failed':
                for fl in xr['failures']:
                    print('STILL FAILS on the real code:', json.dumps(fl))
                return 1
            return 0 if xr['status'] == 'success' else 2
        print('no replay procedure for backend', rec.get('backend'))
        return 2
    finally:
        import shutil
        shutil.rmtree(scratch, ignore_errors=True)
