"""Replay of a recorded violation: re-derives the obligation from the current tree and reports whether it still fails."""
import json
import os
import sys


def replay(prop, path):
    import driver, registry
    with open(path) as f:
        rec = json.load(f)
    print('replaying obligation %s of %s' % (rec['obligation'], prop))
    scratch = os.path.join(os.environ.get('VERIF_SCRATCH', '/var/tmp/verif-scratch'), 'replay-%d' % os.getpid())
    os.makedirs(scratch, exist_ok=True)
    try:
        cfg = registry.PROPS[prop]
        if rec.get('backend') == 'verus':
            uname, label = rec['obligation'].split('::', 1)
            run = driver.VerusUnitRun(uname, scratch)
            if run.res.fatal:
                print('undecided:', run.res.fatal)
                return 2
            fr = run.res.fns.get(label)
            if fr is None:
                print('obligation no longer exists')
                return 2
            if fr.ok:
                print('obligation %s is discharged on the current tree' % rec['obligation'])
                return 0
            for e in fr.errors:
                print('STILL FAILS:', e['message'], '|', e['clause'])
                print(e['rendered'])
            w = rec.get('witness')
            if w:
                print('recorded witness:', json.dumps(w))
            return 1
        print('no replay procedure for backend', rec.get('backend'))
        return 2
    finally:
        import shutil
        shutil.rmtree(scratch, ignore_errors=True)
