"""Minimal Rust tokenizer + item locator used by the extractor.

Only what is needed to find items (fn / impl / struct / enum / trait / const / type / mod)
by name in real source text and to copy their text verbatim.  No external dependencies.
"""
import re

IDENT_START = re.compile(r'[A-Za-z_]')
IDENT = re.compile(r'(?:r#)?[A-Za-z_][A-Za-z0-9_]*')
NUM = re.compile(r'(?:0x[0-9a-fA-F_]+|0b[01_]+|0o[0-7_]+|[0-9][0-9_]*(?:\.[0-9][0-9_]*)?(?:[eE][+-]?[0-9_]+)?)(?:[iuf](?:8|16|32|64|128|size))?')
PUNCT3 = ('<<=', '>>=', '...', '..=')
PUNCT2 = ('->', '=>', '::', '==', '!=', '<=', '>=', '&&', '||', '+=', '-=', '*=', '/=', '%=', '^=',
          '&=', '|=', '<<', '>>', '..')


class Tok:
    __slots__ = ('kind', 'text', 'start', 'end')

    def __init__(self, kind, text, start, end):
        self.kind, self.text, self.start, self.end = kind, text, start, end

    def __repr__(self):
        return 'Tok(%s,%r)' % (self.kind, self.text)


class LexError(Exception):
    pass


def lex(src):
    """Return the list of significant tokens (comments and whitespace are skipped; their text
    stays available through the start/end offsets).  Doc comments are skipped like comments."""
    toks = []
    i, n = 0, len(src)
    while i < n:
        c = src[i]
        if c.isspace():
            i += 1
            continue
        if src.startswith('//', i):
            j = src.find('\n', i)
            i = n if j < 0 else j
            continue
        if src.startswith('/*', i):
            depth, j = 1, i + 2
            while j < n and depth:
                if src.startswith('/*', j):
                    depth += 1
                    j += 2
                elif src.startswith('*/', j):
                    depth -= 1
                    j += 2
                else:
                    j += 1
            i = j
            continue
        # raw strings / byte strings
        m = re.match(r'(?:b|c)?r(#*)"', src[i:i + 40])
        if m:
            hashes = m.group(1)
            close = '"' + hashes
            j = src.find(close, i + m.end())
            if j < 0:
                raise LexError('unterminated raw string at %d' % i)
            j += len(close)
            toks.append(Tok('str', src[i:j], i, j))
            i = j
            continue
        if c == '"' or (c in 'bc' and i + 1 < n and src[i + 1] == '"'):
            j = i + (1 if c == '"' else 2)
            while j < n and src[j] != '"':
                j += 2 if src[j] == '\\' else 1
            j += 1
            toks.append(Tok('str', src[i:j], i, j))
            i = j
            continue
        if c == "'" or (c == 'b' and i + 1 < n and src[i + 1] == "'"):
            k = i + (0 if c == "'" else 1)
            # char literal or lifetime
            m = re.match(r"'(?:\\x[0-9a-fA-F]{2}|\\u\{[0-9a-fA-F_]+\}|\\.|[^\\'])'", src[k:k + 16])
            if m:
                j = k + m.end()
                toks.append(Tok('char', src[i:j], i, j))
                i = j
                continue
            m = re.match(r"'[A-Za-z_][A-Za-z0-9_]*", src[k:k + 64])
            if m and c == "'":
                j = k + m.end()
                toks.append(Tok('lifetime', src[i:j], i, j))
                i = j
                continue
            raise LexError('bad quote at %d: %r' % (i, src[i:i + 20]))
        if IDENT_START.match(c):
            m = IDENT.match(src, i)
            j = m.end()
            toks.append(Tok('ident', src[i:j], i, j))
            i = j
            continue
        if c.isdigit():
            m = NUM.match(src, i)
            j = m.end()
            # `0..n` : do not swallow the range dots
            txt = src[i:j]
            if '.' in txt and src.startswith('..', i + txt.index('.')):
                j = i + txt.index('.')
            elif txt.endswith('.'):
                j -= 1
            toks.append(Tok('num', src[i:j], i, j))
            i = j
            continue
        for p in PUNCT3:
            if src.startswith(p, i):
                toks.append(Tok('punct', p, i, i + 3))
                i += 3
                break
        else:
            for p in PUNCT2:
                if src.startswith(p, i):
                    toks.append(Tok('punct', p, i, i + 2))
                    i += 2
                    break
            else:
                toks.append(Tok('punct', c, i, i + 1))
                i += 1
    return toks


OPEN = {'(': ')', '[': ']', '{': '}'}
CLOSE = {')', ']', '}'}


def match_close(toks, i):
    """toks[i] is an opening bracket; return index of its matching closer."""
    depth = 0
    j = i
    while j < len(toks):
        t = toks[j].text
        if toks[j].kind == 'punct':
            if t in OPEN:
                depth += 1
            elif t in CLOSE:
                depth -= 1
                if depth == 0:
                    return j
        j += 1
    raise LexError('unbalanced bracket at token %d (%s)' % (i, toks[i].text))


ITEM_KW = {'fn', 'struct', 'enum', 'union', 'trait', 'impl', 'mod', 'const', 'static', 'type', 'use',
           'macro_rules', 'extern'}
QUALS = {'pub', 'unsafe', 'async', 'default', 'crate'}


class Item:
    """One syntactic item.  Offsets are token indices into the file's token list.
    attr_lo..hi is the whole item including outer attributes; kw is the index of the keyword;
    body_lo/body_hi are the `{` and `}` token indices when the item has a braced body."""

    def __init__(self, kind, name, header, attr_lo, lo, kw, hi, body_lo, body_hi, attrs):
        self.kind, self.name, self.header = kind, name, header
        self.attr_lo, self.lo, self.kw, self.hi = attr_lo, lo, kw, hi
        self.body_lo, self.body_hi = body_lo, body_hi
        self.attrs = attrs  # list of (lo, hi) token index spans, one per outer attribute
        self.children = []

    def __repr__(self):
        return 'Item(%s %s)' % (self.kind, self.header if self.kind == 'impl' else self.name)


def norm(toks, lo, hi):
    """Whitespace-free normal form of a token span, used to compare headers."""
    return ' '.join(t.text for t in toks[lo:hi])


def parse_items(toks, lo, hi):
    """Parse the items in toks[lo:hi] (one scope: file, mod body, impl body or trait body)."""
    items = []
    i = lo
    while i < hi:
        attr_lo = i
        attrs = []
        # outer / inner attributes
        while i < hi and toks[i].text == '#':
            j = i + 1
            inner = False
            if toks[j].text == '!':
                inner = True
                j += 1
            if toks[j].text != '[':
                break
            e = match_close(toks, j)
            if not inner:
                attrs.append((i, e + 1))
            else:
                attr_lo = e + 1
            i = e + 1
        if i >= hi:
            break
        start = i
        # visibility and qualifiers
        while i < hi and toks[i].kind == 'ident' and toks[i].text in QUALS:
            if toks[i].text == 'pub' and i + 1 < hi and toks[i + 1].text == '(':
                i = match_close(toks, i + 1) + 1
            else:
                i += 1
        if i < hi and toks[i].text == 'const' and i + 1 < hi and toks[i + 1].text in ('fn', 'unsafe', 'async', 'extern'):
            i += 1
            while toks[i].text in ('unsafe', 'async'):
                i += 1
        if i < hi and toks[i].text == 'extern' and i + 1 < hi and toks[i + 1].kind == 'str':
            i += 2
        if i >= hi:
            break
        kw = toks[i].text
        kwi = i
        if toks[i].kind != 'ident' or (kw not in ITEM_KW):
            # macro invocation item:  path ! ( ... ) ;   or  path ! { ... }
            j = i
            while j < hi and toks[j].text != '!':
                j += 1
            if j + 1 < hi and toks[j + 1].text in OPEN:
                e = match_close(toks, j + 1)
                if e + 1 < hi and toks[e + 1].text == ';':
                    e += 1
                items.append(Item('macro', toks[i].text, '', attr_lo, start, kwi, e + 1, None, None, attrs))
                i = e + 1
                continue
            if j + 2 < hi and toks[j + 1].kind == 'ident' and toks[j + 2].text in OPEN:  # macro_rules! name {..}
                e = match_close(toks, j + 2)
                items.append(Item('macro', toks[j + 1].text, '', attr_lo, start, kwi, e + 1, None, None, attrs))
                i = e + 1
                continue
            raise LexError('cannot parse item at token %d: %s' % (i, norm(toks, i, min(hi, i + 8))))
        # find the end of the item
        j = i + 1
        body_lo = body_hi = None
        semi_only = kw in ('const', 'static', 'type', 'use', 'extern')
        while j < hi:
            t = toks[j]
            if t.kind == 'punct':
                if t.text == ';':
                    break
                if t.text == '{' and not semi_only:
                    body_lo = j
                    body_hi = match_close(toks, j)
                    j = body_hi
                    break
                if t.text in OPEN:
                    j = match_close(toks, j)
            j += 1
        end = j + 1
        # tuple struct: `struct A(..);` handled by ';' ; unit struct likewise
        if kw == 'impl':
            name = None
            header = norm(toks, kwi, body_lo if body_lo is not None else j)
        else:
            header = ''
            name = toks[kwi + 1].text if kwi + 1 < hi else None
            if kw == 'macro_rules':
                name = toks[kwi + 2].text
        it = Item(kw, name, header, attr_lo, start, kwi, end, body_lo, body_hi, attrs)
        if kw in ('impl', 'trait', 'mod') and body_lo is not None:
            it.children = parse_items(toks, body_lo + 1, body_hi)
        items.append(it)
        i = end
    return items


class SourceFile:
    def __init__(self, path, text=None):
        self.path = path
        if text is None:
            with open(path, encoding='utf-8') as f:
                text = f.read()
        self.text = text
        self.toks = lex(text)
        self.items = parse_items(self.toks, 0, len(self.toks))

    def span_text(self, lo, hi):
        """Source text of token span [lo, hi) verbatim (inner comments and whitespace kept)."""
        if lo >= hi:
            return ''
        return self.text[self.toks[lo].start:self.toks[hi - 1].end]

    def find(self, path, items=None):
        """Locate an item.  `path` is a list of selectors, e.g.
        ['mod op', 'impl TryFromBytes for Op', 'fn try_from_bytes'] or ['struct Stack'].
        An impl selector is compared on its whitespace-normalised header."""
        items = self.items if items is None else items
        sel = path[0]
        kind, _, rest = sel.partition(' ')
        if sel.startswith('impl') and not sel[4:5].isalnum() and sel[4:5] != '_':
            kind = 'impl'
        found = []
        for it in items:
            if kind == 'impl' and it.kind == 'impl':
                if it.header == ' '.join(t.text for t in lex(sel)):
                    found.append(it)
            elif it.kind == kind and it.name == rest.strip():
                found.append(it)
        if len(found) != 1:
            raise KeyError('%s: selector %r matched %d items' % (self.path, sel, len(found)))
        it = found[0]
        if len(path) == 1:
            return it
        return self.find(path[1:], it.children)
