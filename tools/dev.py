#!/usr/bin/env python3
"""dev helper: emit + run a unit, print per-function summary (non-canary failures in detail)."""
import sys, importlib, os
sys.path.insert(0, os.path.join(os.path.dirname(os.path.abspath(__file__))))
sys.path.insert(0, os.path.join(os.path.dirname(os.path.abspath(__file__)), '..', 'specs', 'units'))
import verus_run
name = sys.argv[1]
m = importlib.import_module(name)
u = m.build('/var/tmp/asm_expanded.rs')
text, table = u.emit()
r = verus_run.run(name, text, table, '/var/tmp/vdev', count_obligations=('-o' in sys.argv))
print('wall %.1fs verified=%d errors=%d fatal=%s' % (r.wall_s, r.verified, r.n_errors, r.fatal))
bad = 0
for lab, fr in r.fns.items():
    if fr.kind == 'canary':
        if fr.ok:
            print('CANARY VERIFIED (vacuous!):', lab)
        continue
    if not fr.ok:
        bad += 1
        print('FAIL', lab)
        for e in fr.errors[:6]:
            print('   -', e['message'], '| line', e['line'], '|', e['clause'][:150])
            for s in e['sites'][1:3]:
                print('        site', s['line'], s['text'][:120], s['label'])
    elif '-v' in sys.argv:
        print('ok  ', lab, fr.time_ms, 'ms', fr.obligations, 'obl')
for h in r.unmapped[:10]:
    print('UNMAPPED', h['message'][:300], h.get('line'))
print('functions: %d, failing: %d' % (sum(1 for f in r.fns.values() if f.kind != 'canary'), bad))
