"""Unit description and emission: one Verus file per unit, built from /repo's working tree."""
import os
import re
import sys

sys.path.insert(0, os.path.dirname(os.path.abspath(__file__)))
from rustlex import SourceFile, lex, match_close, norm  # noqa: E402
from weave import (Edits, FnSpec, Log, Undecided, generic_attr_edits, closure_underscore_edits, weave_fn,  # noqa: E402
                   sha, _find_seq)

REPO = os.environ.get('VERIF_REPO', '/repo')
_cache = {}
# labels the driver asks to demote (emit as external_body with the contract assumed, reported UNDECIDED) because Verus' front end
# rejected their current text; set before build()
FORCE_DEMOTE = {}


def source(path, text=None):
    key = path
    if key not in _cache:
        full = path if path.startswith('/') else os.path.join(REPO, path)
        _cache[key] = SourceFile(full, text)
    return _cache[key]


def clear_sources():
    _cache.clear()


class Chunk:
    def __init__(self, text, label=None, kind='text', spec=None, src=None):
        self.text, self.label, self.kind, self.spec, self.src = text, label, kind, spec, src


class Module:
    def __init__(self, unit, name, file=None, uses='', vis='pub', parent=None):
        self.unit, self.name, self.file, self.uses, self.vis = unit, name, file, uses, vis
        self.qual = ((parent.qual + '::') if (parent is not None and parent.qual) else '') + name
        self.chunks = []
        self.sub = []

    def sf(self, file=None):
        return source(file or self.file)

    # ---- spec-only text (spec fns, proof fns, View impls, broadcast uses). Never executable.
    def spec(self, text, label=None, props=None):
        if props:
            # a block of proof fns (lemmas) that decides part of a property: failures inside it are reported under `label`
            self.chunks.append(Chunk(text, label, 'lemma', FnSpec(label, props=props, mode='lemma', ensures='(proof fns; see the generated text)')))
        else:
            self.chunks.append(Chunk(text, label or 'spec', 'spec'))
        return self

    # ---- D4: stand-in for an item that only has to exist for rustc (never called from verified code); #[verifier::external]
    def stub(self, text, note):
        if '#[verifier::external]' not in text:
            raise Undecided('stub must be #[verifier::external]')
        self.chunks.append(Chunk(text, 'stub', 'stub'))
        self.unit.log.rw('D4', self.qual, note, text.strip()[:120])
        return self

    # ---- verbatim data items (struct / enum / type / const / trait without contracts)
    def item(self, sel, file=None, from_impls=True, extra_attrs='', rewrites=None, assumed_clone=False):
        sf = self.sf(file)
        path = sel if isinstance(sel, list) else [sel]
        it = sf.find(path)
        where = '%s::%s' % (self.qual, path[-1])
        toks = sf.toks
        ed = Edits(sf, toks[it.attr_lo].start, toks[it.hi - 1].end)
        froms = []
        if it.kind == 'enum' and from_impls:
            froms = _thiserror_froms(sf, it)
        generic_attr_edits(sf, it.attr_lo, it.hi, ed, self.unit.log, where, drop_derives=(('Clone',) if assumed_clone else ()))
        for rule, before, after in (rewrites or []):
            pat = [t.text for t in lex(before)]
            hits = _find_seq(toks, it.kw, it.hi, pat)
            if len(hits) != 1:
                raise Undecided('%s: rewrite %s anchor %r matched %d times' % (where, rule, before, len(hits)))
            h = hits[0]
            ed.add(toks[h].start, toks[h + len(pat) - 1].end, after)
            self.unit.log.rw(rule, where, before, after)
        text = extra_attrs + ed.render()
        self.chunks.append(Chunk(text, where, 'item', src=sha(sf.span_text(it.attr_lo, it.hi))))
        if assumed_clone:
            # T-std: the derived Clone of a non-Copy type returns an equal value (Verus has no spec for it)
            self.chunks.append(Chunk('impl core::clone::Clone for %s { #[verifier::external_body] fn clone(&self) -> (r: Self) ensures r == *self { unimplemented!() } }\n' % it.name,
                                     where + '::clone', 'd1clone'))
            self.unit.log.rw('D1', where, '#[derive(Clone)]', 'external_body Clone impl with assumed contract r == *self')
            self.unit.log.escapes.append({'fn': where + '::clone', 'kind': 'external_body', 'contract': 'r == *self', 'note': 'derived Clone (T-std)'})
        for (gen_decl, gen_use, ename, variant, ty) in froms:
            t = ('impl%s core::convert::From<%s> for %s%s { fn from(e: %s) -> (r: Self) { %s::%s(e) } }\n'
                 'impl%s vstd::std_specs::convert::FromSpecImpl<%s> for %s%s {\n'
                 '    open spec fn obeys_from_spec() -> bool { true }\n'
                 '    open spec fn from_spec(e: %s) -> Self { %s::%s(e) }\n}\n') % (
                gen_decl, ty, ename, gen_use, ty, ename, variant,
                gen_decl, ty, ename, gen_use, ty, ename, variant)
            self.chunks.append(Chunk(t, '%s::From<%s>' % (ename, ty), 'd2'))
            self.unit.log.rw('D2', where, '%s(#[from] %s)' % (variant, ty), 'impl From<%s> for %s + FromSpecImpl' % (ty, ename))
        return self

    # ---- free function
    def fn(self, sel, spec=None, file=None):
        sf = self.sf(file)
        path = sel if isinstance(sel, list) else ['fn ' + sel]
        it = sf.find(path)
        self._emit_fn(sf, it, spec, prefix='')
        return self

    def _emit_fn(self, sf, it, spec, prefix, allow_canary=True):
        name = (spec.rename if spec and spec.rename else it.name)
        label = ('%s::%s%s' % (self.qual, prefix, name)) if self.qual else (prefix + name)
        try:
            if label in FORCE_DEMOTE and spec is not None and spec.mode == 'verify':
                raise Undecided(FORCE_DEMOTE[label])
            text = weave_fn(sf, it, spec, self.unit.log, label)
        except Undecided as e:
            if spec is None or spec.mode != 'verify':
                raise
            # the contract of this function can no longer be woven / checked on the current text (lost anchor, construct outside Verus):
            # keep the unit alive by emitting it with its pre/postcondition ASSUMED, and report the function as UNDECIDED
            self.unit.demoted[label] = str(e)
            # a body the front end (rustc name resolution / Verus) rejects cannot stay in the file even as external_body: drop it
            spec = FnSpec(spec.name, requires=spec.requires, ensures=spec.ensures, ret=spec.ret, mode=('assumed_sig' if label in FORCE_DEMOTE else 'assumed'), props=spec.props,
                          rename=spec.rename, params=spec.params, note='DEMOTED (undecided on the current text): %s' % e)
            text = weave_fn(sf, it, spec, self.unit.log, label)
            allow_canary = False
        kind = 'fn'
        if spec is not None and spec.mode in ('assumed', 'assumed_sig'):
            kind = 'assumed'
            self.unit.log.escapes.append({'fn': label, 'kind': 'external_body' + (' (body dropped)' if spec.mode == 'assumed_sig' else ''), 'contract': (spec.ensures or '').strip()[:300],
                                          'note': spec.note or ''})
        elif spec is not None and spec.mode == 'external':
            kind = 'external'
            self.unit.log.escapes.append({'fn': label, 'kind': 'external (ignored by Verus, compiled by rustc)', 'contract': '', 'note': spec.note or ''})
        elif spec is None or not (spec.requires or spec.ensures or spec.loops):
            kind = 'fn'  # still verified for safety obligations
        self.chunks.append(Chunk(text, label, kind, spec, src=sha(sf.span_text(it.attr_lo, it.hi))))
        want_canary = spec is not None and spec.mode == 'verify' and allow_canary and \
            (spec.canary if spec.canary is not None else bool(spec.requires))
        if want_canary:
            ctext = weave_fn(sf, it, spec, self.unit.log, label, canary=True)
            self.chunks.append(Chunk(ctext, label + '__canary', 'canary', spec))
        return label

    # ---- R8: dispatcher projection (outlining of the arms of `fn f(..) { match op { P_i => e_i } }`)
    def fn_r8(self, sel, spec, arm_specs, file=None):
        sf = self.sf(file)
        it = sf.find(sel if isinstance(sel, list) else ['fn ' + sel])
        toks = sf.toks
        b0, b1 = it.body_lo, it.body_hi
        if toks[b0 + 1].text != 'match':
            raise Undecided('%s: R8 needs a body that is a single match' % it.name)
        # scrutinee up to `{`
        k = b0 + 2
        while toks[k].text != '{':
            k += 1
        m0, m1 = k, match_close(toks, k)
        if m1 + 1 != b1:
            raise Undecided('%s: R8 needs a body that is a single match (trailing tokens)' % it.name)
        scrut = sf.text[toks[b0 + 2].start:toks[k - 1].end]
        # params text
        p0 = it.kw + 2
        while toks[p0].text != '(':
            p0 += 1
        p1 = match_close(toks, p0)
        params = sf.text[toks[p0].start:toks[p1].end]
        pnames = []
        depth = 0
        j = p0 + 1
        expect = True
        while j < p1:
            t = toks[j]
            if t.text in ('(', '[', '<'):
                depth += 1
            elif t.text in (')', ']', '>'):
                depth -= 1
            elif t.text == ',' and depth == 0:
                expect = True
            elif expect and t.kind == 'ident' and toks[j + 1].text == ':':
                pnames.append(t.text)
                expect = False
            j += 1
        sig_rest = sf.text[toks[p1].end:toks[b0].start]     # -> Ret where ...
        head = sf.text[toks[it.lo].start:toks[it.kw + 1].end]  # pub fn name
        generics = sf.text[toks[it.kw + 1].end:toks[p0].start]
        # arms
        arms = []
        j = m0 + 1
        while j < m1:
            ps = j
            while toks[j].text != '=>':
                if toks[j].text in ('(', '[', '{'):
                    j = match_close(toks, j)
                j += 1
            pat = sf.text[toks[ps].start:toks[j - 1].end]
            last_ident = [t.text for t in toks[ps:j] if t.kind == 'ident'][-1]
            j += 1
            es = j
            if toks[j].text == '{':
                e = match_close(toks, j)
                # block arm; a method chain / `?` may follow, otherwise the arm ends at the brace
                j = e + 1
                if j < m1 and toks[j].text in ('.', '?'):
                    while j < m1 and toks[j].text != ',':
                        if toks[j].text in ('(', '[', '{'):
                            j = match_close(toks, j)
                        j += 1
            else:
                while j < m1 and toks[j].text != ',':
                    if toks[j].text in ('(', '[', '{'):
                        j = match_close(toks, j)
                    j += 1
            expr = sf.text[toks[es].start:toks[j - 1].end]
            arms.append((pat, last_ident, expr, es, j))
            if j < m1 and toks[j].text == ',':
                j += 1
        base = '%s::%s' % (self.qual, it.name) if self.qual else it.name
        self.unit.log.rw('R8', base, 'match %s { %d arms }' % (scrut, len(arms)), 'one function per arm + generated dispatcher')
        disp_arms = []
        for pat, nm, expr, es, ee in arms:
            fname = '%s__%s' % (it.name, nm)
            asp = arm_specs.get(nm) or FnSpec(fname)
            label = '%s::%s' % (self.qual, fname) if self.qual else fname
            # use the weaver on a synthetic source so that generic rewrites and declared rewrites apply to the arm text
            synth = 'pub fn %s%s%s%s{\n%s\n}\n' % (fname, generics, params, sig_rest, expr)
            ssf = SourceFile(sf.path + '#' + fname, synth)
            sit = ssf.find(['fn ' + fname])
            text = weave_fn(ssf, sit, asp, self.unit.log, label)
            kind = 'assumed' if asp.mode == 'assumed' else 'fn'
            if kind == 'assumed':
                self.unit.log.escapes.append({'fn': label, 'kind': 'external_body', 'contract': (asp.ensures or '').strip()[:300], 'note': asp.note or ''})
            self.chunks.append(Chunk(text, label, kind, asp, src=sha(expr)))
            if asp.mode == 'verify' and asp.requires and (asp.canary is None or asp.canary):
                ctext = weave_fn(ssf, sit, asp, self.unit.log, label, canary=True)
                self.chunks.append(Chunk(ctext, label + '__canary', 'canary', asp))
            disp_arms.append('        %s => %s(%s),' % (pat, fname, ', '.join(pnames)))
        synth = '%s%s%s%s{\n    match %s {\n%s\n    }\n}\n' % (head, generics, params, sig_rest, scrut, '\n'.join(disp_arms))
        ssf = SourceFile(sf.path + '#' + it.name, synth)
        sit = ssf.find(['fn ' + it.name])
        label = base
        text = weave_fn(ssf, sit, spec, self.unit.log, label)
        self.chunks.append(Chunk(text, label, 'fn', spec, src=sha(sf.span_text(it.attr_lo, it.hi))))
        return self

    # ---- impl block with selected members
    def impl(self, header, members, file=None, header_text=None, trait_impl=None):
        """members: list of FnSpec | ('const', name) | ('type', name) | ('fn', name) (no contract)."""
        sf = self.sf(file)
        it = sf.find(header if isinstance(header, list) else [header])
        toks = sf.toks
        is_trait = trait_impl if trait_impl is not None else (' for ' in it.header)
        head = header_text or sf.text[toks[it.attr_lo].start:toks[it.body_lo].end]
        # attributes on the impl itself
        ed = Edits(sf, toks[it.attr_lo].start, toks[it.body_lo].end)
        generic_attr_edits(sf, it.attr_lo, it.body_lo, ed, self.unit.log, self.name + '::' + it.header)
        head = header_text or ed.render()
        self.chunks.append(Chunk(head + '\n', None, 'text'))
        tyname = _impl_type_name(it.header)
        for m in members:
            if isinstance(m, tuple) and m[0] == 'spec':
                # spec-only member text (e.g. the definition of a spec fn the woven trait declares)
                self.chunks.append(Chunk(m[1] + '\n', None, 'text'))
            elif isinstance(m, tuple) and m[0] == 'const_ensures':
                # R11: `pub const NAME: T = EXPR;` -> `pub exec const NAME: T ensures <clause> { EXPR }` (Verus syntax for a const with a contract)
                _, name, clause, props = m[:4]
                hint = m[4] if len(m) > 4 else ''
                ch = [c for c in it.children if c.kind == 'const' and c.name == name]
                if len(ch) != 1:
                    raise Undecided('%s: const %s not found in %s' % (self.name, name, it.header))
                c = ch[0]
                ed2 = Edits(sf, toks[c.attr_lo].start, toks[c.hi - 1].end)
                generic_attr_edits(sf, c.attr_lo, c.hi, ed2, self.unit.log, self.name)
                eq = None
                k = c.kw
                while k < c.hi:
                    if toks[k].text in ('(', '[', '{', '<'):
                        pass
                    if toks[k].text == '=' :
                        eq = k
                        break
                    k += 1
                if eq is None or toks[c.hi - 1].text != ';':
                    raise Undecided('%s: const %s has no initializer' % (self.name, name))
                ed2.add(toks[c.kw].start, toks[c.kw].start, 'exec ')
                ed2.add(toks[eq].start, toks[eq].end, 'ensures ' + clause + ' {' + ((' proof { ' + hint + ' }') if hint else ''))
                ed2.add(toks[c.hi - 1].start, toks[c.hi - 1].end, ' }')
                label = '%s::%s::%s' % (self.qual, tyname, name)
                self.unit.log.rw('R11', label, 'const %s: .. = EXPR;' % name, 'exec const %s: .. ensures %s { EXPR }' % (name, clause))
                self.chunks.append(Chunk(ed2.render() + '\n', label, 'fn', FnSpec(name, ensures=clause, props=props), src=sha(sf.span_text(c.attr_lo, c.hi))))
            elif isinstance(m, tuple):
                kind, name = m
                ch = [c for c in it.children if c.kind == kind and c.name == name]
                if len(ch) != 1:
                    raise Undecided('%s: %s %s not found in %s' % (self.name, kind, name, it.header))
                c = ch[0]
                if kind == 'fn':
                    self._emit_fn(sf, c, None, prefix=tyname + '::')
                else:
                    ed2 = Edits(sf, toks[c.attr_lo].start, toks[c.hi - 1].end)
                    generic_attr_edits(sf, c.attr_lo, c.hi, ed2, self.unit.log, self.name)
                    self.chunks.append(Chunk(ed2.render() + '\n', None, 'text'))
            else:
                ch = [c for c in it.children if c.kind == 'fn' and c.name == m.name]
                if len(ch) != 1:
                    raise Undecided('%s: fn %s not found in %s' % (self.name, m.name, it.header))
                self._emit_fn(sf, ch[0], m, prefix=tyname + '::', allow_canary=not is_trait)
        self.chunks.append(Chunk('}\n', None, 'text'))
        return self

    # ---- trait declaration with selected members (contracts allowed on methods)
    def trait(self, sel, members=None, file=None, extra=''):
        sf = self.sf(file)
        it = sf.find(sel if isinstance(sel, list) else [sel])
        toks = sf.toks
        ed = Edits(sf, toks[it.attr_lo].start, toks[it.body_lo].end)
        generic_attr_edits(sf, it.attr_lo, it.body_lo, ed, self.unit.log, self.name)
        self.chunks.append(Chunk(ed.render() + '\n' + extra + '\n', None, 'text'))
        specs = {m.name: m for m in (members or []) if isinstance(m, FnSpec)}
        for c in it.children:
            if c.kind == 'fn':
                sp = specs.get(c.name)
                label = '%s::%s::%s' % (self.qual, it.name, c.name)
                text = weave_fn(sf, c, sp, self.unit.log, label)
                self.chunks.append(Chunk(text + '\n', label, 'traitfn', sp))
            else:
                ed2 = Edits(sf, toks[c.attr_lo].start, toks[c.hi - 1].end)
                generic_attr_edits(sf, c.attr_lo, c.hi, ed2, self.unit.log, self.name)
                self.chunks.append(Chunk(ed2.render() + '\n', None, 'text'))
        self.chunks.append(Chunk('}\n', None, 'text'))
        return self


def auto_std_uses(sf, have_text):
    """`use std::..` / `use core::..` / `use alloc::..` declarations at the top level of the source file, flattened to one path per imported
    name, minus the names the unit header already imports.  Emitted so that a change which starts using another std item (BTreeSet, VecDeque ..)
    is still resolved by rustc instead of making the unit undecided."""
    toks = sf.toks
    out = []
    have = set(re.findall(r'[A-Za-z_][A-Za-z0-9_]*', have_text))
    i = 0
    depth = 0
    n = len(toks)
    while i < n:
        t = toks[i]
        if t.text in ('{', '(', '['):
            i = match_close(toks, i) + 1
            continue
        if t.text == 'use' and toks[i + 1].text in ('std', 'core', 'alloc') and (i == 0 or toks[i - 1].text in (';', '}', ']')):
            j = i + 1
            while toks[j].text != ';':
                if toks[j].text == '{':
                    j = match_close(toks, j)
                j += 1

            def flat(lo, hi, prefix):
                k = lo
                seg = []
                while k < hi:
                    x = toks[k]
                    if x.text == '{':
                        e = match_close(toks, k)
                        flat(k + 1, e, prefix + seg)
                        seg = None
                        k = e + 1
                        continue
                    if x.text == ',':
                        if seg:
                            emit(prefix + seg)
                        seg = []
                    elif x.text == '::':
                        pass
                    elif x.text == 'as':
                        seg = None   # aliases are not auto-imported
                        while k < hi and toks[k].text != ',':
                            k += 1
                        continue
                    elif seg is not None:
                        seg.append(x.text)
                    else:
                        seg = [x.text] if x.text != ',' else []
                    k += 1
                if seg:
                    emit(prefix + seg)

            def emit(path):
                name = path[-1]
                if name in ('self', '*') or name in have or len(path) < 2:
                    return
                have.add(name)
                out.append('#[allow(unused_imports)] use %s;' % '::'.join(path))
            flat(i + 1, j, [])
            i = j + 1
            continue
        i += 1
    return out


def _impl_type_name(header):
    # 'impl < E > OpError < E >' -> OpError ; 'impl From < X > for Y' -> Y
    h = header
    if ' for ' in h:
        h = h.split(' for ', 1)[1]
    else:
        h = h[len('impl'):].strip()
        if h.startswith('<'):
            depth = 0
            for i, ch in enumerate(h):
                if ch == '<':
                    depth += 1
                elif ch == '>':
                    depth -= 1
                    if depth == 0:
                        h = h[i + 1:].strip()
                        break
    m = re.match(r'[&\s]*([A-Za-z_][A-Za-z0-9_]*(?:\s*::\s*[A-Za-z_][A-Za-z0-9_]*)*)', h)
    return m.group(1).replace(' ', '').split('::')[-1] if m else h


def _thiserror_froms(sf, it):
    """Find `Variant(#[from] Type)` in an enum item; returns tuples for D2 emission."""
    toks = sf.toks
    res = []
    # generics
    k = it.kw + 2
    gen_decl = gen_use = ''
    if toks[k].text == '<':
        depth, j = 0, k
        while True:
            if toks[j].text == '<':
                depth += 1
            elif toks[j].text == '>':
                depth -= 1
                if depth == 0:
                    break
            j += 1
        params = []
        cur = []
        for t in toks[k + 1:j]:
            if t.text == ',':
                params.append(cur)
                cur = []
            else:
                cur.append(t.text)
        if cur:
            params.append(cur)
        names = []
        for p in params:
            nm = []
            for x in p:
                if x in ('=', ':'):
                    break
                nm.append(x)
            names.append(''.join(nm))
        gen_decl = '<' + ', '.join(names) + '>'
        gen_use = gen_decl
    i = it.body_lo + 1
    while i < it.body_hi:
        t = toks[i]
        if t.kind == 'ident' and toks[i + 1].text == '(' and toks[i - 1].text in ('{', ',', ']'):
            e = match_close(toks, i + 1)
            inner = norm(toks, i + 2, e)
            if inner.startswith('# [ from ]'):
                ty = sf.text[toks[i + 6].start:toks[e - 1].end]
                res.append((gen_decl, gen_use, it.name, t.text, ty))
            i = e + 1
            continue
        if t.text == '#' and toks[i + 1].text == '[':
            i = match_close(toks, i + 1) + 1
            continue
        i += 1
    return res


class Unit:
    def __init__(self, name):
        self.name = name
        self.modules = []
        self.demoted = {}
        self.log = Log()
        self.header = ''
        self.prelude = []

    def module(self, name, file=None, uses='', parent=None, vis='pub'):
        m = Module(self, name, file, uses, vis, parent)
        (parent.sub if parent else self.modules).append(m)
        return m

    def emit(self):
        """Returns (text, line_table) where line_table is a list of
        dict(lo, hi, label, kind, spec) with 1-based inclusive line ranges."""
        out = []
        table = []
        line = [1]

        def put(text, ch=None, label=None, kind=None):
            if not text.endswith('\n'):
                text += '\n'
            n = text.count('\n')
            if ch is not None and ch.label:
                table.append({'lo': line[0], 'hi': line[0] + n - 1, 'label': ch.label, 'kind': ch.kind,
                              'spec': ch.spec, 'src': ch.src})
            out.append(text)
            line[0] += n

        put(self.header)
        put('verus! {\n')
        for p in self.prelude:
            put(p, Chunk(p, 'prelude', 'spec'))

        def emit_mod(m, depth):
            put('%s mod %s {\n' % (m.vis, m.name) if m.name else '')
            put('#[allow(unused_imports)] use vstd::prelude::*;\n' + m.uses + '\n')
            if m.file and getattr(m, 'auto_uses', True):
                try:
                    extra = auto_std_uses(m.sf(), m.uses + ' Vec Option Result Box String Some None Ok Err')
                except Exception:
                    extra = []
                if extra:
                    put('\n'.join(extra) + '\n')
            for ch in m.chunks:
                put(ch.text, ch)
            for s in m.sub:
                emit_mod(s, depth + 1)
            put('}\n' if m.name else '')

        for m in self.modules:
            emit_mod(m, 0)
        put('} // verus!\nfn main() {}\n')
        return ''.join(out), table
