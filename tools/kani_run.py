"""Run groups of Kani harnesses (real compiled crates from /repo) with a watchdog.

A group: {'crate': 'kani/<dir>', 'kind': 'complete'|'bounded', 'harnesses': [{'name', 'claim', 'bound'?, 'tier'?, 'unwind'?}],
          'flags': [...], 'timeout_s': int, 'mem_gb': int, 'deciding': bool}
"""
import os
import re
import shutil
import signal
import subprocess
import threading
import time

ROOT = os.path.dirname(os.path.dirname(os.path.abspath(__file__)))
REPO = os.environ.get('VERIF_REPO', '/repo')
CACHE = os.environ.get('VERIF_CACHE_DIR', '/var/tmp/verif-cache')


def _rss_tree_kb(pid):
    total = 0
    try:
        out = subprocess.run(['ps', '-o', 'pid=,ppid=,rss=', '-A'], capture_output=True, text=True).stdout
    except Exception:
        return 0
    kids = {}
    rss = {}
    for ln in out.split('\n'):
        parts = ln.split()
        if len(parts) == 3:
            p, pp, r = int(parts[0]), int(parts[1]), int(parts[2])
            kids.setdefault(pp, []).append(p)
            rss[p] = r
    stack = [pid]
    while stack:
        p = stack.pop()
        total += rss.get(p, 0)
        stack += kids.get(p, [])
    return total


def _run_one(crate_dir, target_dir, h, flags, timeout_s, mem_gb, results, lock_build):
    name = h['name']
    cmd = ['cargo', 'kani', '--harness', name, '--exact'] + list(flags) + list(h.get('flags', []))
    if h.get('playback'):
        cmd += ['-Z', 'concrete-playback', '--concrete-playback=print']
    env = dict(os.environ, CARGO_NET_OFFLINE='true', CARGO_TARGET_DIR=target_dir)
    t0 = time.time()
    p = subprocess.Popen(cmd, cwd=crate_dir, env=env, stdout=subprocess.PIPE, stderr=subprocess.STDOUT, text=True, start_new_session=True)
    status = None
    out_chunks = []

    def reader():
        for ln in p.stdout:
            out_chunks.append(ln)
    th = threading.Thread(target=reader, daemon=True)
    th.start()
    peak = 0
    while p.poll() is None:
        time.sleep(2)
        rss = _rss_tree_kb(p.pid)
        peak = max(peak, rss)
        if time.time() - t0 > timeout_s:
            status = 'timeout(%ds)' % timeout_s
        elif rss > mem_gb * 1024 * 1024:
            status = 'memory(>%dGB)' % mem_gb
        if status:
            try:
                os.killpg(p.pid, signal.SIGKILL)
            except Exception:
                pass
            break
    th.join(timeout=5)
    out = ''.join(out_chunks)
    wall = time.time() - t0
    rec = {'name': name, 'claim': h.get('claim', ''), 'bound': h.get('bound', ''), 'wall_s': round(wall, 1), 'peak_rss_mb': peak // 1024}
    if status is None:
        if 'VERIFICATION:- SUCCESSFUL' in out:
            status = 'success'
        elif 'VERIFICATION:- FAILED' in out and re.search(r'CBMC failed with status|CBMC timed out|out of memory|unwinding assertion', out, re.I) and not re.search(r'Failed Checks: (?!.*unwinding)', out):
            # the back end crashed / ran out of resources / the unwind bound was too small: never a verdict
            status = 'error(backend: %s)' % (re.search(r'(CBMC failed with status \d+|CBMC timed out|out of memory|unwinding assertion)', out, re.I).group(1))
        elif 'VERIFICATION:- FAILED' in out and 'Failed Checks:' in out:
            status = 'failed'
        elif 'VERIFICATION:- FAILED' in out:
            status = 'error(failed without a failed check)'
        else:
            status = 'error(rc=%s)' % p.returncode
    rec['status'] = status
    m = re.search(r'\*\* (\d+) of (\d+) failed', out)
    if m:
        rec['checks'] = int(m.group(2))
        rec['checks_failed'] = int(m.group(1))
    if status == 'failed':
        fails = re.findall(r'Failed Checks: (.*)', out)
        rec['failed_check'] = '; '.join(fails[:4])[:600]
        rec['output_tail'] = out[-2500:]
        # concrete playback values
        vals = re.findall(r'// (-?\d+(?:i64|u64|u8|usize|i32|u32|u16|bool)?)\s*\n\s*vec!\[([^\]]*)\]', out)
        if vals:
            rec['witness'] = [{'value': v, 'bytes': b.strip()} for v, b in vals][:64]
    elif status != 'success':
        rec['output_tail'] = out[-1500:]
    if status == 'failed' and not rec.get('witness') and not h.get('playback') and not h.get('_second'):
        # obtain the counterexample: run the harness once more with concrete playback
        h2 = dict(h)
        h2['playback'] = True
        h2['_second'] = True
        tmp = []
        _run_one(crate_dir, target_dir, h2, flags, timeout_s, mem_gb, tmp, lock_build)
        if tmp and tmp[0].get('witness'):
            rec['witness'] = tmp[0]['witness']
    results.append(rec)


def run_group(group, scratch, tier):
    src = os.path.join(ROOT, group['crate'])
    work = os.path.join(scratch, os.path.basename(group['crate']))
    if os.path.exists(work):
        shutil.rmtree(work)
    shutil.copytree(src, work, ignore=shutil.ignore_patterns('target'))
    ct = os.path.join(work, 'Cargo.toml')
    with open(ct) as f:
        txt = f.read()
    with open(ct, 'w') as f:
        f.write(txt.replace('"/repo/', '"%s/' % REPO.rstrip('/')))
    if group.get('generate'):
        group['generate'](work)
    lock = os.path.join(REPO, 'Cargo.lock')
    if os.path.exists(lock):
        shutil.copy(lock, os.path.join(work, 'Cargo.lock'))
    target_dir = os.path.join(CACHE, 'kani-target', os.path.basename(group['crate']))
    os.makedirs(target_dir, exist_ok=True)
    hs = [h for h in group['harnesses'] if not (tier == 'quick' and h.get('tier') == 'thorough')]
    flags = group.get('flags', [])
    timeout_s = group.get('timeout_s', 600 if tier == 'quick' else 1800)
    mem_gb = group.get('mem_gb', 16)
    results = []
    par = group.get('parallel', 4)
    # first harness alone (builds the crate), the rest in parallel
    pending = list(hs)
    threads = []
    lock_build = threading.Lock()
    if pending:
        _run_one(work, target_dir, pending.pop(0), flags, timeout_s, mem_gb, results, lock_build)
    while pending or threads:
        threads = [t for t in threads if t.is_alive()]
        while pending and len(threads) < par:
            h = pending.pop(0)
            t = threading.Thread(target=_run_one, args=(work, target_dir, h, flags, timeout_s, mem_gb, results, lock_build))
            t.start()
            threads.append(t)
        time.sleep(0.5)
    order = {h['name']: i for i, h in enumerate(hs)}
    results.sort(key=lambda r: order.get(r['name'], 0))
    return {'cmd': 'cd %s && cargo kani --harness <each of %d> %s' % (group['crate'], len(hs), ' '.join(flags)), 'harnesses': results}
