#!/bin/bash
# dev helper: xseed.sh <suite> <patch.diff>...   builds xrun against the scratch worktree /var/tmp/mut with each patch applied and runs the suite
S=$1; shift
rm -rf /var/tmp/kdev/xrun_m; cp -r /verif/xrun /var/tmp/kdev/xrun_m; sed -i 's|"/repo/|"/var/tmp/mut/|' /var/tmp/kdev/xrun_m/Cargo.toml; cp /repo/Cargo.lock /var/tmp/kdev/xrun_m/
for P in "$@"; do
  cd /var/tmp/mut && git checkout -q -- . && git clean -fdq crates && git apply $P || { echo "PATCH FAILED $P"; continue; }
  cd /var/tmp/kdev/xrun_m; CARGO_NET_OFFLINE=true CARGO_TARGET_DIR=/var/tmp/verif-cache-dev/xrun-target-m cargo build --offline 2>&1 | grep -E "^error" -A6 | head -20
  echo "== $P"; /var/tmp/verif-cache-dev/xrun-target-m/debug/verif-xrun $S ${XTIER:+--tier $XTIER} | cut -c1-${XW:-420} | tail -${XN:-2}
done
cd /var/tmp/mut && git checkout -q -- . && git clean -fdq crates
