//! C10: a Compute with breadth n against the sequential reference written from the property statement: child i starts at the next
//! operation with a copy of the parent's stack plus the word i, an empty memory, the parent's repeat state and read-only access to the
//! parent's memory, and runs until ComputeEnd, Halt or the end of the program; afterwards the parent's memory is its old memory followed
//! by the children's memories in index order, its stack is unchanged apart from the consumed breadth, it resumes at the furthest position
//! reached by any child; a child error, breadth below 1, nested Compute or combined memory above the limit fails the parent.
//! Children of the reference are run one after another on the real VM (verified separately); the fork / join is what is compared.
use crate::refsem::PreState;
use crate::Ctx;
use essential_asm as asm;
use essential_types::{solution::Solution, ContentAddress, PredicateAddress, Word};
use essential_vm::{Access, GasLimit, Memory, Stack, Vm};
use std::sync::Arc;

fn push(w: Word) -> asm::Op {
    asm::Stack::Push(w).into()
}

fn access() -> Access {
    let sol = Solution {
        predicate_to_solve: PredicateAddress { contract: ContentAddress([0; 32]), predicate: ContentAddress([0; 32]) },
        predicate_data: vec![],
        state_mutations: vec![],
    };
    Access::new(Arc::new(vec![sol]), 0)
}

#[derive(Debug, PartialEq)]
struct Outcome {
    ok: bool,
    gas: u64,
    pc: usize,
    stack: Vec<Word>,
    memory: Vec<Word>,
    halt: bool,
}

const MEM_LIMIT: usize = 10240;

/// Reference: sequential fork / join around the real VM.
fn reference(ops: &[asm::Op], c: usize) -> Outcome {
    let st = (PreState::default(), PreState::default());
    let cost = |_: &asm::Op| 1u64;
    let fail = |vm: &Vm| Outcome { ok: false, gas: 0, pc: vm.pc, stack: vec![], memory: vec![], halt: false };
    let mut vm = Vm::default();
    // prefix up to (excluding) the Compute op
    let mut gas = match vm.exec_ops(&ops[..c], access(), &st, &cost, GasLimit::UNLIMITED) {
        Ok(g) => g,
        Err(_) => return fail(&vm),
    };
    gas += 1; // the Compute op itself
    let mut stack: Vec<Word> = vm.stack.clone().into();
    let Some(n) = stack.pop() else { return fail(&vm) };
    if n < 1 || !vm.parent_memory.is_empty() {
        return fail(&vm);
    }
    let parent_mem: Vec<Word> = vm.memory.clone().into();
    let mut joined = parent_mem.clone();
    let mut pc = c;
    let mut halt = vm.halt;
    for i in 0..n {
        let mut cs = stack.clone();
        cs.push(i);
        let Ok(cstack) = Stack::try_from(cs) else { return fail(&vm) };
        let mut child = Vm {
            pc: c + 1,
            stack: cstack,
            memory: Memory::new(),
            parent_memory: vec![Arc::new(vm.memory.clone())],
            repeat: vm.repeat.clone(),
            ..Default::default()
        };
        match child.exec_ops(ops, access(), &st, &cost, GasLimit::UNLIMITED) {
            Ok(g) => gas += g,
            Err(_) => return fail(&vm),
        }
        let cm: Vec<Word> = child.memory.clone().into();
        joined.extend(cm);
        pc = pc.max(child.pc);
        halt |= child.halt;
    }
    if joined.len() > MEM_LIMIT {
        return fail(&vm);
    }
    vm.stack = Stack::try_from(stack).unwrap();
    vm.memory = Memory::try_from(joined).unwrap();
    vm.pc = pc;
    vm.halt = halt;
    if !halt {
        match vm.exec_ops(ops, access(), &st, &cost, GasLimit::UNLIMITED) {
            Ok(g) => gas += g,
            Err(_) => return fail(&vm),
        }
    }
    Outcome { ok: true, gas, pc: vm.pc, stack: vm.stack.clone().into(), memory: vm.memory.clone().into(), halt: vm.halt }
}

fn real(ops: &[asm::Op]) -> Result<Outcome, String> {
    let st = (PreState::default(), PreState::default());
    let cost = |_: &asm::Op| 1u64;
    let r = std::panic::catch_unwind(std::panic::AssertUnwindSafe(|| {
        let mut vm = Vm::default();
        let r = vm.exec_ops(ops, access(), &st, &cost, GasLimit::UNLIMITED);
        (r.map_err(|e| format!("{e}")), vm)
    }));
    match r {
        Err(_) => Err("the VM panicked".into()),
        Ok((Ok(g), vm)) => Ok(Outcome { ok: true, gas: g, pc: vm.pc, stack: vm.stack.clone().into(), memory: vm.memory.clone().into(), halt: vm.halt }),
        Ok((Err(_), vm)) => Ok(Outcome { ok: false, gas: 0, pc: vm.pc, stack: vec![], memory: vec![], halt: false }),
    }
}

pub fn run(ctx: &Ctx) {
    use asm::{Alu, Compute, Memory as M, ParentMemory as PM, Stack as S, TotalControlFlow as T};
    // parent prefixes: (name, ops) - stack and memory the parent has when it forks
    let prefixes: Vec<(&str, Vec<asm::Op>)> = vec![
        ("empty", vec![]),
        ("stack3", vec![push(40), push(41), push(42)]),
        ("stack3+mem2", vec![push(40), push(41), push(42), push(2), M::Alloc.into(), S::Pop.into(), push(7), push(0), M::Store.into(), push(8), push(1), M::Store.into()]),
        ("in-loop", vec![push(2), push(1), asm::Stack::Repeat.into(), push(40)]),
        ("mem9941", vec![push(5), push(9941), M::Alloc.into(), S::Pop.into()]),
        ("mem10240", vec![push(5), push(10240), M::Alloc.into(), S::Pop.into()]),
        // 4095 words on the parent stack: with the breadth it is full when the Compute op is reached, each child inherits 4095 words plus its index
        ("stack4095", vec![push(4094), S::Reserve.into()]),
        ("stack4094+mem2", vec![push(2), M::Alloc.into(), S::Pop.into(), push(7), push(0), M::Store.into(), push(8), push(1), M::Store.into(), push(4093), S::Reserve.into()]),
    ];
    // child bodies (the child's stack is the parent's stack plus its index on top)
    let bodies: Vec<(&str, Vec<asm::Op>)> = vec![
        ("nop", vec![]),
        ("alloc_index_plus_1_store_index", vec![S::Dup.into(), push(1), Alu::Add.into(), M::Alloc.into(), M::Store.into()]),
        ("alloc1_store_index", vec![push(1), M::Alloc.into(), M::Store.into()]),
        ("alloc100", vec![S::Pop.into(), push(100), M::Alloc.into(), S::Pop.into()]),
        ("swap_inherited", vec![S::Pop.into(), S::Swap.into()]),
        ("add_inherited", vec![S::Pop.into(), Alu::Add.into()]),
        ("pop_inherited", vec![S::Pop.into(), S::Pop.into(), S::Pop.into()]),
        ("read_parent_memory", vec![S::Pop.into(), push(1), M::Alloc.into(), push(0), PM::Load.into(), S::Swap.into(), M::Store.into()]),
        ("read_parent_range_empty", vec![S::Pop.into(), push(0), push(0), PM::LoadRange.into()]),
        ("index_dependent_jump", vec![push(2), S::Swap.into(), T::JumpIf.into(), push(1), M::Alloc.into(), S::Pop.into()]),
        ("halt_if_index", vec![T::HaltIf.into(), push(1), M::Alloc.into(), S::Pop.into()]),
        ("halt", vec![S::Pop.into(), T::Halt.into()]),
        ("error_if_index_0", vec![push(1), S::Swap.into(), Alu::Div.into(), S::Pop.into()]),
        ("alloc_index_parity", vec![S::Dup.into(), push(2), Alu::Mod.into(), M::Alloc.into(), S::Pop.into(), S::Pop.into()]),
        ("alloc_if_index_ge_3", vec![S::Dup.into(), push(3), asm::Pred::Gte.into(), M::Alloc.into(), M::Store.into()]),
        ("read_parent_range", vec![S::Pop.into(), push(0), push(2), PM::LoadRange.into(), push(2), M::Alloc.into(), S::Pop.into(), push(0), M::Store.into(), push(1), M::Store.into()]),
        ("state_read_in_child", vec![S::Pop.into(), push(4), M::Alloc.into(), S::Pop.into(), push(7), push(1), push(2), push(0), asm::StateRead::KeyRange.into()]),
        ("repeat_in_child", vec![push(1), asm::Stack::Repeat.into(), push(1), M::Alloc.into(), S::Pop.into(), asm::Stack::RepeatEnd.into()]),
        // sizes (i + 1) % 3 (1, 2, 0, 1, 2, 0, ..); a non-empty child memory holds the index in its first word and minus the index in its last word
        ("alloc_index_plus_1_mod_3", vec![
            S::Dup.into(), push(1), Alu::Add.into(), push(3), Alu::Mod.into(), S::Dup.into(), M::Alloc.into(), S::Pop.into(),
            S::Dup.into(), push(0), asm::Pred::Eq.into(), push(17), S::Swap.into(), T::JumpIf.into(),
            S::Swap.into(), S::Dup.into(), push(0), M::Store.into(), S::Swap.into(), push(1), Alu::Sub.into(),
            S::Swap.into(), push(0), S::Swap.into(), Alu::Sub.into(), S::Swap.into(), M::Store.into(),
            push(3), push(1), T::JumpIf.into(), S::Pop.into(), S::Pop.into()]),
        // only the child with index 1 / 33 goes further than the others (skips to a later ComputeEnd)
        ("special_1_goes_further", vec![push(1), asm::Pred::Eq.into(), push(5), S::Swap.into(), T::JumpIf.into(), push(1), M::Alloc.into(), S::Pop.into(), Compute::ComputeEnd.into(), push(2), M::Alloc.into(), S::Pop.into()]),
        ("special_33_goes_further", vec![push(33), asm::Pred::Eq.into(), push(5), S::Swap.into(), T::JumpIf.into(), push(1), M::Alloc.into(), S::Pop.into(), Compute::ComputeEnd.into(), push(2), M::Alloc.into(), S::Pop.into()]),
        // only the children with an index below 3 go further
        ("first_3_go_further", vec![push(3), asm::Pred::Lt.into(), push(5), S::Swap.into(), T::JumpIf.into(), push(1), M::Alloc.into(), S::Pop.into(), Compute::ComputeEnd.into(), push(2), M::Alloc.into(), S::Pop.into()]),
        // even children leave from inside their own repeat loop (unbalanced repeat stack), odd children do not loop
        ("even_leave_mid_loop", vec![push(2), Alu::Mod.into(), push(8), S::Swap.into(), T::JumpIf.into(), push(5), push(1), asm::Stack::Repeat.into(), push(1), M::Alloc.into(), S::Pop.into(), Compute::ComputeEnd.into(), push(1), M::Alloc.into(), S::Pop.into()]),
        // odd children store the innermost repeat counter they see (the parent's, when the Compute sits in a parent loop); even children leave from inside a loop of their own
        ("even_leave_mid_loop_odd_store_counter", vec![push(2), Alu::Mod.into(), push(8), S::Swap.into(), T::JumpIf.into(), push(7), push(1), asm::Stack::Repeat.into(), push(1), M::Alloc.into(), S::Pop.into(), Compute::ComputeEnd.into(),
            push(1), M::Alloc.into(), asm::Access::RepeatCounter.into(), S::Swap.into(), M::Store.into()]),
        // children leave the textual Compute .. ComputeEnd range (all of them / only the odd ones) and read the parent's memory afterwards
        ("jump_over_end_then_read_parent", vec![S::Pop.into(), push(2), push(1), T::JumpIf.into(), Compute::ComputeEnd.into(), push(1), M::Alloc.into(), push(0), PM::Load.into(), S::Swap.into(), M::Store.into()]),
        ("odd_jump_over_end_then_read_parent", vec![push(2), Alu::Mod.into(), push(2), S::Swap.into(), T::JumpIf.into(), Compute::ComputeEnd.into(), push(1), M::Alloc.into(), push(1), PM::Load.into(), S::Swap.into(), M::Store.into()]),
        ("jump_over_end_then_read_parent_range", vec![S::Pop.into(), push(2), push(1), T::JumpIf.into(), Compute::ComputeEnd.into(), push(0), push(2), PM::LoadRange.into(), Alu::Add.into(), push(1), M::Alloc.into(), M::Store.into()]),
        ("nested_compute", vec![S::Pop.into(), push(1), Compute::Compute.into(), S::Pop.into(), Compute::ComputeEnd.into()]),
        ("nested_compute_index_1", vec![push(3), S::Swap.into(), T::JumpIf.into(), push(1), T::HaltIf.into(), push(2), Compute::Compute.into(), S::Pop.into(), Compute::ComputeEnd.into()]),
    ];
    let breadths: Vec<Word> = vec![1, 2, 3, 0, -1, 40, 41, 100, 257, 1000, 1025, 2049, 3000];
    let suffixes: Vec<(&str, Vec<asm::Op>)> = vec![("none", vec![]), ("push9", vec![push(9)]), ("end+push9", vec![Compute::ComputeEnd.into(), push(9)])];
    for (pn, pre) in &prefixes {
        for (bn, body) in &bodies {
            for &n in &breadths {
                for (sn, suf) in &suffixes {
                    // with_end: whether the child region is closed by ComputeEnd (else children run to the end of the program)
                    for with_end in [true, false] {
                        if !with_end && *sn != "none" {
                            continue;
                        }
                        if (*pn == "mem9941" || *pn == "mem10240" || pn.starts_with("stack409") || (*sn != "push9" && *pn != "in-loop")) && n >= 40 && !ctx.thorough {
                            continue;
                        }
                        if n >= 1000 && !(bn.starts_with("alloc_index") || bn.starts_with("special") || bn.starts_with("first_3") || bn.starts_with("even_") || *bn == "nop") {
                            continue;
                        }
                        // a Compute inside a parent loop: close the loop after the compute region (the loop body is Push(40), Push(n), Compute .. ComputeEnd, Pop)
                        let in_loop = *pn == "in-loop";
                        if in_loop && (!with_end || *sn != "none") {
                            continue;
                        }
                        let id = format!("compute/{pn}/{bn}/{n}/{sn}/{}", with_end as u8);
                        if !ctx.want(&id) {
                            continue;
                        }
                        let mut ops = pre.clone();
                        ops.push(push(n));
                        let c = ops.len();
                        ops.push(Compute::Compute.into());
                        ops.extend(body.clone());
                        if with_end {
                            ops.push(Compute::ComputeEnd.into());
                        }
                        if in_loop {
                            ops.push(S::Pop.into());
                            ops.push(asm::Stack::RepeatEnd.into());
                        }
                        ops.extend(suf.clone());
                        let want = reference(&ops, c);
                        match real(&ops) {
                            Err(e) => ctx.fail(&id, "Compute == sequential fork / join", format!("{e}; reference {:?}; ops {:?}", short(&want), ops)),
                            Ok(got) => {
                                let same = if want.ok { got == want } else { !got.ok };
                                if same {
                                    ctx.pass();
                                } else {
                                    ctx.fail(&id, "Compute behaves as n children run one after another: child state, joined memory in index order, parent stack, resume position, failure conditions",
                                        format!("VM {:?} but reference {:?}; ops {:?}", short(&got), short(&want), ops));
                                }
                            }
                        }
                    }
                }
            }
        }
    }
}

fn short(o: &Outcome) -> String {
    let m = if o.memory.len() > 12 { format!("[{} words, last {:?}]", o.memory.len(), &o.memory[o.memory.len() - 4..]) } else { format!("{:?}", o.memory) };
    format!("ok={} gas={} pc={} stack={:?} memory={} halt={}", o.ok, o.gas, o.pc, o.stack, m, o.halt)
}
