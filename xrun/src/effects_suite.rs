//! C15 (and the deferral scan of C03): effect analysis on the real crate against the definition: `analyze(ops)` is exactly the set
//! of effects of the ops present, and `bytes_contains_any(to_bytes(ops), set)` is true exactly when some op (never an immediate byte of
//! a Push) has an effect in the set.
use crate::Ctx;
use essential_asm::{self as asm, effects::{analyze, bytes_contains_any, Effects}, Op};

fn flag(op: &Op) -> u8 {
    match op {
        Op::StateRead(asm::StateRead::KeyRange) => 1 << 0,
        Op::StateRead(asm::StateRead::KeyRangeExtern) => 1 << 1,
        Op::Access(asm::Access::ThisAddress) => 1 << 2,
        Op::Access(asm::Access::ThisContractAddress) => 1 << 3,
        Op::StateRead(asm::StateRead::PostKeyRange) => 1 << 4,
        Op::StateRead(asm::StateRead::PostKeyRangeExtern) => 1 << 5,
        _ => 0,
    }
}

fn check(ctx: &Ctx, id: &str, ops: &[Op], masks: &[u8]) {
    if !ctx.want(id) {
        return;
    }
    let want: u8 = ops.iter().fold(0, |a, o| a | flag(o));
    let bytes: Vec<u8> = asm::to_bytes(ops.iter().copied()).collect();
    let r = std::panic::catch_unwind(|| {
        let a = analyze(ops).bits();
        let bad: Vec<(u8, bool)> = masks.iter().map(|m| (*m, bytes_contains_any(&bytes, Effects::from_bits_truncate(*m)))).filter(|(m, got)| *got != (want & m != 0)).collect();
        (a, bad)
    });
    match r {
        Err(_) => ctx.fail(id, "effect analysis never panics", format!("PANIC on ops {:?}", ops)),
        Ok((a, bad)) => {
            if a != want {
                ctx.fail(id, "analyze(ops) is exactly the set of effects of the ops present", format!("ops {:?}: analyze bits {a:#08b} but the ops have {want:#08b}", ops));
            } else if let Some((m, got)) = bad.first() {
                ctx.fail(id, "bytes_contains_any(bytes, set) is true exactly when some op (not an immediate byte) has an effect in the set",
                    format!("ops {:?} bytes {:?} effect mask {m:#08b}: returned {got} but the ops have {want:#08b}", ops, bytes));
            } else {
                ctx.pass();
            }
        }
    }
}

pub fn run(ctx: &Ctx) {
    let effectful: Vec<Op> = vec![
        asm::StateRead::KeyRange.into(), asm::StateRead::KeyRangeExtern.into(), asm::Access::ThisAddress.into(), asm::Access::ThisContractAddress.into(),
        asm::StateRead::PostKeyRange.into(), asm::StateRead::PostKeyRangeExtern.into(),
    ];
    let eff_bytes: Vec<u8> = effectful.iter().map(|o| asm::to_bytes([*o]).next().unwrap()).collect();
    let push_byte = asm::to_bytes([Op::from(asm::Stack::Push(0))]).next().unwrap();
    // pushes whose immediate carries an effect opcode (or the Push opcode itself) at each of the 8 byte positions
    let mut palette: Vec<Op> = effectful.clone();
    palette.push(asm::Stack::Pop.into());
    palette.push(asm::Stack::Push(0).into());
    for b in eff_bytes.iter().chain([&push_byte]) {
        for pos in 0..8 {
            palette.push(asm::Stack::Push(((*b as u64) << (8 * pos)) as i64).into());
        }
    }
    palette.push(asm::Stack::Push(i64::from_be_bytes([eff_bytes[4], push_byte, eff_bytes[0], 0, push_byte, eff_bytes[5], push_byte, eff_bytes[1]])).into());
    let all_masks: Vec<u8> = (0..64).collect();
    let some_masks: Vec<u8> = vec![1, 2, 4, 8, 16, 32, 63, 48, 3, 12, 0, 17, 34, 33, 18, 62, 47];
    for (i, a) in palette.iter().enumerate() {
        check(ctx, &format!("effects/1/{i}"), &[*a], &all_masks);
        for (j, b) in palette.iter().enumerate() {
            check(ctx, &format!("effects/2/{i}/{j}"), &[*a, *b], &all_masks);
            if !ctx.thorough && (i + j) % 3 != 0 {
                continue;
            }
            for (k, c) in palette.iter().enumerate() {
                check(ctx, &format!("effects/3/{i}/{j}/{k}"), &[*a, *b, *c], &some_masks);
            }
        }
    }
    check(ctx, "effects/empty", &[], &all_masks);
    // long programs: k repetitions of one effectful op, then another one
    for (i, a) in effectful.iter().enumerate() {
        for (j, b) in effectful.iter().enumerate() {
            for k in [0usize, 1, 5, 6, 7, 8, 12, 40] {
                let mut ops = vec![*a; k];
                ops.push(*b);
                ops.push(asm::Stack::Pop.into());
                check(ctx, &format!("effects/long/{i}/{j}/{k}"), &ops, &some_masks);
            }
        }
    }
    // all six, in every rotation, followed by more ops
    for r in 0..6 {
        let mut ops: Vec<Op> = (0..6).map(|i| effectful[(i + r) % 6]).collect();
        ops.push(asm::Stack::Push(-1).into());
        ops.push(effectful[r]);
        check(ctx, &format!("effects/all/{r}"), &ops, &all_masks);
    }
}
