//! C15 (and the deferral scan of C03): effect analysis on the real crate against the definition: `analyze(ops)` is exactly the set
//! of effects of the ops present, and `bytes_contains_any(to_bytes(ops), set)` is true exactly when some op (never an immediate byte of
//! a Push) has an effect in the set.
use crate::Ctx;
use essential_asm::{self as asm, effects::{analyze, bytes_contains_any, Effects}, Op};

fn flag(op: &Op) -> u8 {
    match op {
        Op::StateRead(asm::StateRead::KeyRange) => 1 << 0,
        Op::StateRead(asm::StateRead::KeyRangeExtern) => 1 << 1,
        Op::Access(asm::Access::ThisAddress) => 1 << 2,
        Op::Access(asm::Access::ThisContractAddress) => 1 << 3,
        Op::StateRead(asm::StateRead::PostKeyRange) => 1 << 4,
        Op::StateRead(asm::StateRead::PostKeyRangeExtern) => 1 << 5,
        _ => 0,
    }
}

fn check(ctx: &Ctx, id: &str, ops: &[Op], masks: &[u8]) {
    if !ctx.want(id) {
        return;
    }
    let want: u8 = ops.iter().fold(0, |a, o| a | flag(o));
    let bytes: Vec<u8> = asm::to_bytes(ops.iter().copied()).collect();
    let r = std::panic::catch_unwind(|| {
        let a = analyze(ops).bits();
        let bad: Vec<(u8, bool)> = masks.iter().map(|m| (*m, bytes_contains_any(&bytes, Effects::from_bits_truncate(*m)))).filter(|(m, got)| *got != (want & m != 0)).collect();
        (a, bad)
    });
    match r {
        Err(_) => ctx.fail(id, "effect analysis never panics", format!("PANIC on ops {:?}", ops)),
        Ok((a, bad)) => {
            if a != want {
                ctx.fail(id, "analyze(ops) is exactly the set of effects of the ops present", format!("ops {:?}: analyze bits {a:#08b} but the ops have {want:#08b}", ops));
            } else if let Some((m, got)) = bad.first() {
                ctx.fail(id, "bytes_contains_any(bytes, set) is true exactly when some op (not an immediate byte) has an effect in the set",
                    format!("ops {:?} bytes {:?} effect mask {m:#08b}: returned {got} but the ops have {want:#08b}", ops, bytes));
            } else {
                ctx.pass();
            }
        }
    }
}

/// Raw byte strings: never a panic; on well-formed ones an opcode byte counts unless it is one of the 8 bytes after a Push opcode.
fn check_raw(ctx: &Ctx, id: &str, bytes: &[u8], push_byte: u8, eff_bytes: &[u8], masks: &[u8]) {
    if !ctx.want(id) {
        return;
    }
    let mut want = 0u8;
    let mut i = 0;
    // C15 speaks about well-formed bytecode only; on anything else (invalid opcode bytes, a truncated Push) the scan must merely not panic (C06)
    let mut well_formed = true;
    while i < bytes.len() {
        if bytes[i] == push_byte {
            i += 9;
            well_formed &= i <= bytes.len();
        } else {
            well_formed &= asm::Opcode::try_from(bytes[i]).is_ok();
            if let Some(e) = eff_bytes.iter().position(|b| *b == bytes[i]) {
                want |= flag(&[asm::StateRead::KeyRange.into(), asm::StateRead::KeyRangeExtern.into(), asm::Access::ThisAddress.into(), asm::Access::ThisContractAddress.into(),
                    asm::StateRead::PostKeyRange.into(), asm::StateRead::PostKeyRangeExtern.into()][e]);
            }
            i += 1;
        }
    }
    let r = std::panic::catch_unwind(|| masks.iter().map(|m| (*m, bytes_contains_any(bytes, Effects::from_bits_truncate(*m)))).filter(|(m, got)| *got != (want & m != 0)).collect::<Vec<_>>());
    match r {
        Err(_) => ctx.fail(id, "effect analysis never panics", format!("PANIC: bytes_contains_any on bytes {:?}", bytes)),
        Ok(_) if !well_formed => ctx.pass(),
        Ok(bad) => match bad.first() {
            None => ctx.pass(),
            Some((m, got)) => ctx.fail(id, "bytes_contains_any(bytes, set) is true exactly when some op (not an immediate byte) has an effect in the set",
                format!("bytes {:?} effect mask {m:#08b}: returned {got} but the opcode bytes outside push immediates have {want:#08b}", bytes)),
        },
    }
}

pub fn run(ctx: &Ctx) {
    let effectful: Vec<Op> = vec![
        asm::StateRead::KeyRange.into(), asm::StateRead::KeyRangeExtern.into(), asm::Access::ThisAddress.into(), asm::Access::ThisContractAddress.into(),
        asm::StateRead::PostKeyRange.into(), asm::StateRead::PostKeyRangeExtern.into(),
    ];
    let eff_bytes: Vec<u8> = effectful.iter().map(|o| asm::to_bytes([*o]).next().unwrap()).collect();
    let push_byte = asm::to_bytes([Op::from(asm::Stack::Push(0))]).next().unwrap();
    // pushes whose immediate carries an effect opcode (or the Push opcode itself) at each of the 8 byte positions
    let mut palette: Vec<Op> = effectful.clone();
    palette.push(asm::Stack::Pop.into());
    // ops after which execution may stop or continue elsewhere: the scan is about what the program contains, not about what runs
    palette.extend([Op::from(asm::TotalControlFlow::Halt), asm::TotalControlFlow::HaltIf.into(), asm::TotalControlFlow::PanicIf.into(), asm::TotalControlFlow::JumpIf.into(), asm::Compute::ComputeEnd.into()]);
    palette.push(asm::Stack::Push(0).into());
    for b in eff_bytes.iter().chain([&push_byte]) {
        for pos in 0..8 {
            palette.push(asm::Stack::Push(((*b as u64) << (8 * pos)) as i64).into());
        }
    }
    palette.push(asm::Stack::Push(i64::from_be_bytes([eff_bytes[4], push_byte, eff_bytes[0], 0, push_byte, eff_bytes[5], push_byte, eff_bytes[1]])).into());
    let all_masks: Vec<u8> = (0..64).collect();
    let some_masks: Vec<u8> = vec![1, 2, 4, 8, 16, 32, 63, 48, 3, 12, 0, 17, 34, 33, 18, 62, 47];
    for (i, a) in palette.iter().enumerate() {
        check(ctx, &format!("effects/1/{i}"), &[*a], &all_masks);
        for (j, b) in palette.iter().enumerate() {
            check(ctx, &format!("effects/2/{i}/{j}"), &[*a, *b], &all_masks);
            if !ctx.thorough && (i + j) % 3 != 0 {
                continue;
            }
            for (k, c) in palette.iter().enumerate() {
                check(ctx, &format!("effects/3/{i}/{j}/{k}"), &[*a, *b, *c], &some_masks);
            }
        }
    }
    check(ctx, "effects/empty", &[], &all_masks);
    // long programs: k repetitions of one effectful op, then another one
    for (i, a) in effectful.iter().enumerate() {
        for (j, b) in effectful.iter().enumerate() {
            for k in [0usize, 1, 5, 6, 7, 8, 12, 40] {
                let mut ops = vec![*a; k];
                ops.push(*b);
                ops.push(asm::Stack::Pop.into());
                check(ctx, &format!("effects/long/{i}/{j}/{k}"), &ops, &some_masks);
            }
        }
    }
    // every order of the six effectful ops, alone and after a Pop
    let mut perm: Vec<usize> = (0..6).collect();
    let mut pn = 0;
    loop {
        let ops: Vec<Op> = perm.iter().map(|i| effectful[*i]).collect();
        check(ctx, &format!("effects/perm/{pn}"), &ops, &some_masks);
        pn += 1;
        // next permutation in lexicographic order
        let Some(i) = (0..5).rev().find(|i| perm[*i] < perm[*i + 1]) else { break };
        let j = (i + 1..6).rev().find(|j| perm[*j] > perm[i]).unwrap();
        perm.swap(i, j);
        perm[i + 1..].reverse();
    }
    // long programs: n single-byte ops, then a Push whose immediate carries an effect opcode (or 0x01 = a Push-looking byte) at one position,
    // then optionally the effectful op itself: every n up to 1100 (block boundaries of 256 / 512 / 1024 bytes at every alignment), and around 4 096 / 10 000 / 65 536 bytes
    let single = [1u8 << 0, 1 << 1, 1 << 2, 1 << 3, 1 << 4, 1 << 5, 63];
    let mut lens: Vec<usize> = (0..=1100).collect();
    for c in [4096usize, 8192, 10_000, 16_384, 20_000, 65_536] {
        lens.extend(c - 12..=c + 3);
    }
    for (li, n) in lens.iter().enumerate() {
        let e = li % 6;
        let pos = (li / 6) % 8;
        let filler: Op = if li % 2 == 0 { asm::Stack::Pop.into() } else { asm::Alu::Add.into() };
        for (vi, imm_byte) in [eff_bytes[e], push_byte, 0].into_iter().enumerate() {
            let mut ops = vec![filler; *n];
            ops.push(asm::Stack::Push(((imm_byte as u64) << (8 * pos)) as i64).into());
            check(ctx, &format!("effects/far/{n}/{vi}/none"), &ops, &single);
            ops.push(asm::Stack::Pop.into());
            ops.push(effectful[(e + 1) % 6]);
            check(ctx, &format!("effects/far/{n}/{vi}/op"), &ops, &single);
        }
        let mut ops = vec![filler; *n];
        ops.push(effectful[e]);
        check(ctx, &format!("effects/far/{n}/tail"), &ops, &single);
    }
    // alternating Push / single-byte op for 1 200 rounds, then three pushes and an effectful op
    for e in 0..6 {
        let mut ops: Vec<Op> = vec![];
        for i in 0..1200i64 {
            ops.push(asm::Stack::Push(i << 20 | eff_bytes[e] as i64).into());
            ops.push(asm::Stack::Pop.into());
        }
        check(ctx, &format!("effects/alternating/{e}/none"), &ops, &single);
        ops.extend([Op::from(asm::Stack::Push(1)), asm::Stack::Push(2).into(), asm::Stack::Push(3).into(), effectful[e]]);
        check(ctx, &format!("effects/alternating/{e}/op"), &ops, &single);
    }
    // raw byte strings incl. truncated pushes: every string of up to 3 bytes over a 10-byte alphabet, and a Push followed by 0..9 further bytes after
    // a complete Push whose immediate carries an effect opcode
    let single_masks = [1u8, 2, 4, 8, 16, 32, 63, 48];
    let mut alpha: Vec<u8> = eff_bytes.clone();
    alpha.extend([push_byte, asm::to_bytes([Op::from(asm::Stack::Pop)]).next().unwrap(), 0x00, 0xff]);
    for a in &alpha {
        check_raw(ctx, &format!("effects/raw/1/{a}"), &[*a], push_byte, &eff_bytes, &single_masks);
        for b in &alpha {
            check_raw(ctx, &format!("effects/raw/2/{a}/{b}"), &[*a, *b], push_byte, &eff_bytes, &single_masks);
            for c in &alpha {
                check_raw(ctx, &format!("effects/raw/3/{a}/{b}/{c}"), &[*a, *b, *c], push_byte, &eff_bytes, &single_masks);
            }
        }
    }
    for e in 0..6 {
        for pos in 0..8 {
            for tail_len in 0..=9usize {
                for tail_byte in [0u8, eff_bytes[(e + 1) % 6], push_byte] {
                    let mut bytes = vec![push_byte];
                    let mut imm = [0u8; 8];
                    imm[pos] = eff_bytes[e];
                    bytes.extend(imm);
                    bytes.push(push_byte);
                    bytes.extend(std::iter::repeat(tail_byte).take(tail_len));
                    check_raw(ctx, &format!("effects/raw/truncated/{e}/{pos}/{tail_len}/{tail_byte}"), &bytes, push_byte, &eff_bytes, &single_masks);
                }
            }
        }
    }
    // all six, in every rotation, followed by more ops
    for r in 0..6 {
        let mut ops: Vec<Op> = (0..6).map(|i| effectful[(i + r) % 6]).collect();
        ops.push(asm::Stack::Push(-1).into());
        ops.push(effectful[r]);
        check(ctx, &format!("effects/all/{r}"), &ops, &all_masks);
    }
}
