// reference semantics
