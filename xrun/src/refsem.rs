//! Reference semantics of the two-pass solution-set check, written from the statements of properties C01 and C03:
//! every node program runs exactly once after all of its parents, from the concatenation of its parents' resulting stacks and
//! memories in ascending parent order (one copy per edge); leaves end with [1] (satisfied) or [2] (memory is a data output);
//! nodes that read post state, and every descendant of one, run in the second pass and see the pre-state overlaid with all
//! declared and computed mutations; cyclic or malformed graphs are rejected.  Node programs themselves are run on the real VM
//! (which is verified separately); what this reference pins down is the orchestration around it.
use essential_asm as asm;
use essential_types::{
    predicate::{Predicate, Program},
    solution::{Mutation, SolutionSet},
    ContentAddress, Key, Word,
};
use essential_vm::{Access, GasLimit, StateRead, Vm};
use std::collections::{BTreeMap, BTreeSet};
use std::sync::Arc;

pub type Words = Vec<Word>;

/// Big-endian successor of a key over signed words.
pub fn next_key(k: &Words) -> Option<Words> {
    let mut out = k.clone();
    for w in out.iter_mut().rev() {
        if *w == Word::MAX {
            *w = Word::MIN;
        } else {
            *w += 1;
            return Some(out);
        }
    }
    None
}

/// Pre-state: contract -> key -> value; an absent key reads as the empty value.
#[derive(Clone, Default, Debug)]
pub struct PreState(pub BTreeMap<ContentAddress, BTreeMap<Words, Words>>);

impl StateRead for PreState {
    type Error = String;
    fn key_range(&self, contract_addr: ContentAddress, key: Key, num_values: usize) -> Result<Vec<Vec<Word>>, String> {
        let mut out = Vec::new();
        let mut k = Some(key);
        for _ in 0..num_values {
            let Some(cur) = k else { break };
            out.push(self.0.get(&contract_addr).and_then(|c| c.get(&cur)).cloned().unwrap_or_default());
            k = next_key(&cur);
        }
        Ok(out)
    }
}

/// Post-state view of the reference: the proposed value for (contract, key) if there is one (empty = deletion), else the pre-state value.
#[derive(Clone, Default, Debug)]
pub struct Overlay {
    pub pre: PreState,
    pub muts: BTreeMap<ContentAddress, BTreeMap<Words, Words>>,
}

impl StateRead for Overlay {
    type Error = String;
    fn key_range(&self, contract_addr: ContentAddress, key: Key, num_values: usize) -> Result<Vec<Vec<Word>>, String> {
        let mut out = Vec::new();
        let mut k = Some(key);
        for _ in 0..num_values {
            let Some(cur) = k else { break };
            let v = match self.muts.get(&contract_addr).and_then(|c| c.get(&cur)) {
                Some(v) => v.clone(),
                None => self.pre.0.get(&contract_addr).and_then(|c| c.get(&cur)).cloned().unwrap_or_default(),
            };
            out.push(v);
            k = next_key(&cur);
        }
        Ok(out)
    }
}

#[derive(Debug, Clone, PartialEq, Eq, PartialOrd, Ord)]
pub enum Kind {
    InvalidGraph,
    ProgramErrors,
    Unsatisfied(Vec<usize>),
    Mutations,
}

#[derive(Debug, Clone, PartialEq, Eq)]
pub enum Verdict {
    /// total gas, final mutations per solution (sorted: order within a solution is not part of the property)
    Ok(u64, Vec<Vec<(Words, Words)>>),
    /// failing solutions with the kind of failure
    Err(Vec<(u16, Kind)>),
}

/// The documented edge sub-range of a node (None = malformed).
pub fn node_children(p: &Predicate, i: usize) -> Option<Vec<u16>> {
    let n = p.nodes.get(i)?;
    if n.edge_start == u16::MAX {
        return Some(vec![]);
    }
    let s = n.edge_start as usize;
    let e = match p.nodes.get(i + 1) {
        Some(nx) if nx.edge_start != u16::MAX => nx.edge_start as usize,
        _ => p.edges.len(),
    };
    if s <= e && e <= p.edges.len() {
        Some(p.edges[s..e].to_vec())
    } else {
        None
    }
}

/// Graph shape: children lists, or None if malformed (bad edge range, edge to a missing node) or cyclic.
pub fn graph(p: &Predicate) -> Option<Vec<Vec<u16>>> {
    let n = p.nodes.len();
    let mut ch = Vec::new();
    for i in 0..n {
        let c = node_children(p, i)?;
        if c.iter().any(|&x| x as usize >= n) {
            return None;
        }
        ch.push(c);
    }
    // acyclic: repeatedly remove nodes without remaining parents
    let mut indeg = vec![0usize; n];
    for c in &ch {
        for &x in c {
            indeg[x as usize] += 1;
        }
    }
    let mut done = vec![false; n];
    let mut left = n;
    loop {
        let ready: Vec<usize> = (0..n).filter(|&i| !done[i] && indeg[i] == 0).collect();
        if ready.is_empty() {
            break;
        }
        for i in ready {
            done[i] = true;
            left -= 1;
            for &x in &ch[i] {
                indeg[x as usize] -= 1;
            }
        }
    }
    if left == 0 {
        Some(ch)
    } else {
        None
    }
}

fn topo(ch: &[Vec<u16>]) -> Vec<usize> {
    let n = ch.len();
    let mut indeg = vec![0usize; n];
    for c in ch {
        for &x in c {
            indeg[x as usize] += 1;
        }
    }
    let mut done = vec![false; n];
    let mut order = Vec::new();
    while order.len() < n {
        let i = (0..n).find(|&i| !done[i] && indeg[i] == 0).expect("acyclic");
        done[i] = true;
        order.push(i);
        for &x in &ch[i] {
            indeg[x as usize] -= 1;
        }
    }
    order
}

fn reads_post(program: &Program) -> bool {
    asm::from_bytes(program.0.iter().copied()).any(|op| {
        matches!(op, Ok(asm::Op::StateRead(asm::StateRead::PostKeyRange)) | Ok(asm::Op::StateRead(asm::StateRead::PostKeyRangeExtern)))
    })
}

enum NodeOut {
    Parent(Words, Words),
    Satisfied(bool),
    Data(Words),
    Failed,
}

fn run_node(program: &Program, inputs: &[(Words, Words)], leaf: bool, set: &SolutionSet, sol: u16, pre: &PreState, post: &Overlay) -> (NodeOut, u64) {
    let ops: Vec<asm::Op> = match asm::from_bytes(program.0.iter().copied()).collect::<Result<Vec<_>, _>>() {
        Ok(o) => o,
        Err(_) => return (NodeOut::Failed, 0),
    };
    let mut stack: Words = Vec::new();
    let mut memory: Words = Vec::new();
    for (s, m) in inputs {
        stack.extend(s);
        memory.extend(m);
    }
    let mut vm = Vm::default();
    vm.stack = match stack.try_into() {
        Ok(s) => s,
        Err(_) => return (NodeOut::Failed, 0),
    };
    vm.memory = match memory.try_into() {
        Ok(m) => m,
        Err(_) => return (NodeOut::Failed, 0),
    };
    let access = Access::new(Arc::new(set.solutions.clone()), sol);
    let state = (pre.clone(), post.clone());
    let gas = match vm.exec_ops(&ops, access, &state, &|_: &asm::Op| 1, GasLimit::UNLIMITED) {
        Ok(g) => g,
        Err(_) => return (NodeOut::Failed, 0),
    };
    let st: Words = vm.stack.to_vec();
    let mem: Words = vm.memory.to_vec();
    let out = if leaf {
        if st == [2] {
            NodeOut::Data(mem)
        } else {
            NodeOut::Satisfied(st == [1])
        }
    } else {
        NodeOut::Parent(st, mem)
    };
    (out, gas)
}

struct SolState {
    children: Vec<Vec<u16>>,
    parents: Vec<Vec<u16>>,
    order: Vec<usize>,
    deferred: BTreeSet<usize>,
    outputs: BTreeMap<usize, (Words, Words)>,
    broken: BTreeSet<usize>, // failed nodes and their descendants (never evaluated)
}

/// One pass over one solution: evaluates the nodes selected by `pick`; returns (gas, data outputs, kind of failure if any).
fn pass(
    st: &mut SolState,
    pick: impl Fn(usize, &BTreeSet<usize>) -> bool,
    pred: &Predicate,
    programs: &BTreeMap<ContentAddress, Program>,
    set: &SolutionSet,
    sol: u16,
    pre: &PreState,
    post: &Overlay,
) -> (u64, Vec<Words>, Option<Kind>) {
    let mut gas = 0u64;
    let mut data = Vec::new();
    let mut unsat = Vec::new();
    let mut failed = false;
    for &i in &st.order.clone() {
        if !pick(i, &st.deferred) {
            continue;
        }
        if st.parents[i].iter().any(|p| st.broken.contains(&(*p as usize))) {
            st.broken.insert(i);
            continue;
        }
        let inputs: Vec<(Words, Words)> = st.parents[i].iter().map(|p| st.outputs[&(*p as usize)].clone()).collect();
        let leaf = st.children[i].is_empty();
        let program = programs.get(&pred.nodes[i].program_address).cloned().unwrap_or_default();
        let (out, g) = run_node(&program, &inputs, leaf, set, sol, pre, post);
        match out {
            NodeOut::Failed => {
                failed = true;
                st.broken.insert(i);
            }
            NodeOut::Parent(s, m) => {
                gas += g;
                st.outputs.insert(i, (s, m));
            }
            NodeOut::Satisfied(b) => {
                gas += g;
                if !b {
                    unsat.push(i);
                }
            }
            NodeOut::Data(m) => {
                gas += g;
                data.push(m);
            }
        }
    }
    let kind = if failed {
        Some(Kind::ProgramErrors)
    } else if !unsat.is_empty() {
        unsat.sort();
        Some(Kind::Unsatisfied(unsat))
    } else {
        None
    };
    (gas, data, kind)
}

/// Documented mutation-list encoding: [count, (key_len, key.., value_len, value..)*]
fn decode_mutations(words: &[Word]) -> Option<Vec<(Words, Words)>> {
    let mut it = 0usize;
    let take = |it: &mut usize| -> Option<Word> {
        let w = *words.get(*it)?;
        *it += 1;
        Some(w)
    };
    let count = take(&mut it)?;
    if count < 0 {
        return None;
    }
    let mut out = Vec::new();
    for _ in 0..count {
        let kl = usize::try_from(take(&mut it)?).ok()?;
        let k = words.get(it..it.checked_add(kl)?)?.to_vec();
        it += kl;
        let vl = usize::try_from(take(&mut it)?).ok()?;
        let v = words.get(it..it.checked_add(vl)?)?.to_vec();
        it += vl;
        out.push((k, v));
    }
    Some(out)
}

pub fn two_pass(
    pre: &PreState,
    set: &SolutionSet,
    predicates: &BTreeMap<ContentAddress, Predicate>,
    programs: &BTreeMap<ContentAddress, Program>,
) -> Verdict {
    let empty = Predicate { nodes: vec![], edges: vec![] };
    let mut sols: Vec<Option<SolState>> = Vec::new();
    let mut errs: Vec<(u16, Kind)> = Vec::new();
    for (si, s) in set.solutions.iter().enumerate() {
        let pred = predicates.get(&s.predicate_to_solve.predicate).unwrap_or(&empty);
        match graph(pred) {
            None => {
                errs.push((si as u16, Kind::InvalidGraph));
                sols.push(None);
            }
            Some(children) => {
                let n = children.len();
                let mut parents = vec![vec![]; n];
                for (a, c) in children.iter().enumerate() {
                    for &b in c {
                        parents[b as usize].push(a as u16);
                    }
                }
                for p in parents.iter_mut() {
                    p.sort();
                }
                let order = topo(&children);
                // deferred = post-state readers and all their descendants
                let mut deferred = BTreeSet::new();
                for &i in &order {
                    let prog = programs.get(&pred.nodes[i].program_address).cloned().unwrap_or_default();
                    if reads_post(&prog) || parents[i].iter().any(|p| deferred.contains(&(*p as usize))) {
                        deferred.insert(i);
                    }
                }
                sols.push(Some(SolState { children, parents, order, deferred, outputs: BTreeMap::new(), broken: BTreeSet::new() }));
            }
        }
    }
    // ---- first pass: everything that is not deferred; post view = pre-state (no mutation is known to it)
    let mut gas = 0u64;
    let mut muts: Vec<Vec<(Words, Words)>> = set.solutions.iter().map(|s| s.state_mutations.iter().map(|m| (m.key.clone(), m.value.clone())).collect()).collect();
    let no_overlay = Overlay { pre: pre.clone(), muts: BTreeMap::new() };
    let mut data1: Vec<Vec<Words>> = vec![vec![]; set.solutions.len()];
    for (si, st) in sols.iter_mut().enumerate() {
        let Some(st) = st else { continue };
        let pred = predicates.get(&set.solutions[si].predicate_to_solve.predicate).unwrap_or(&empty);
        let (g, data, kind) = pass(st, |i, d| !d.contains(&i), pred, programs, set, si as u16, pre, &no_overlay);
        gas += g;
        data1[si] = data;
        if let Some(k) = kind {
            errs.push((si as u16, k));
        }
    }
    if !errs.is_empty() {
        errs.sort();
        return Verdict::Err(errs);
    }
    if let Some(e) = apply_data(set, &mut muts, &data1) {
        return Verdict::Err(vec![e]);
    }
    // ---- second pass: deferred nodes see the pre-state overlaid with every declared and computed mutation
    let mut overlay = Overlay { pre: pre.clone(), muts: BTreeMap::new() };
    for (si, s) in set.solutions.iter().enumerate() {
        for (k, v) in &muts[si] {
            overlay.muts.entry(s.predicate_to_solve.contract.clone()).or_default().insert(k.clone(), v.clone());
        }
    }
    let mut set2 = set.clone();
    for (si, s) in set2.solutions.iter_mut().enumerate() {
        s.state_mutations = muts[si].iter().map(|(k, v)| Mutation { key: k.clone(), value: v.clone() }).collect();
    }
    let mut data2: Vec<Vec<Words>> = vec![vec![]; set.solutions.len()];
    for (si, st) in sols.iter_mut().enumerate() {
        let Some(st) = st else { continue };
        let pred = predicates.get(&set.solutions[si].predicate_to_solve.predicate).unwrap_or(&empty);
        let (g, data, kind) = pass(st, |i, d| d.contains(&i), pred, programs, &set2, si as u16, pre, &overlay);
        gas += g;
        data2[si] = data;
        if let Some(k) = kind {
            errs.push((si as u16, k));
        }
    }
    if !errs.is_empty() {
        errs.sort();
        return Verdict::Err(errs);
    }
    if let Some(e) = apply_data(set, &mut muts, &data2) {
        return Verdict::Err(vec![e]);
    }
    for m in muts.iter_mut() {
        m.sort();
    }
    Verdict::Ok(gas, muts)
}

/// Decode data outputs into mutations of their solution; at most one mutation per (contract, key) in the whole set.
fn apply_data(set: &SolutionSet, muts: &mut [Vec<(Words, Words)>], data: &[Vec<Words>]) -> Option<(u16, Kind)> {
    let mut slots: BTreeSet<(ContentAddress, Words)> = BTreeSet::new();
    for (si, s) in set.solutions.iter().enumerate() {
        for (k, _) in &muts[si] {
            slots.insert((s.predicate_to_solve.contract.clone(), k.clone()));
        }
    }
    for (si, s) in set.solutions.iter().enumerate() {
        for mem in &data[si] {
            let Some(ms) = decode_mutations(mem) else { return Some((si as u16, Kind::Mutations)) };
            for (k, v) in ms {
                if !slots.insert((s.predicate_to_solve.contract.clone(), k.clone())) {
                    return Some((si as u16, Kind::Mutations));
                }
                muts[si].push((k, v));
            }
        }
    }
    None
}
