//! C13 at the sequence level, on the real crate: `to_bytes(seq)` is the concatenation of the single-op encodings (opcode byte, plus
//! 8 big-endian immediate bytes for Push), `from_bytes` of that is `seq` again, and parsing any byte string either fails (invalid
//! opcode / not enough bytes, exactly where the reference reading says) or yields ops that serialise to exactly those bytes.
//! The single-op tables themselves are decided by the Verus / Kani obligations against asm.yml; here the streams are long (buffer
//! boundaries at every offset up to 3000 bytes, 9000 in the thorough tier) and the byte iterators are also finished with fold-style consumers after a partial
//! `next()` prefix.
use crate::Ctx;
use essential_asm::{self as asm, opcode::ParseOp, FromBytesError, Op, Opcode, ToBytes};

fn xorshift(s: &mut u64) -> u64 {
    *s ^= *s << 13;
    *s ^= *s >> 7;
    *s ^= *s << 17;
    *s
}

/// The non-Push ops by their byte, and the Push byte, read off the single-op functions.
fn table() -> (Vec<(u8, Op)>, u8) {
    let mut singles = vec![];
    let mut push = None;
    for b in 0..=u8::MAX {
        if let Ok(opc) = Opcode::try_from(b) {
            let mut imm = [0u8; 8].into_iter();
            let op = opc.parse_op(&mut imm).expect("8 immediate bytes suffice for every op");
            if imm.len() == 0 {
                assert!(matches!(op, Op::Stack(asm::Stack::Push(0))));
                push = Some(b);
            } else {
                assert_eq!(imm.len(), 8, "only Push takes immediate bytes");
                singles.push((b, op));
            }
        }
    }
    (singles, push.expect("Push has an opcode"))
}

fn enc_ref(ops: &[Op], singles: &[(u8, Op)], push: u8) -> Vec<u8> {
    let mut out = vec![];
    for op in ops {
        match op {
            Op::Stack(asm::Stack::Push(v)) => {
                out.push(push);
                out.extend(v.to_be_bytes());
            }
            _ => out.push(singles.iter().find(|(_, o)| o == op).expect("op in table").0),
        }
    }
    out
}

#[derive(Debug, PartialEq)]
enum Parse {
    Ok(Vec<Op>),
    Invalid(usize),
    Short(usize),
}

fn parse_ref(bytes: &[u8], singles: &[(u8, Op)], push: u8) -> Parse {
    let mut ops = vec![];
    let mut i = 0;
    while i < bytes.len() {
        let b = bytes[i];
        if b == push {
            if bytes.len() - i - 1 < 8 {
                return Parse::Short(ops.len());
            }
            ops.push(Op::from(asm::Stack::Push(i64::from_be_bytes(bytes[i + 1..i + 9].try_into().unwrap()))));
            i += 9;
        } else if let Some((_, op)) = singles.iter().find(|(x, _)| *x == b) {
            ops.push(*op);
            i += 1;
        } else {
            return Parse::Invalid(ops.len());
        }
    }
    Parse::Ok(ops)
}

/// The real parser's items up to and including the first error.
fn parse_real(bytes: &[u8]) -> Parse {
    let mut ops = vec![];
    for r in asm::from_bytes(bytes.iter().copied()) {
        match r {
            Ok(op) => ops.push(op),
            Err(FromBytesError::InvalidOpcode(_)) => return Parse::Invalid(ops.len()),
            Err(FromBytesError::NotEnoughBytes(_)) => return Parse::Short(ops.len()),
        }
    }
    Parse::Ok(ops)
}

fn check_seq(ctx: &Ctx, id: &str, ops: &[Op], t: &(Vec<(u8, Op)>, u8)) {
    if !ctx.want(id) {
        return;
    }
    let want = enc_ref(ops, &t.0, t.1);
    let r = std::panic::catch_unwind(|| {
        let bytes: Vec<u8> = asm::to_bytes(ops.iter().copied()).collect();
        let back = parse_real(&bytes);
        (bytes, back)
    });
    match r {
        Err(_) => ctx.fail(id, "the codec never panics", format!("PANIC on {} ops", ops.len())),
        Ok((bytes, back)) => {
            if bytes != want {
                let at = bytes.iter().zip(&want).position(|(a, b)| a != b).unwrap_or(bytes.len().min(want.len()));
                ctx.fail(id, "to_bytes(seq) is the concatenation of the single-op encodings (opcode byte, then 8 big-endian bytes for Push)",
                    format!("{} ops {:?}..: {} bytes produced, {} expected, first difference at byte {at}", ops.len(), &ops[..ops.len().min(6)], bytes.len(), want.len()));
            } else if back != Parse::Ok(ops.to_vec()) {
                let d = match &back {
                    Parse::Ok(v) => format!("{} ops, first difference at op {:?}", v.len(), v.iter().zip(ops).position(|(a, b)| a != b)),
                    x => format!("{:?}", x),
                };
                ctx.fail(id, "parsing a serialised sequence yields the same sequence", format!("{} ops ({} bytes) {:?}..: parsed back as {d}", ops.len(), want.len(), &ops[..ops.len().min(6)]));
            } else {
                ctx.pass();
            }
        }
    }
}

fn check_bytes(ctx: &Ctx, id: &str, bytes: &[u8], t: &(Vec<(u8, Op)>, u8)) {
    if !ctx.want(id) {
        return;
    }
    let want = parse_ref(bytes, &t.0, t.1);
    let r = std::panic::catch_unwind(|| {
        let got = parse_real(bytes);
        let re: Option<Vec<u8>> = match &got {
            Parse::Ok(ops) => Some(asm::to_bytes(ops.iter().copied()).collect()),
            _ => None,
        };
        (got, re)
    });
    match r {
        Err(_) => ctx.fail(id, "the codec never panics", format!("PANIC on bytes {:?}", &bytes[..bytes.len().min(40)])),
        Ok((got, re)) => {
            if got != want {
                let brief = |p: &Parse| match p {
                    Parse::Ok(v) => format!("{} ops", v.len()),
                    x => format!("{:?} (error after that many ops)", x),
                };
                ctx.fail(id, "parsing fails exactly on an invalid opcode byte or a truncated immediate, and otherwise yields the ops the bytes denote",
                    format!("{} bytes {:?}..: parser gave {} but the bytes denote {}", bytes.len(), &bytes[..bytes.len().min(24)], brief(&got), brief(&want)));
            } else if re.as_deref().map_or(false, |b| b != bytes) {
                ctx.fail(id, "ops parsed from a byte string serialise to exactly those bytes", format!("{} bytes {:?}..", bytes.len(), &bytes[..bytes.len().min(24)]));
            } else {
                ctx.pass();
            }
        }
    }
}

/// A byte iterator advanced `k` times with `next` and finished by several consumers yields the remaining bytes.
fn check_iter(ctx: &Ctx, id: &str, ops: &[Op], k: usize, t: &(Vec<(u8, Op)>, u8)) {
    if !ctx.want(id) {
        return;
    }
    let want = enc_ref(ops, &t.0, t.1);
    let k = k.min(want.len());
    let rest = &want[k..];
    let r = std::panic::catch_unwind(|| {
        let mk = || {
            let mut it = asm::to_bytes(ops.iter().copied());
            for _ in 0..k {
                it.next();
            }
            it
        };
        let mut bad = vec![];
        if mk().fold(Vec::new(), |mut v, b| { v.push(b); v }) != rest {
            bad.push("fold");
        }
        let mut v = vec![];
        mk().for_each(|b| v.push(b));
        if v != rest {
            bad.push("for_each");
        }
        if mk().count() != rest.len() {
            bad.push("count");
        }
        if mk().last() != rest.last().copied() {
            bad.push("last");
        }
        if mk().collect::<Vec<u8>>() != rest {
            bad.push("collect");
        }
        let (lo, hi) = mk().size_hint();
        if lo > rest.len() || hi.map_or(false, |h| h < rest.len()) {
            bad.push("size_hint");
        }
        if ops.len() == 1 {
            let mut it = ops[0].to_bytes();
            for _ in 0..k {
                it.next();
            }
            if it.fold(Vec::new(), |mut v, b| { v.push(b); v }) != rest {
                bad.push("Op::to_bytes().fold");
            }
            let mut it = ops[0].to_bytes();
            for _ in 0..k {
                it.next();
            }
            if it.count() != rest.len() {
                bad.push("Op::to_bytes().count");
            }
        }
        bad
    });
    match r {
        Err(_) => ctx.fail(id, "the codec never panics", format!("PANIC on {:?}", &ops[..ops.len().min(6)])),
        Ok(bad) if bad.is_empty() => ctx.pass(),
        Ok(bad) => ctx.fail(id, "the serialised byte stream is the same however the iterator is consumed (next, then fold / for_each / count / last / collect)",
            format!("ops {:?}.. after {k} calls of next(): {:?} disagree with the remaining {} bytes of the encoding", &ops[..ops.len().min(6)], bad, rest.len())),
    }
}

pub fn run(ctx: &Ctx) {
    let t = table();
    let (singles, push) = (&t.0, t.1);
    let imms: Vec<i64> = vec![0, 1, -1, i64::MIN, i64::MAX, 0x0102030405060708, push as i64, (push as i64) << 56, 0x00FF00FF00FF00FFu64 as i64];
    let mut all: Vec<Op> = singles.iter().map(|(_, o)| *o).collect();
    all.extend(imms.iter().map(|v| Op::from(asm::Stack::Push(*v))));
    // ---- every ordered pair of ops (Push with boundary immediates)
    check_seq(ctx, "asm/seq/empty", &[], &t);
    for (i, a) in all.iter().enumerate() {
        check_seq(ctx, &format!("asm/seq/1/{i}"), &[*a], &t);
        for (j, b) in all.iter().enumerate() {
            check_seq(ctx, &format!("asm/seq/2/{i}/{j}"), &[*a, *b], &t);
        }
    }
    // ---- a Push at every byte offset of a long stream, surrounded by single-byte ops and further pushes
    let max_off = if ctx.thorough { 9000 } else { 3000 };
    for off in 0..=max_off {
        let mut ops: Vec<Op> = (0..off).map(|i| singles[(i * 7 + off) % singles.len()].1).collect();
        ops.push(asm::Stack::Push(0x1122334455667788 + off as i64).into());
        ops.push(singles[off % singles.len()].1);
        ops.push(asm::Stack::Push(-(off as i64)).into());
        check_seq(ctx, &format!("asm/seq/push-at/{off}"), &ops, &t);
    }
    // ---- runs of pushes shifted by 0..8 single-byte ops, with single-byte ops in between every n-th push
    for shift in 0..9usize {
        for every in [0usize, 3, 7, 28] {
            let mut ops: Vec<Op> = (0..shift).map(|i| singles[i % singles.len()].1).collect();
            for n in 0..260usize {
                ops.push(asm::Stack::Push((n as i64) << 33 | n as i64).into());
                if every != 0 && n % every == 0 {
                    ops.push(singles[n % singles.len()].1);
                }
            }
            check_seq(ctx, &format!("asm/seq/push-run/{shift}/{every}"), &ops, &t);
        }
    }
    // ---- random sequences of 0..400 ops
    let mut seed = 0x9E3779B97F4A7C15u64;
    let n_rand = if ctx.thorough { 20000 } else { 3000 };
    for n in 0..n_rand {
        let len = (xorshift(&mut seed) % 400) as usize;
        let ops: Vec<Op> = (0..len).map(|_| {
            let r = xorshift(&mut seed);
            if r % 4 == 0 { asm::Stack::Push(xorshift(&mut seed) as i64).into() } else { singles[(r >> 8) as usize % singles.len()].1 }
        }).collect();
        check_seq(ctx, &format!("asm/seq/random/{n}"), &ops, &t);
    }
    // ---- byte strings: all single bytes, all pairs, every truncation of a long stream, an invalid byte at every offset, random strings
    for a in 0..=u8::MAX {
        check_bytes(ctx, &format!("asm/bytes/1/{a}"), &[a], &t);
        for b in 0..=u8::MAX {
            check_bytes(ctx, &format!("asm/bytes/2/{a}/{b}"), &[a, b], &t);
        }
    }
    for n in 0..=9usize {
        let mut v = vec![push];
        v.extend(std::iter::repeat(push).take(n));
        check_bytes(ctx, &format!("asm/bytes/push-prefix/{n}"), &v, &t);
    }
    let long_ops: Vec<Op> = (0..300usize).map(|i| if i % 3 == 1 { asm::Stack::Push((i as i64).wrapping_mul(0x0101010101010101)).into() } else { singles[i % singles.len()].1 }).collect();
    let long = enc_ref(&long_ops, singles, push);
    for cut in 0..=long.len() {
        check_bytes(ctx, &format!("asm/bytes/truncated/{cut}"), &long[..cut], &t);
    }
    let invalid: u8 = (0..=u8::MAX).find(|b| Opcode::try_from(*b).is_err()).expect("some byte is not an opcode");
    for at in (0..long.len()).step_by(if ctx.thorough { 1 } else { 3 }) {
        let mut v = long.clone();
        v[at] = invalid;
        check_bytes(ctx, &format!("asm/bytes/invalid-at/{at}"), &v, &t);
    }
    for n in 0..n_rand {
        let len = (xorshift(&mut seed) % 700) as usize;
        let v: Vec<u8> = (0..len).map(|_| {
            let r = xorshift(&mut seed);
            match r % 16 {
                0 => (r >> 8) as u8,
                1 | 2 => push,
                _ => singles[(r >> 8) as usize % singles.len()].0,
            }
        }).collect();
        check_bytes(ctx, &format!("asm/bytes/random/{n}"), &v, &t);
    }
    // ---- partially consumed byte iterators finished by fold-style consumers
    for (i, a) in all.iter().enumerate() {
        for k in 0..=10 {
            check_iter(ctx, &format!("asm/iter/1/{i}/{k}"), &[*a], k, &t);
        }
    }
    let mixed: Vec<Op> = vec![singles[0].1, asm::Stack::Push(0x0102030405060708).into(), asm::Stack::Push(-2).into(), singles[5].1, singles[9].1, asm::Stack::Push(7).into()];
    for k in 0..=31 {
        check_iter(ctx, &format!("asm/iter/mixed/{k}"), &mixed, k, &t);
    }
    for k in [0usize, 1, 8, 9, 10, 100, 127, 128, 129, 255, 256, 257, 500, 899] {
        check_iter(ctx, &format!("asm/iter/long/{k}"), &long_ops, k, &t);
    }
}
