//! xrun <suite> [--tier quick|thorough] [--only <case-id>]
//! Prints one JSON line per failing case and a final summary line; exit 0 = no failure, 1 = at least one failure, 2 = usage.
mod asm_suite;
mod bytecode_suite;
mod compute_suite;
mod graph_suite;
mod hash_suite;
mod refsem;
mod effects_suite;
mod validate_suite;
mod codec_suite;
mod vmops_suite;

use std::sync::atomic::{AtomicUsize, Ordering};

pub struct Ctx {
    pub suite: &'static str,
    pub thorough: bool,
    pub only: Option<String>,
    pub cases: AtomicUsize,
    pub failures: AtomicUsize,
    /// failures printed so far per group (first two segments of the case id): the first two of every group are printed, at most 60 lines
    pub printed: std::sync::Mutex<std::collections::BTreeMap<String, usize>>,
}

impl Ctx {
    /// Returns true when the case with this id is to be run.
    pub fn want(&self, id: &str) -> bool {
        match &self.only {
            Some(o) => o == id,
            None => true,
        }
    }
    pub fn pass(&self) {
        self.cases.fetch_add(1, Ordering::Relaxed);
    }
    pub fn fail(&self, id: &str, clause: &str, detail: String) {
        self.cases.fetch_add(1, Ordering::Relaxed);
        self.failures.fetch_add(1, Ordering::Relaxed);
        let group: String = id.split('/').take(2).collect::<Vec<_>>().join("/");
        let mut p = self.printed.lock().unwrap();
        let total: usize = p.values().sum();
        let g = p.entry(group).or_insert(0);
        if *g < 2 && total < 60 {
            *g += 1;
            println!(
                "{{\"suite\":\"{}\",\"case\":\"{}\",\"clause\":\"{}\",\"detail\":\"{}\"}}",
                self.suite,
                esc(id),
                esc(clause),
                esc(&detail)
            );
        }
    }
}

pub fn esc(s: &str) -> String {
    s.replace('\\', "\\\\").replace('"', "'").replace('\n', " ")
}

fn main() {
    let args: Vec<String> = std::env::args().collect();
    if args.len() < 2 {
        eprintln!("usage: xrun <hash|graph|compute|bytecode|vmops|validate|codec|effects|asm> [--tier quick|thorough] [--only <case>]");
        std::process::exit(2);
    }
    let mut thorough = false;
    let mut only = None;
    let mut i = 2;
    while i < args.len() {
        match args[i].as_str() {
            "--tier" => {
                thorough = args.get(i + 1).map(|s| s == "thorough").unwrap_or(false);
                i += 2;
            }
            "--only" => {
                only = args.get(i + 1).cloned();
                i += 2;
            }
            _ => i += 1,
        }
    }
    if args[1] == "probe-breadth" {
        // C05 probe, run by the driver in a subprocess under a memory and time limit: a Compute whose breadth is far beyond what the
        // gas limit can pay for must still return (a typed error or success) instead of exhausting memory / time.
        use essential_asm as asm;
        use essential_vm::{Access, GasLimit, Vm};
        let ops: Vec<asm::Op> = vec![asm::Stack::Push(1i64 << 40).into(), asm::Compute::Compute.into(), asm::Compute::ComputeEnd.into()];
        let sol = essential_types::solution::Solution {
            predicate_to_solve: essential_types::PredicateAddress { contract: essential_types::ContentAddress([0; 32]), predicate: essential_types::ContentAddress([0; 32]) },
            predicate_data: vec![],
            state_mutations: vec![],
        };
        let st = (refsem::PreState::default(), refsem::PreState::default());
        let mut vm = Vm::default();
        let r = vm.exec_ops(&ops, Access::new(std::sync::Arc::new(vec![sol]), 0), &st, &|_: &asm::Op| 1u64, GasLimit { per_yield: 4096, total: 1000 });
        println!("{{\"probe\":\"huge_compute_breadth\",\"returned\":true,\"ok\":{}}}", r.is_ok());
        std::process::exit(0);
    }
    let suite: &'static str = match args[1].as_str() {
        "hash" => "hash",
        "graph" => "graph",
        "compute" => "compute",
        "bytecode" => "bytecode",
        "vmops" => "vmops",
        "validate" => "validate",
        "codec" => "codec",
        "effects" => "effects",
        "asm" => "asm",
        _ => {
            eprintln!("unknown suite");
            std::process::exit(2);
        }
    };
    // panics of the code under test are caught and reported per case; keep stderr quiet
    if std::env::var("XRUN_PANICS").is_err() {
        std::panic::set_hook(Box::new(|_| {}));
    }
    let ctx = Ctx { suite, thorough, only, cases: AtomicUsize::new(0), failures: AtomicUsize::new(0), printed: Default::default() };
    // a panic inside the code under test is a failure of the case that was running, not of the driver
    let r = std::panic::catch_unwind(std::panic::AssertUnwindSafe(|| match suite {
        "hash" => hash_suite::run(&ctx),
        "graph" => graph_suite::run(&ctx),
        "compute" => compute_suite::run(&ctx),
        "bytecode" => bytecode_suite::run(&ctx),
        "vmops" => vmops_suite::run(&ctx),
        "validate" => validate_suite::run(&ctx),
        "codec" => codec_suite::run(&ctx),
        "effects" => effects_suite::run(&ctx),
        "asm" => asm_suite::run(&ctx),
        _ => unreachable!(),
    }));
    if r.is_err() {
        ctx.fail("driver", "a case panicked outside catch_unwind", String::new());
    }
    let (c, f) = (ctx.cases.load(Ordering::Relaxed), ctx.failures.load(Ordering::Relaxed));
    println!("{{\"suite\":\"{}\",\"summary\":true,\"cases\":{},\"failures\":{}}}", suite, c, f);
    std::process::exit(if f == 0 { 0 } else { 1 });
}
