//! C17: content addresses against an independent reference (SHA-256 of the documented pre-hash encodings).
use crate::Ctx;
use essential_hash::{content_addr, contract_addr, solution_set_addr};
use essential_types::{
    contract::Contract,
    predicate::{Node, Predicate, Program},
    solution::{Mutation, Solution, SolutionSet},
    ContentAddress, PredicateAddress,
};
use sha2::{Digest, Sha256};

fn sha(chunks: &[&[u8]]) -> [u8; 32] {
    let mut h = Sha256::new();
    for c in chunks {
        h.update(c);
    }
    h.finalize().into()
}

/// Documented binary predicate encoding (crates/types/src/predicate/encode.rs module docs).
fn ref_encode(p: &Predicate) -> Vec<u8> {
    let mut out = Vec::new();
    out.extend((p.nodes.len() as u16).to_be_bytes());
    for n in &p.nodes {
        out.extend(n.edge_start.to_be_bytes());
        out.extend(n.program_address.0);
    }
    out.extend((p.edges.len() as u16).to_be_bytes());
    for e in &p.edges {
        out.extend(e.to_be_bytes());
    }
    out
}

fn addr_pool() -> Vec<ContentAddress> {
    let mut v = Vec::new();
    v.push(ContentAddress([0x00; 32]));
    v.push(ContentAddress([0xff; 32]));
    let mut a = [0u8; 32];
    a[31] = 1;
    v.push(ContentAddress(a)); // differs from the first only in the last byte
    let mut b = [0u8; 32];
    b[0] = 1;
    v.push(ContentAddress(b)); // differs only in the first byte
    let mut c = [0u8; 32];
    c[16] = 1;
    v.push(ContentAddress(c)); // equal to the first in bytes 0..16
    let mut d = [0x7f; 32];
    d[15] = 0x80;
    v.push(ContentAddress(d));
    v
}

fn seqs(pool: &[ContentAddress], max_len: usize) -> Vec<Vec<ContentAddress>> {
    let mut out = vec![vec![]];
    let mut layer = vec![vec![]];
    for _ in 0..max_len {
        let mut next = Vec::new();
        for s in &layer {
            for a in pool {
                let mut t: Vec<ContentAddress> = s.clone();
                t.push(a.clone());
                next.push(t);
            }
        }
        out.extend(next.iter().cloned());
        layer = next;
    }
    out
}

fn rnd(seed: &mut u64) -> u64 {
    *seed ^= *seed << 13;
    *seed ^= *seed >> 7;
    *seed ^= *seed << 17;
    *seed
}

fn mk_predicate(nodes: usize, edges: usize, seed: u64) -> Predicate {
    let mut s = seed | 1;
    let mut p = Predicate { nodes: vec![], edges: vec![] };
    for i in 0..nodes {
        let mut a = [0u8; 32];
        for b in a.iter_mut() {
            *b = rnd(&mut s) as u8;
        }
        p.nodes.push(Node { edge_start: if i % 3 == 2 { u16::MAX } else { (rnd(&mut s) % 7) as u16 }, program_address: ContentAddress(a) });
    }
    for _ in 0..edges {
        p.edges.push((rnd(&mut s) % 11) as u16);
    }
    p
}

pub fn run(ctx: &Ctx) {
    let pool = addr_pool();
    let salts: Vec<[u8; 32]> = vec![[0; 32], [0xff; 32], {
        let mut s = [0u8; 32];
        s[31] = 1;
        s
    }];
    let max_len = if ctx.thorough { 4 } else { 3 };
    // ---- contract address from predicate addresses (multiset + salt), all helpers agree
    for (si, salt) in salts.iter().enumerate() {
        for (qi, seq) in seqs(&pool, max_len).into_iter().enumerate() {
            let id = format!("contract-addrs/{si}/{qi}");
            if !ctx.want(&id) {
                continue;
            }
            let mut sorted = seq.clone();
            sorted.sort_by(|a, b| a.0.cmp(&b.0));
            let mut chunks: Vec<&[u8]> = sorted.iter().map(|a| &a.0[..]).collect();
            chunks.push(&salt[..]);
            let want = sha(&chunks);
            let got1 = contract_addr::from_predicate_addrs(seq.clone(), salt);
            let mut sl = seq.clone();
            let got2 = contract_addr::from_predicate_addrs_slice(&mut sl, salt);
            if got1.0 != want || got2.0 != want {
                ctx.fail(&id, "contract address == SHA-256(sorted predicate addresses (multiset) ++ salt), all helpers agree",
                    format!("addrs(first,last byte)={:?} salt[31]={} from_predicate_addrs_ok={} slice_ok={}",
                        seq.iter().map(|a| (a.0[0], a.0[16], a.0[31])).collect::<Vec<_>>(), salt[31], got1.0 == want, got2.0 == want));
            } else {
                ctx.pass();
            }
        }
    }
    // ---- solution-set address from solution addresses
    for (qi, seq) in seqs(&pool, max_len).into_iter().enumerate() {
        let id = format!("set-addrs/{qi}");
        if !ctx.want(&id) {
            continue;
        }
        let mut sorted = seq.clone();
        sorted.sort_by(|a, b| a.0.cmp(&b.0));
        let chunks: Vec<&[u8]> = sorted.iter().map(|a| &a.0[..]).collect();
        let want = sha(&chunks);
        let got1 = solution_set_addr::from_solution_addrs(seq.clone());
        let mut sl = seq.clone();
        let got2 = solution_set_addr::from_solution_addrs_slice(&mut sl);
        if got1.0 != want || got2.0 != want {
            ctx.fail(&id, "solution-set address == SHA-256(sorted solution addresses), independent of order",
                format!("addrs(byte0,byte16,byte31)={:?} from_solution_addrs_ok={} slice_ok={}",
                    seq.iter().map(|a| (a.0[0], a.0[16], a.0[31])).collect::<Vec<_>>(), got1.0 == want, got2.0 == want));
        } else {
            ctx.pass();
        }
    }
    // ---- longer sequences of pseudo-random addresses (4..=17 members, every fourth one 31..1025 members, incl. repeated members and members sharing long prefixes)
    let count = if ctx.thorough { 3000u64 } else { 400 };
    for seed in 1..=count {
        let id = format!("random-addrs/{seed}");
        if !ctx.want(&id) {
            continue;
        }
        let mut s = seed.wrapping_mul(0x9E3779B97F4A7C15) | 1;
        // every fourth sequence is long: around powers of two and other plausible buffer sizes
        let long = [31usize, 32, 33, 34, 40, 63, 64, 65, 66, 100, 127, 128, 129, 255, 256, 257, 511, 513, 1000, 1025];
        let n = if seed % 4 == 0 { long[(seed / 4) as usize % long.len()] } else { 4 + (rnd(&mut s) % 14) as usize };
        let mut seq: Vec<ContentAddress> = Vec::new();
        for i in 0..n {
            let mut a = [0u8; 32];
            for b in a.iter_mut() {
                *b = rnd(&mut s) as u8;
            }
            if i > 0 && rnd(&mut s) % 3 == 0 {
                // share a prefix of random length with an earlier member (or repeat it entirely)
                let j = (rnd(&mut s) % i as u64) as usize;
                let keep = (rnd(&mut s) % 33) as usize;
                a[..keep].copy_from_slice(&seq[j].0[..keep]);
            }
            seq.push(ContentAddress(a));
        }
        let mut salt = [0u8; 32];
        for b in salt.iter_mut() {
            *b = rnd(&mut s) as u8;
        }
        let mut sorted = seq.clone();
        sorted.sort_by(|a, b| a.0.cmp(&b.0));
        let mut chunks: Vec<&[u8]> = sorted.iter().map(|a| &a.0[..]).collect();
        let want_set = sha(&chunks);
        chunks.push(&salt[..]);
        let want_contract = sha(&chunks);
        let got_c = contract_addr::from_predicate_addrs(seq.clone(), &salt);
        let got_s = solution_set_addr::from_solution_addrs(seq.clone());
        let (mut sl1, mut sl2) = (seq.clone(), seq.clone());
        let slices_ok = contract_addr::from_predicate_addrs_slice(&mut sl1, &salt).0 == want_contract && solution_set_addr::from_solution_addrs_slice(&mut sl2).0 == want_set;
        if got_c.0 != want_contract || got_s.0 != want_set || !slices_ok {
            ctx.fail(&id, "contract / set address == SHA-256(sorted member addresses (++ salt)) for longer sequences",
                format!("{} members (first bytes {:?}..): contract_ok={} set_ok={} slice_variants_ok={slices_ok}", n, seq.iter().take(40).map(|a| a.0[0]).collect::<Vec<_>>(), got_c.0 == want_contract, got_s.0 == want_set));
        } else {
            ctx.pass();
        }
    }
    // ---- predicate address / encoding / size for every shape up to the bound
    let (mn, me) = if ctx.thorough { (20, 70) } else { (9, 34) };
    let mut shapes: Vec<(usize, usize)> = (0..=mn).flat_map(|n| (0..=me).map(move |e| (n, e))).collect();
    // the documented size limits themselves
    shapes.extend([(1000, 1000), (1000, 0), (0, 1000), (999, 1000)]);
    // larger sampled shapes
    let mut ss = 0x1234_5678_9abc_def1u64;
    for _ in 0..(if ctx.thorough { 600 } else { 120 }) {
        shapes.push(((rnd(&mut ss) % 60) as usize, (rnd(&mut ss) % 200) as usize));
    }
    for (n, e) in shapes {
        {
            let id = format!("predicate/{n}/{e}");
            if !ctx.want(&id) {
                continue;
            }
            let p = mk_predicate(n, e, (n * 131 + e) as u64 + 7);
            let enc = ref_encode(&p);
            let want = sha(&[&enc]);
            let got = content_addr(&p);
            let real_enc: Vec<u8> = essential_types::predicate::encode::encode_predicate(&p).map(|i| i.collect()).unwrap_or_default();
            let size = essential_types::predicate::encode::predicate_encoded_size(&p);
            if got.0 != want || real_enc != enc || size != enc.len() {
                ctx.fail(&id, "predicate address == SHA-256(documented encoding); encode_predicate == documented encoding; encoded size == its length",
                    format!("nodes={n} edges={e} encoded_len={} addr_ok={} encoding_ok={} size_ok={}", enc.len(), got.0 == want, real_enc == enc, size == enc.len()));
                continue;
            }
            // sensitivity: changing the last byte that is hashed changes the address
            if n > 0 || e > 0 {
                let mut q = p.clone();
                if e > 0 {
                    q.edges[e - 1] ^= 1;
                } else {
                    q.nodes[n - 1].program_address.0[31] ^= 1;
                }
                if content_addr(&q) == got {
                    ctx.fail(&id, "a change to a predicate changes its address", format!("nodes={n} edges={e}: last field perturbed, address unchanged"));
                    continue;
                }
            }
            ctx.pass();
        }
    }
    // ---- contracts built from predicates (duplicates, permutations) and sets built from solutions
    let preds = [mk_predicate(0, 0, 1), mk_predicate(1, 0, 2), mk_predicate(2, 1, 3)];
    let idx_seqs: Vec<Vec<usize>> = {
        let mut out = vec![vec![]];
        for a in 0..3 {
            out.push(vec![a]);
            for b in 0..3 {
                out.push(vec![a, b]);
                for c in 0..3 {
                    out.push(vec![a, b, c]);
                }
            }
        }
        out
    };
    for (qi, ix) in idx_seqs.iter().enumerate() {
        let id = format!("contract/{qi}");
        if !ctx.want(&id) {
            continue;
        }
        let salt = salts[qi % salts.len()];
        let contract = Contract { predicates: ix.iter().map(|&i| preds[i].clone()).collect(), salt };
        let mut addrs: Vec<[u8; 32]> = contract.predicates.iter().map(|p| sha(&[&ref_encode(p)])).collect();
        addrs.sort();
        let mut chunks: Vec<&[u8]> = addrs.iter().map(|a| &a[..]).collect();
        chunks.push(&salt[..]);
        let want = sha(&chunks);
        let got = content_addr(&contract);
        let got2 = contract_addr::from_contract(&contract);
        if got.0 != want || got2.0 != want {
            ctx.fail(&id, "contract address == SHA-256(sorted predicate addresses ++ salt) (predicates as a multiset)",
                format!("predicate indices {:?}: content_addr_ok={} from_contract_ok={}", ix, got.0 == want, got2.0 == want));
        } else {
            ctx.pass();
        }
    }
    let sols: Vec<Solution> = (0..3u8)
        .map(|i| Solution {
            predicate_to_solve: PredicateAddress { contract: ContentAddress([i; 32]), predicate: ContentAddress([i + 1; 32]) },
            predicate_data: vec![vec![i as i64, -1]],
            state_mutations: vec![Mutation { key: vec![i as i64], value: vec![7, i as i64] }],
        })
        .collect();
    for (qi, ix) in idx_seqs.iter().enumerate() {
        let id = format!("set/{qi}");
        if !ctx.want(&id) {
            continue;
        }
        let set = SolutionSet { solutions: ix.iter().map(|&i| sols[i].clone()).collect() };
        // postcard is external: the reference hashes essential_hash::serialize(solution)
        let mut addrs: Vec<[u8; 32]> = set.solutions.iter().map(|s| sha(&[&essential_hash::serialize(s)])).collect();
        addrs.sort();
        let chunks: Vec<&[u8]> = addrs.iter().map(|a| &a[..]).collect();
        let want = sha(&chunks);
        let got = content_addr(&set);
        let got2 = solution_set_addr::from_set(&set);
        let sol_ok = set.solutions.iter().all(|s| content_addr(s).0 == sha(&[&essential_hash::serialize(s)]));
        if got.0 != want || got2.0 != want || !sol_ok {
            ctx.fail(&id, "set address == SHA-256(sorted solution addresses); solution address == SHA-256(serialised solution)",
                format!("solution indices {:?}: content_addr_ok={} from_set_ok={} solution_addr_ok={}", ix, got.0 == want, got2.0 == want, sol_ok));
        } else {
            ctx.pass();
        }
    }
    // ---- program address == SHA-256(bytes), lengths around the SHA block size
    for len in [0usize, 1, 55, 56, 63, 64, 65, 119, 120, 127, 128, 129, 192] {
        let id = format!("program/{len}");
        if !ctx.want(&id) {
            continue;
        }
        let bytes: Vec<u8> = (0..len).map(|i| (i * 7 + 3) as u8).collect();
        let got = content_addr(&Program(bytes.clone()));
        if got.0 != sha(&[&bytes]) {
            ctx.fail(&id, "program address == SHA-256(program bytes)", format!("len={len}"));
        } else {
            ctx.pass();
        }
    }
}
