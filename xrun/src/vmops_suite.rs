//! C05 / C08 / C09 / C11 / C12: every synchronous VM operation on boundary inputs against an executable twin of the specification
//! functions of specs/prelude/vm_spec.rs (written from asm.yml and the property statements).  Source of concrete counterexamples for
//! failed Verus obligations of vm_core, and the only check of the ops Verus cannot ingest (EqSet, SHA-256 marshalling).
use crate::refsem::{next_key, PreState};
use crate::Ctx;
use essential_asm as asm;
use essential_types::{solution::Solution, ContentAddress, PredicateAddress, Word};
use essential_vm::{Access, GasLimit, Memory, Stack, Vm};
use std::sync::Arc;

type W = Vec<Word>;
const STACK_LIMIT: usize = 4096;
const MEM_LIMIT: usize = 10240;
const PC: usize = 3;

#[derive(Debug, PartialEq, Clone)]
enum Flow {
    Next,
    Jump(usize),
    Halt,
}

fn w2b(w: Word) -> Option<bool> {
    match w {
        0 => Some(false),
        1 => Some(true),
        _ => None,
    }
}
fn b2w(b: bool) -> Word {
    b as Word
}
fn idx(w: Word) -> Option<usize> {
    usize::try_from(w).ok()
}

struct Env {
    /// (predicate data, contract address, predicate address) of every solution of the set, in order; the checked one is index 1
    all: Vec<(Vec<W>, [u8; 32], [u8; 32])>,
    data: Vec<W>,
    pred_addr: [u8; 32],
    contract_addr: [u8; 32],
    pre: PreState,
    post: PreState,
}

/// SHA-256 over the length-prefixed predicate data slots, the contract address and the predicate address, all as big-endian words.
fn pre_image(data: &[W], contract: &[u8; 32], pred: &[u8; 32]) -> Vec<u8> {
    let mut bytes = Vec::new();
    for slot in data {
        bytes.extend((slot.len() as Word).to_be_bytes());
        for w in slot {
            bytes.extend(w.to_be_bytes());
        }
    }
    bytes.extend(contract);
    bytes.extend(pred);
    bytes
}
fn pre_image_hash(data: &[W], contract: &[u8; 32], pred: &[u8; 32]) -> [u8; 32] {
    use sha2::{Digest, Sha256};
    Sha256::digest(pre_image(data, contract, pred)).into()
}

fn be_words(b: &[u8; 32]) -> W {
    (0..4).map(|i| i64::from_be_bytes(b[8 * i..8 * i + 8].try_into().unwrap())).collect()
}

/// [.., w_0 .. w_{len-1}, len] -> (rest, words)
fn len_words(s: &[Word]) -> Option<(W, W)> {
    let (&l, t) = s.split_last()?;
    let l = idx(l)?;
    if l > t.len() {
        return None;
    }
    Some((t[..t.len() - l].to_vec(), t[t.len() - l..].to_vec()))
}

/// Decode a set `[elem words.., elem_len, .., elem words.., elem_len]` from its words (without the trailing set length).
fn decode_set(ws: &[Word]) -> Option<std::collections::BTreeSet<W>> {
    let mut out = std::collections::BTreeSet::new();
    let mut rest = ws;
    while let Some((&l, t)) = rest.split_last() {
        let l = idx(l)?;
        if l > t.len() {
            return None;
        }
        out.insert(t[t.len() - l..].to_vec());
        rest = &t[..t.len() - l];
    }
    Some(out)
}

fn layout(mem: &[Word], addr: usize, vals: &[W]) -> Option<W> {
    let total: usize = vals.iter().map(|v| v.len()).sum::<usize>() + 2 * vals.len();
    if vals.is_empty() {
        return Some(mem.to_vec());
    }
    if addr.checked_add(total)? > mem.len() {
        return None;
    }
    let mut m = mem.to_vec();
    let mut va = addr + 2 * vals.len();
    for (i, v) in vals.iter().enumerate() {
        m[addr + 2 * i] = va as Word;
        m[addr + 2 * i + 1] = v.len() as Word;
        m[va..va + v.len()].copy_from_slice(v);
        va += v.len();
    }
    Some(m)
}

fn read_state(st: &PreState, c: &[u8; 32], key: &W, n: usize) -> Vec<W> {
    let mut out = Vec::new();
    let mut k = Some(key.clone());
    for _ in 0..n {
        let Some(cur) = k else { break };
        out.push(st.0.get(&ContentAddress(*c)).and_then(|m| m.get(&cur)).cloned().unwrap_or_default());
        k = next_key(&cur);
    }
    out
}

/// The specification: None = the op fails (stack / memory contents after a failure are not part of the contract, the bounds are).
fn model(op: &asm::Op, s: &[Word], m: &[Word], env: &Env) -> Option<(W, W, Flow)> {
    use asm::{Access as A, Alu, Crypto, Memory as M, Op, Pred, Stack as S, StateRead as R, TotalControlFlow as T};
    let n = s.len();
    let keep_m = |st: W| Some((st, m.to_vec(), Flow::Next));
    let ok_push = |mut st: W, w: Word| {
        if st.len() < STACK_LIMIT {
            st.push(w);
            Some(st)
        } else {
            None
        }
    };
    let bin = |f: &dyn Fn(Word, Word) -> Option<Word>| -> Option<(W, W, Flow)> {
        if n < 2 {
            return None;
        }
        let r = f(s[n - 2], s[n - 1])?;
        let mut st = s[..n - 2].to_vec();
        st.push(r);
        Some((st, m.to_vec(), Flow::Next))
    };
    match op {
        Op::Stack(o) => match o {
            S::Push(w) => keep_m(ok_push(s.to_vec(), *w)?),
            S::Pop => {
                if n < 1 {
                    return None;
                }
                keep_m(s[..n - 1].to_vec())
            }
            S::Dup => {
                if n < 1 {
                    return None;
                }
                keep_m(ok_push(s.to_vec(), s[n - 1])?)
            }
            S::Swap => {
                if n < 2 {
                    return None;
                }
                let mut st = s.to_vec();
                st.swap(n - 1, n - 2);
                keep_m(st)
            }
            S::DupFrom => {
                let (&i, t) = s.split_last()?;
                let i = idx(i)?;
                if i >= t.len() {
                    return None;
                }
                let mut st = t.to_vec();
                st.push(t[t.len() - 1 - i]);
                keep_m(st)
            }
            S::SwapIndex => {
                let (&i, t) = s.split_last()?;
                let i = idx(i)?;
                if i >= t.len() {
                    return None;
                }
                let mut st = t.to_vec();
                let top = t.len() - 1;
                st.swap(top, top - i);
                keep_m(st)
            }
            S::Select => {
                if n < 3 {
                    return None;
                }
                let c = w2b(s[n - 1])?;
                let mut st = s[..n - 3].to_vec();
                st.push(if c { s[n - 2] } else { s[n - 3] });
                keep_m(st)
            }
            S::SelectRange => {
                if n < 2 {
                    return None;
                }
                let c = w2b(s[n - 1])?;
                let len = idx(s[n - 2])?;
                let t = &s[..n - 2];
                if len.checked_mul(2)? > t.len() {
                    return None;
                }
                let base = t.len() - 2 * len;
                let mut st = t[..base].to_vec();
                st.extend(if c { &t[base + len..] } else { &t[base..base + len] });
                keep_m(st)
            }
            S::Reserve => {
                let (&k, t) = s.split_last()?;
                let k = idx(k)?;
                if t.len().checked_add(k)?.checked_add(1)? > STACK_LIMIT {
                    return None;
                }
                let mut st = t.to_vec();
                st.extend(std::iter::repeat(0).take(k));
                st.push(t.len() as Word);
                keep_m(st)
            }
            S::Load => {
                let (&i, t) = s.split_last()?;
                let i = idx(i)?;
                if i >= t.len() {
                    return None;
                }
                let mut st = t.to_vec();
                st.push(t[i]);
                keep_m(st)
            }
            S::Store => {
                if n < 2 {
                    return None;
                }
                let i = idx(s[n - 1])?;
                let mut st = s[..n - 2].to_vec();
                if i >= st.len() {
                    return None;
                }
                st[i] = s[n - 2];
                keep_m(st)
            }
            S::Drop => {
                let (rest, _) = len_words(s)?;
                keep_m(rest)
            }
            S::Repeat | S::RepeatEnd => None, // covered by the repeat programs below
        },
        Op::Pred(o) => match o {
            Pred::Eq => bin(&|a, b| Some(b2w(a == b))),
            Pred::Gt => bin(&|a, b| Some(b2w(a > b))),
            Pred::Lt => bin(&|a, b| Some(b2w(a < b))),
            Pred::Gte => bin(&|a, b| Some(b2w(a >= b))),
            Pred::Lte => bin(&|a, b| Some(b2w(a <= b))),
            Pred::And => bin(&|a, b| Some(b2w(a != 0 && b != 0))),
            Pred::Or => bin(&|a, b| Some(b2w(a != 0 || b != 0))),
            Pred::BitAnd => bin(&|a, b| Some(a & b)),
            Pred::BitOr => bin(&|a, b| Some(a | b)),
            Pred::Not => {
                if n < 1 {
                    return None;
                }
                let mut st = s[..n - 1].to_vec();
                st.push(b2w(s[n - 1] == 0));
                keep_m(st)
            }
            Pred::EqRange => {
                let (&l, t) = s.split_last()?;
                let l = idx(l)?;
                if l.checked_mul(2)? > t.len() {
                    return None;
                }
                let base = t.len() - 2 * l;
                let mut st = t[..base].to_vec();
                st.push(b2w(t[base..base + l] == t[base + l..]));
                keep_m(st)
            }
            Pred::EqSet => {
                let (rest, rhs) = len_words(s)?;
                let (rest, lhs) = len_words(&rest)?;
                let (a, b) = (decode_set(&lhs)?, decode_set(&rhs)?);
                let mut st = rest;
                st.push(b2w(a == b));
                keep_m(st)
            }
        },
        Op::Alu(o) => match o {
            Alu::Add => bin(&|a, b| a.checked_add(b)),
            Alu::Sub => bin(&|a, b| a.checked_sub(b)),
            Alu::Mul => bin(&|a, b| a.checked_mul(b)),
            Alu::Div => bin(&|a, b| if b == 0 || (a == Word::MIN && b == -1) { None } else { Some((a as i128 / b as i128) as Word) }),
            Alu::Mod => bin(&|a, b| if b == 0 || (a == Word::MIN && b == -1) { None } else { Some((a as i128 % b as i128) as Word) }),
            Alu::Shl => bin(&|a, b| if (0..64).contains(&b) { Some(((a as u64) << b) as Word) } else { None }),
            Alu::Shr => bin(&|a, b| if (0..64).contains(&b) { Some(((a as u64) >> b) as Word) } else { None }),
            Alu::ShrI => bin(&|a, b| if (0..64).contains(&b) { Some((a as i128 >> b) as Word) } else { None }),
        },
        Op::Memory(o) => match o {
            M::Alloc => {
                let (&k, t) = s.split_last()?;
                let k = idx(k)?;
                if m.len().checked_add(k)? > MEM_LIMIT {
                    return None;
                }
                let mut st = t.to_vec();
                st.push(m.len() as Word);
                let mut mm = m.to_vec();
                mm.extend(std::iter::repeat(0).take(k));
                Some((st, mm, Flow::Next))
            }
            M::Free => {
                let (&l, t) = s.split_last()?;
                let l = idx(l)?;
                if l > m.len() {
                    return None;
                }
                Some((t.to_vec(), m[..l].to_vec(), Flow::Next))
            }
            M::Load => {
                let (&a, t) = s.split_last()?;
                let a = idx(a)?;
                let mut st = t.to_vec();
                st.push(*m.get(a)?);
                keep_m(st)
            }
            M::Store => {
                if n < 2 {
                    return None;
                }
                let a = idx(s[n - 1])?;
                let mut mm = m.to_vec();
                *mm.get_mut(a)? = s[n - 2];
                Some((s[..n - 2].to_vec(), mm, Flow::Next))
            }
            M::LoadRange => {
                if n < 2 {
                    return None;
                }
                let (a, k) = (idx(s[n - 2])?, idx(s[n - 1])?);
                let src = m.get(a..a.checked_add(k)?)?;
                let mut st = s[..n - 2].to_vec();
                if st.len() + k > STACK_LIMIT {
                    return None;
                }
                st.extend(src);
                keep_m(st)
            }
            M::StoreRange => {
                let (&a, t) = s.split_last()?;
                let a = idx(a)?;
                let (rest, vs) = len_words(t)?;
                let mut mm = m.to_vec();
                mm.get_mut(a..a.checked_add(vs.len())?)?.copy_from_slice(&vs);
                Some((rest, mm, Flow::Next))
            }
        },
        Op::TotalControlFlow(o) => match o {
            T::Halt => Some((s.to_vec(), m.to_vec(), Flow::Halt)),
            T::HaltIf => {
                let (&c, t) = s.split_last()?;
                Some((t.to_vec(), m.to_vec(), if w2b(c)? { Flow::Halt } else { Flow::Next }))
            }
            T::JumpIf => {
                if n < 2 {
                    return None;
                }
                let (d, c) = (s[n - 2], s[n - 1]);
                let st = s[..n - 2].to_vec();
                if !w2b(c)? {
                    return Some((st, m.to_vec(), Flow::Next));
                }
                let target = PC as i128 + d as i128;
                if d == 0 || target < 0 || target > usize::MAX as i128 {
                    return None;
                }
                Some((st, m.to_vec(), Flow::Jump(target as usize)))
            }
            T::PanicIf => {
                let (&c, t) = s.split_last()?;
                if w2b(c)? {
                    None
                } else {
                    keep_m(t.to_vec())
                }
            }
        },
        Op::Access(o) => match o {
            A::ThisAddress => {
                let mut st = s.to_vec();
                st.extend(be_words(&env.pred_addr));
                if st.len() > STACK_LIMIT {
                    return None;
                }
                keep_m(st)
            }
            A::ThisContractAddress => {
                let mut st = s.to_vec();
                st.extend(be_words(&env.contract_addr));
                if st.len() > STACK_LIMIT {
                    return None;
                }
                keep_m(st)
            }
            A::PredicateDataSlots => keep_m(ok_push(s.to_vec(), env.data.len() as Word)?),
            A::PredicateDataLen => {
                let (&slot, t) = s.split_last()?;
                let d = env.data.get(idx(slot)?)?;
                let mut st = t.to_vec();
                st.push(d.len() as Word);
                keep_m(st)
            }
            A::PredicateExists => {
                if n < 4 {
                    return None;
                }
                let mut h = [0u8; 32];
                for (i, w) in s[n - 4..].iter().enumerate() {
                    h[8 * i..8 * i + 8].copy_from_slice(&w.to_be_bytes());
                }
                let found = env.all.iter().any(|(d, c, p)| pre_image_hash(d, c, p) == h);
                let mut st = s[..n - 4].to_vec();
                st.push(b2w(found));
                keep_m(st)
            }
            A::PredicateData => {
                if n < 3 {
                    return None;
                }
                let (slot, ix, len) = (idx(s[n - 3])?, idx(s[n - 2])?, idx(s[n - 1])?);
                let d = env.data.get(slot)?;
                let src = d.get(ix..ix.checked_add(len)?)?;
                let mut st = s[..n - 3].to_vec();
                if st.len() + len > STACK_LIMIT {
                    return None;
                }
                st.extend(src);
                keep_m(st)
            }
            _ => None,
        },
        Op::Crypto(Crypto::Sha256) => {
            use sha2::{Digest, Sha256};
            let (&len, t) = s.split_last()?;
            let len = idx(len)?;
            let nwords = len.div_ceil(8);
            if nwords > t.len() {
                return None;
            }
            let words = &t[t.len() - nwords..];
            let bytes: Vec<u8> = words.iter().flat_map(|w| w.to_be_bytes()).take(len).collect();
            let h: [u8; 32] = Sha256::digest(&bytes).into();
            let mut st = t[..t.len() - nwords].to_vec();
            st.extend(be_words(&h));
            keep_m(st)
        }
        Op::StateRead(r) => {
            // [.. (ext_w0..3)? key.., key_len, num_keys, mem_addr]
            let (&addr, t) = s.split_last()?;
            let addr = idx(addr)?;
            let (&nk, t) = t.split_last()?;
            let nk = idx(nk)?;
            let (rest, key) = len_words(t)?;
            let (rest, contract, view) = match r {
                R::KeyRange => (rest, env.contract_addr, &env.pre),
                R::PostKeyRange => (rest, env.contract_addr, &env.post),
                R::KeyRangeExtern | R::PostKeyRangeExtern => {
                    if rest.len() < 4 {
                        return None;
                    }
                    let ext = &rest[rest.len() - 4..];
                    let mut c = [0u8; 32];
                    for (i, w) in ext.iter().enumerate() {
                        c[8 * i..8 * i + 8].copy_from_slice(&w.to_be_bytes());
                    }
                    (rest[..rest.len() - 4].to_vec(), c, if matches!(r, R::KeyRangeExtern) { &env.pre } else { &env.post })
                }
            };
            let vals = read_state(view, &contract, &key, nk);
            let mm = layout(m, addr, &vals)?;
            Some((rest, mm, Flow::Next))
        }
        _ => None,
    }
}

/// A state view that returns one value more than it was asked for.
#[derive(Clone)]
struct Extra(PreState);
impl essential_vm::StateRead for Extra {
    type Error = String;
    fn key_range(&self, c: ContentAddress, key: essential_types::Key, n: usize) -> Result<Vec<Vec<Word>>, String> {
        let mut v = essential_vm::StateRead::key_range(&self.0, c, key, n)?;
        v.push(vec![77]);
        Ok(v)
    }
}

fn env() -> Env {
    let mut pred_addr = [0u8; 32];
    let mut contract_addr = [0u8; 32];
    for i in 0..32 {
        pred_addr[i] = (i + 1) as u8;
        contract_addr[i] = (0xA0 + i) as u8;
    }
    let ext = ContentAddress([0x5A; 32]);
    let mut pre = PreState::default();
    let mut post = PreState::default();
    for (st, tag) in [(&mut pre, 100), (&mut post, 200)] {
        for (c, ctag) in [(ContentAddress(contract_addr), 0), (ext.clone(), 50)] {
            let m = st.0.entry(c).or_default();
            m.insert(vec![7], vec![tag + ctag + 1]);
            m.insert(vec![8], vec![tag + ctag + 2, tag + ctag + 3]);
            m.insert(vec![0, Word::MAX], vec![tag + ctag + 4]);
            m.insert(vec![1, Word::MIN], vec![tag + ctag + 5, 0, -1]);
        }
    }
    let data = vec![vec![10, 11, 12], vec![], vec![-5]];
    // the other solution comes first and has a strictly longer pre-image
    let all = vec![(vec![vec![99; 10], vec![7]], [9u8; 32], [8u8; 32]), (data.clone(), contract_addr, pred_addr),
        (vec![], [7u8; 32], [6u8; 32]), (vec![vec![1], vec![2, 3]], contract_addr, [5u8; 32])];
    Env { all, data, pred_addr, contract_addr, pre, post }
}

fn access(env: &Env) -> Access {
    // the checked solution is env.all[1]; the others come before and after it
    let sols: Vec<Solution> = env.all.iter().map(|(d, c, p)| Solution {
        predicate_to_solve: PredicateAddress { contract: ContentAddress(*c), predicate: ContentAddress(*p) },
        predicate_data: d.clone(),
        state_mutations: vec![],
    }).collect();
    Access::new(Arc::new(sols), 1)
}

fn check(ctx: &Ctx, id: &str, op: asm::Op, s: &[Word], m: &[Word], env: &Env) {
    if !ctx.want(id) {
        return;
    }
    let want = model(&op, s, m, env);
    let r = std::panic::catch_unwind(std::panic::AssertUnwindSafe(|| {
        let mut vm = Vm::default();
        vm.stack = Stack::try_from(s.to_vec()).unwrap();
        vm.memory = Memory::try_from(m.to_vec()).unwrap();
        vm.pc = PC;
        let ops = vec![asm::TotalControlFlow::Halt.into(), asm::TotalControlFlow::Halt.into(), asm::TotalControlFlow::Halt.into(), op, asm::TotalControlFlow::Halt.into()];
        let st = (env.pre.clone(), env.post.clone());
        // one op only: a gas limit of exactly its cost stops the run after it unless it halts
        let r = vm.exec_ops(&ops[..PC + 1], access(env), &st, &|_: &asm::Op| 1u64, GasLimit::UNLIMITED);
        (r.map_err(|e| format!("{e}")), vm)
    }));
    let show = |w: &Option<(W, W, Flow)>| match w {
        None => "fails".to_string(),
        Some((st, mm, f)) => format!("stack {:?} memory {:?} flow {:?}", tail(st), tail(mm), f),
    };
    match r {
        Err(_) => ctx.fail(id, "the VM never panics", format!("PANIC: op {:?} stack {:?} memory {:?}; specification: {}", op, tail(s), tail(m), show(&want))),
        Ok((res, vm)) => {
            let st: W = vm.stack.clone().into();
            let mm: W = vm.memory.clone().into();
            let bounds = st.len() <= STACK_LIMIT && mm.len() <= MEM_LIMIT;
            let got = match &res {
                Err(_) => None,
                Ok(_) => {
                    let flow = if vm.pc == PC + 1 { Flow::Next } else if vm.pc == PC { Flow::Halt } else { Flow::Jump(vm.pc) };
                    Some((st.clone(), mm.clone(), flow))
                }
            };
            // a jump target beyond the program simply ends the run with pc = target
            let same = match (&got, &want) {
                (None, None) => true,
                (Some(g), Some(w)) => g.0 == w.0 && g.1 == w.1 && (g.2 == w.2 || (g.2 == Flow::Next && w.2 == Flow::Jump(PC + 1))),
                _ => false,
            };
            if !same || !bounds {
                ctx.fail(id, "the operation computes its documented result (whole stack and memory), fails exactly when documented, and stays within the stack / memory limits",
                    format!("op {:?} stack {:?} memory {:?}: VM {} ({}) but specification: {}", op, tail(s), tail(m), show(&got), res.err().unwrap_or_default(), show(&want)));
            } else {
                ctx.pass();
            }
        }
    }
}

fn tail(v: &[Word]) -> String {
    if v.len() > 14 {
        format!("[{} words .. {:?}]", v.len(), &v[v.len() - 8..])
    } else {
        format!("{:?}", v)
    }
}

/// Independent reference interpreter for whole programs over the op subset of `model` plus Repeat / RepeatEnd / RepeatCounter and
/// Compute / ComputeEnd (children run one after another, C10 statement).  Gas: every op costs 1; the op that would exceed the limit
/// is not executed.  Returns None when the program fails, else (stack, memory, pc, gas, halted, remaining repeat counters).
#[derive(Clone, Debug, PartialEq)]
struct RSlot {
    counter: Word,
    limit: Option<Word>, // Some = counting up to the limit, None = counting down
    start: usize,
}
#[derive(Clone, Debug)]
struct RefVm {
    pc: usize,
    stack: W,
    mem: W,
    parent: Option<W>,
    repeat: Vec<RSlot>,
    halt: bool,
}
enum Stop {
    End,
    ComputeEnd,
}
fn ref_exec(vm: &mut RefVm, ops: &[asm::Op], env: &Env, limit: u64, gas: &mut u128, cost: &dyn Fn(&asm::Op) -> u64, oog: &mut Option<(usize, W)>) -> Option<Stop> {
    use asm::{Access as A, Compute as C, Op, Stack as S};
    while vm.pc < ops.len() {
        let op = ops[vm.pc];
        let c = cost(&op) as u128;
        if *gas + c > limit as u128 {
            // out of gas before this op has any effect; remember the state when it happens in the top-level VM
            if vm.parent.is_none() && oog.is_none() {
                *oog = Some((vm.pc, vm.stack.clone()));
            }
            return None;
        }
        *gas += c;
        match op {
            Op::Stack(S::Repeat) => {
                let n = vm.stack.len();
                if n < 2 {
                    return None;
                }
                let up = w2b(vm.stack[n - 1])?;
                let cnt = vm.stack[n - 2];
                vm.stack.truncate(n - 2);
                if vm.repeat.len() >= 4096 {
                    return None;
                }
                vm.repeat.push(RSlot { counter: if up { 0 } else { cnt }, limit: if up { Some(cnt) } else { None }, start: vm.pc + 1 });
                vm.pc += 1;
            }
            Op::Stack(S::RepeatEnd) => {
                let sl = vm.repeat.last_mut()?;
                let done = match sl.limit {
                    Some(l) => sl.counter >= l.saturating_sub(1),
                    None => sl.counter <= 1,
                };
                if done {
                    vm.repeat.pop();
                    vm.pc += 1;
                } else {
                    sl.counter += if sl.limit.is_some() { 1 } else { -1 };
                    vm.pc = sl.start;
                }
            }
            Op::Access(A::RepeatCounter) => {
                let c = vm.repeat.last()?.counter;
                if vm.stack.len() >= STACK_LIMIT {
                    return None;
                }
                vm.stack.push(c);
                vm.pc += 1;
            }
            Op::ParentMemory(asm::ParentMemory::Load) => {
                let a = idx(vm.stack.pop()?)?;
                let w = *vm.parent.as_ref()?.get(a)?;
                vm.stack.push(w);
                vm.pc += 1;
            }
            Op::TotalControlFlow(asm::TotalControlFlow::JumpIf) => {
                let n = vm.stack.len();
                if n < 2 {
                    return None;
                }
                let (d, c) = (vm.stack[n - 2], vm.stack[n - 1]);
                vm.stack.truncate(n - 2);
                if w2b(c)? {
                    let target = vm.pc as i128 + d as i128;
                    if d == 0 || target < 0 || target > usize::MAX as i128 {
                        return None;
                    }
                    vm.pc = target as usize;
                } else {
                    vm.pc += 1;
                }
            }
            Op::Compute(C::ComputeEnd) => {
                vm.pc += 1;
                return Some(Stop::ComputeEnd);
            }
            Op::Compute(C::Compute) => {
                let n = vm.stack.pop()?;
                if n < 1 || vm.parent.is_some() {
                    return None;
                }
                let mut pc = vm.pc;
                let mut joined = vm.mem.clone();
                let mut halt = vm.halt;
                for i in 0..n {
                    let mut st = vm.stack.clone();
                    if st.len() >= STACK_LIMIT {
                        return None;
                    }
                    st.push(i);
                    let mut child = RefVm { pc: vm.pc + 1, stack: st, mem: vec![], parent: Some(vm.mem.clone()), repeat: vm.repeat.clone(), halt: false };
                    ref_exec(&mut child, ops, env, limit, gas, cost, oog)?;
                    joined.extend(child.mem);
                    pc = pc.max(child.pc);
                    halt |= child.halt;
                }
                if joined.len() > MEM_LIMIT {
                    return None;
                }
                vm.mem = joined;
                vm.pc = pc;
                vm.halt = halt;
                if halt {
                    return Some(Stop::End);
                }
            }
            _ => {
                // single-op semantics, evaluated at this pc
                let (st, mm, flow) = model_at(&op, &vm.stack, &vm.mem, env, vm.pc)?;
                vm.stack = st;
                vm.mem = mm;
                match flow {
                    Flow::Next => vm.pc += 1,
                    Flow::Jump(t) => vm.pc = t,
                    Flow::Halt => return Some(Stop::End),
                }
            }
        }
    }
    Some(Stop::End)
}

fn model_at(op: &asm::Op, s: &[Word], m: &[Word], env: &Env, _pc: usize) -> Option<(W, W, Flow)> {
    // JumpIf is handled by the interpreter itself (its target depends on the pc); everything else is position independent
    model(op, s, m, env)
}

fn check_program(ctx: &Ctx, id: &str, ops: &[asm::Op], limit: u64, env: &Env) {
    check_program_cost(ctx, id, ops, limit, env, &|_: &asm::Op| 1u64)
}

fn check_program_cost(ctx: &Ctx, id: &str, ops: &[asm::Op], limit: u64, env: &Env, cost: &(dyn Fn(&asm::Op) -> u64 + Send + Sync)) {
    check_program_yield(ctx, id, ops, limit, env, cost, 4096)
}

/// `per_yield` has no meaning for synchronous execution: the result must not depend on it.
fn check_program_yield(ctx: &Ctx, id: &str, ops: &[asm::Op], limit: u64, env: &Env, cost: &(dyn Fn(&asm::Op) -> u64 + Send + Sync), per_yield: u64) {
    if !ctx.want(id) {
        return;
    }
    let mut rv = RefVm { pc: 0, stack: vec![], mem: vec![], parent: None, repeat: vec![], halt: false };
    let mut gas = 0u128;
    let mut oog: Option<(usize, W)> = None;
    let want = ref_exec(&mut rv, ops, env, limit, &mut gas, cost, &mut oog).map(|_| (rv.stack.clone(), rv.mem.clone(), rv.pc, gas as u64));
    let st = (env.pre.clone(), env.post.clone());
    let got = std::panic::catch_unwind(std::panic::AssertUnwindSafe(|| {
        let mut vm = Vm::default();
        struct Cost<'a>(&'a (dyn Fn(&asm::Op) -> u64 + Send + Sync));
        impl essential_vm::OpGasCost for Cost<'_> {
            fn op_gas_cost(&self, op: &asm::Op) -> u64 {
                (self.0)(op)
            }
        }
        let r = vm.exec_ops(ops, access(env), &st, &Cost(cost), GasLimit { per_yield, total: limit });
        let s: W = vm.stack.clone().into();
        let m: W = vm.memory.clone().into();
        (r.ok().map(|g| (s.clone(), m, vm.pc, g)), s, vm.pc)
    }));
    match got {
        Err(_) => ctx.fail(id, "the VM never panics", format!("PANIC: program {:?}", ops)),
        Ok((g, s, pc)) if g == want => {
            // out of gas in the top-level VM: the op that would exceed the limit has had no effect
            match (&want, &oog) {
                (None, Some((opc, ostack))) if (&s, pc) != (ostack, *opc) => ctx.fail(id, "if the next operation would exceed the limit, execution stops with out-of-gas before that operation has any effect",
                    format!("ops {:?} gas limit {limit}: out of gas is due at pc {opc} with stack {:?}, but the VM stopped at pc {pc} with stack {:?}", ops, tail(ostack), tail(&s))),
                _ => ctx.pass(),
            }
        }
        Ok((g, _, _)) if false => { let _ = g; }
        Ok((g, _, _)) => ctx.fail(id, "executing a program (jumps, halts, nested repeats, compute sections, gas) == the reference interpreter written from asm.yml",
            format!("ops {:?} gas limit {limit}: VM {:?} but reference {:?} (stack, memory, pc, gas)", ops, g.map(|x| (tail(&x.0), tail(&x.1), x.2, x.3)), want.map(|x| (tail(&x.0), tail(&x.1), x.2, x.3)))),
    }
}

fn words_of(bytes: &[u8]) -> W {
    // big-endian words, the last one padded with zeros
    bytes.chunks(8).map(|c| { let mut b = [0u8; 8]; b[..c.len()].copy_from_slice(c); Word::from_be_bytes(b) }).collect()
}

fn crypto(ctx: &Ctx, env: &Env) {
    use asm::Crypto;
    use ed25519_dalek::{Signer, SigningKey, Verifier, VerifyingKey};
    let run = |op: asm::Op, s: &[Word]| -> Result<Option<W>, ()> {
        std::panic::catch_unwind(std::panic::AssertUnwindSafe(|| {
            let mut vm = Vm::default();
            vm.stack = Stack::try_from(s.to_vec()).unwrap();
            let st = (env.pre.clone(), env.post.clone());
            let r = vm.exec_ops(&[op], access(env), &st, &|_: &asm::Op| 1u64, GasLimit::UNLIMITED);
            let out: W = vm.stack.clone().into();
            r.ok().map(|_| out)
        }))
        .map_err(|_| ())
    };
    // Ed25519
    let sk = SigningKey::from_bytes(&[7u8; 32]);
    let vk = sk.verifying_key().to_bytes();
    let mut low = [0u8; 32];
    low[0] = 1; // a low-order point as key / R
    let mut sig_low = [0u8; 64];
    sig_low[0] = 1;
    for len in [0usize, 1, 7, 8, 9, 15, 16, 17, 31] {
        let msg: Vec<u8> = (0..len).map(|i| (i * 13 + 5) as u8).collect();
        let good = sk.sign(&msg).to_bytes();
        let mut bad_sig = good;
        bad_sig[5] ^= 1;
        let mut bad_s = good;
        bad_s[40] ^= 0x80;
        let cases: Vec<(&str, [u8; 32], [u8; 64], Vec<u8>)> = vec![
            ("good", vk, good, msg.clone()),
            ("bad-sig", vk, bad_sig, msg.clone()),
            ("bad-s", vk, bad_s, msg.clone()),
            ("other-msg", vk, good, msg.iter().map(|b| b ^ 1).chain([1u8]).take(len.max(1)).collect()),
            ("low-order", low, sig_low, msg.clone()),
            ("zero-key", [0u8; 32], good, msg.clone()),
            ("bad-key", [0xffu8; 32], good, msg.clone()),
        ];
        for (name, key, sig, m) in cases {
            let id = format!("vmops/Ed25519/{name}/{len}");
            if !ctx.want(&id) {
                continue;
            }
            let mut s: W = vec![3];
            s.extend(words_of(&m));
            s.push(m.len() as Word);
            s.extend(words_of(&sig));
            s.extend(words_of(&key));
            // the sign crate on the same bytes
            let want: Option<W> = match VerifyingKey::from_bytes(&key) {
                Err(_) => None,
                Ok(k) => Some(vec![3, k.verify(&m, &ed25519_dalek::Signature::from_bytes(&sig)).is_ok() as Word]),
            };
            match run(Crypto::VerifyEd25519.into(), &s) {
                Err(_) => ctx.fail(&id, "the VM never panics", format!("PANIC: VerifyEd25519 case {name} len {len}")),
                Ok(got) if got == want => ctx.pass(),
                Ok(got) => ctx.fail(&id, "VerifyEd25519 gives the same answer as verifying the same bytes with the sign crate (byte lengths that are not multiples of 8 included)",
                    format!("case {name}, message of {len} bytes: VM {:?} but ed25519_dalek {:?}", got, want)),
            }
        }
    }
    // Secp256k1 recovery
    use secp256k1::{ecdsa::{RecoverableSignature, RecoveryId}, Message, Secp256k1, SecretKey};
    let secp = Secp256k1::new();
    let key = SecretKey::from_byte_array(&[11u8; 32]).expect("valid key");
    for (hi, hash) in [[1u8; 32], [0xabu8; 32], { let mut h = [0u8; 32]; h[31] = 9; h }].into_iter().enumerate() {
        let sig = secp.sign_ecdsa_recoverable(&Message::from_digest(hash), &key);
        let (rid, compact) = sig.serialize_compact();
        let mut corrupt = compact;
        corrupt[7] ^= 0x10;
        let zero = [0u8; 64];
        let mut high = [0xffu8; 64];
        high[63] = 0xfe;
        let rid_i: i32 = rid.into();
        let mut cases: Vec<(String, [u8; 64], Word)> = [("good", compact, rid_i as Word), ("other-recid", compact, (1 - rid_i % 2) as Word), ("corrupt", corrupt, rid_i as Word), ("zero", zero, 0), ("overflow", high, 1), ("bad-recid", compact, 4), ("neg-recid", compact, -1), ("huge-recid", compact, Word::MAX)]
            .into_iter().map(|(n, b, r)| (n.to_string(), b, r)).collect();
        // every recovery id on the real signature, and signatures with a tiny r (ids 2 / 3 then denote r + n, which can lie on the curve) or a tiny s
        for rid in 0..4 {
            cases.push((format!("recid-{rid}"), compact, rid));
            for r in 1u8..=24 {
                for sv in [1u8, 2, 77] {
                    let mut b = [0u8; 64];
                    b[31] = r;
                    b[63] = sv;
                    cases.push((format!("tiny-r/{r}/{sv}/{rid}"), b, rid));
                }
            }
            let mut b = compact;
            b[32..].fill(0);
            b[63] = 1;
            cases.push((format!("tiny-s/{rid}"), b, rid));
        }
        for (name, sigb, rbit) in cases {
            let id = format!("vmops/Secp256k1/{hi}/{name}");
            if !ctx.want(&id) {
                continue;
            }
            let mut s: W = vec![4];
            s.extend(words_of(&hash));
            s.extend(words_of(&sigb));
            s.push(rbit);
            // the sign crate on the same bytes: malformed operands are errors, a well-formed but unrecoverable signature is five zero words
            let want: Option<W> = (|| {
                let r = i32::try_from(rbit).ok()?;
                let rid = RecoveryId::try_from(r).ok()?;
                let rs = RecoverableSignature::from_compact(&sigb, rid).ok()?;
                let mut out: W = vec![4];
                match secp.recover_ecdsa(&Message::from_digest(hash), &rs) {
                    Ok(pk) => {
                        let ser = pk.serialize();
                        out.extend(words_of(&ser[..32]));
                        out.push(ser[32] as Word);
                    }
                    Err(_) => out.extend([0; 5]),
                }
                Some(out)
            })();
            match run(Crypto::RecoverSecp256k1.into(), &s) {
                Err(_) => ctx.fail(&id, "the VM never panics", format!("PANIC: RecoverSecp256k1 case {name}")),
                Ok(got) if got == want => ctx.pass(),
                Ok(got) => ctx.fail(&id, "RecoverSecp256k1 gives the same answer as recovering from the same bytes with the sign crate (five zero words for a well-formed but unrecoverable signature)",
                    format!("case {name}: VM {:?} but secp256k1 {:?}", got, want)),
            }
        }
    }
}

fn xorshift(s: &mut u64) -> u64 {
    *s ^= *s << 13;
    *s ^= *s >> 7;
    *s ^= *s << 17;
    *s
}

fn programs(ctx: &Ctx, env: &Env) {
    use asm::{Access as A, Alu, Compute as C, Memory as M, Pred, Stack as S, StateRead as R, TotalControlFlow as T};
    let p = |w: Word| -> asm::Op { S::Push(w).into() };
    // ---- hand-written shapes
    let named: Vec<(&str, Vec<asm::Op>)> = vec![
        ("nested-up-down", vec![p(3), p(1), S::Repeat.into(), p(2), p(0), S::Repeat.into(), A::RepeatCounter.into(), S::RepeatEnd.into(), A::RepeatCounter.into(), S::RepeatEnd.into(), p(-9)]),
        ("loop-sum", vec![p(0), p(5), p(1), S::Repeat.into(), A::RepeatCounter.into(), Alu::Add.into(), S::RepeatEnd.into()]),
        ("skip-inside-body", vec![p(4), p(1), S::Repeat.into(), A::RepeatCounter.into(), p(2), Pred::Eq.into(), p(2), S::Swap.into(), T::JumpIf.into(), p(50), A::RepeatCounter.into(), S::RepeatEnd.into()]),
        // a backward jump that re-executes the Repeat op once (guard flag on the stack): a second slot is pushed, the first one survives
        ("reenter-repeat", vec![p(1), p(3), p(1), S::Repeat.into(), p(0), S::Swap.into(), p(-7), S::Swap.into(), T::JumpIf.into(), S::RepeatEnd.into(), A::RepeatCounter.into()]),
        ("reenter-repeat-down", vec![p(1), p(2), p(0), S::Repeat.into(), p(0), S::Swap.into(), p(-7), S::Swap.into(), T::JumpIf.into(), A::RepeatCounter.into(), S::Pop.into(), S::RepeatEnd.into(), A::RepeatCounter.into(), S::RepeatEnd.into(), p(5)]),
        ("far-exit", vec![p(7), p(Word::MAX), p(1), T::JumpIf.into(), p(8)]),
        ("far-exit-in-loop", vec![p(2), p(1), S::Repeat.into(), p(Word::MAX - 4), p(1), T::JumpIf.into(), S::RepeatEnd.into()]),
        ("back-to-start", vec![p(0), p(1), Alu::Add.into(), S::Dup.into(), p(3), Pred::Lt.into(), p(-6), S::Swap.into(), T::JumpIf.into(), p(9)]),
        ("halt-in-loop", vec![p(5), p(1), S::Repeat.into(), A::RepeatCounter.into(), p(2), Pred::Eq.into(), T::HaltIf.into(), S::RepeatEnd.into(), p(1)]),
        ("compute-in-loop-up", vec![p(2), p(1), S::Repeat.into(), p(2), C::Compute.into(), p(1), M::Alloc.into(), S::Pop.into(), A::RepeatCounter.into(), p(0), M::Store.into(), S::Pop.into(), C::ComputeEnd.into(), S::RepeatEnd.into()]),
        ("compute-in-loop-down", vec![p(3), p(0), S::Repeat.into(), p(1), C::Compute.into(), S::Pop.into(), A::RepeatCounter.into(), p(1), M::Alloc.into(), M::Store.into(), C::ComputeEnd.into(), S::RepeatEnd.into(), p(4)]),
        ("loop-inside-compute", vec![p(2), C::Compute.into(), p(2), p(1), S::Repeat.into(), p(1), M::Alloc.into(), S::Pop.into(), S::RepeatEnd.into(), S::Pop.into(), C::ComputeEnd.into(), p(3)]),
        ("compute-reads-parent", vec![p(2), M::Alloc.into(), S::Pop.into(), p(11), p(0), M::Store.into(), p(12), p(1), M::Store.into(), p(2), C::Compute.into(), p(1), M::Alloc.into(), S::Pop.into(), asm::ParentMemory::Load.into(), p(0), M::Store.into(), C::ComputeEnd.into()]),
        // resource limits reached through sequences of operations (buffer capacities grow by doubling underneath)
        ("alloc-6000-1-5000", vec![p(6000), M::Alloc.into(), S::Pop.into(), p(1), M::Alloc.into(), S::Pop.into(), p(5000), M::Alloc.into()]),
        ("alloc-10239-1-1", vec![p(10239), M::Alloc.into(), S::Pop.into(), p(1), M::Alloc.into(), S::Pop.into(), p(1), M::Alloc.into()]),
        ("alloc-free-alloc", vec![p(8000), M::Alloc.into(), S::Pop.into(), p(100), M::Free.into(), p(10140), M::Alloc.into(), S::Pop.into(), p(1), M::Alloc.into()]),
        ("alloc-5121-5119-1", vec![p(5121), M::Alloc.into(), S::Pop.into(), p(5119), M::Alloc.into(), S::Pop.into(), p(1), M::Alloc.into()]),
        ("reserve-3000-1-1094", vec![p(3000), S::Reserve.into(), p(1), S::Reserve.into(), p(1090), S::Reserve.into(), p(1), p(2)]),
        ("reserve-4094-then-pushes", vec![p(4093), S::Reserve.into(), p(1), p(2), p(3)]),
        ("reserve-then-loadrange-exact-fill", vec![p(6), M::Alloc.into(), S::Pop.into(), p(4088), S::Reserve.into(), p(0), p(6), M::LoadRange.into(), p(1)]),
        // the repeat stack limit holds in a compute child that inherited open loops (4100 Repeat ops driven by a counter on the stack)
        ("repeat-limit-in-child-3-open", vec![p(1), p(1), S::Repeat.into(), p(1), p(1), S::Repeat.into(), p(1), p(0), S::Repeat.into(), p(1), C::Compute.into(), S::Pop.into(), p(4100),
            p(1), p(1), S::Repeat.into(), p(1), Alu::Sub.into(), S::Dup.into(), p(0), Pred::Eq.into(), Pred::Not.into(), p(-11), S::Swap.into(), T::JumpIf.into(), S::Pop.into(), C::ComputeEnd.into()]),
        ("repeat-limit-in-child-5-open", vec![p(1), p(1), S::Repeat.into(), p(1), p(1), S::Repeat.into(), p(1), p(0), S::Repeat.into(), p(2), p(0), S::Repeat.into(), p(2), p(1), S::Repeat.into(), p(2), C::Compute.into(), S::Pop.into(), p(4100),
            p(1), p(1), S::Repeat.into(), p(1), Alu::Sub.into(), S::Dup.into(), p(0), Pred::Eq.into(), Pred::Not.into(), p(-11), S::Swap.into(), T::JumpIf.into(), S::Pop.into(), C::ComputeEnd.into()]),
        ("repeat-limit-in-child", vec![p(1), p(1), S::Repeat.into(), p(1), C::Compute.into(), S::Pop.into(), p(4100),
            p(1), p(1), S::Repeat.into(), p(1), Alu::Sub.into(), S::Dup.into(), p(0), Pred::Eq.into(), Pred::Not.into(), p(-11), S::Swap.into(), T::JumpIf.into(), S::Pop.into(), C::ComputeEnd.into()]),
        ("repeat-limit-top-level", vec![p(4100), p(1), p(1), S::Repeat.into(), p(1), Alu::Sub.into(), S::Dup.into(), p(0), Pred::Eq.into(), Pred::Not.into(), p(-11), S::Swap.into(), T::JumpIf.into()]),
        ("repeat-4096-exactly", vec![p(4096), p(1), p(1), S::Repeat.into(), p(1), Alu::Sub.into(), S::Dup.into(), p(0), Pred::Eq.into(), Pred::Not.into(), p(-11), S::Swap.into(), T::JumpIf.into()]),
        // a loop left by a backward jump to before an earlier loop: its slot stays on the repeat stack while the earlier loop runs again, and is
        // what RepeatCounter / an enclosing RepeatEnd see afterwards (guard flag in memory word 0 so that the jump is taken once)
        ("abandoned-slot-counter", vec![p(1), M::Alloc.into(), S::Pop.into(), p(2), p(1), S::Repeat.into(), p(5), S::Pop.into(), S::RepeatEnd.into(),
            p(3), p(0), S::Repeat.into(), p(-16), p(0), M::Load.into(), Pred::Not.into(), p(1), p(0), M::Store.into(), T::JumpIf.into(), S::RepeatEnd.into(), A::RepeatCounter.into()]),
        ("abandoned-slot-resumed", vec![p(1), M::Alloc.into(), S::Pop.into(), p(2), p(1), S::Repeat.into(), p(1), p(1), S::Repeat.into(), S::RepeatEnd.into(),
            p(2), p(0), S::Repeat.into(), A::RepeatCounter.into(), p(-15), p(0), M::Load.into(), Pred::Not.into(), p(1), p(0), M::Store.into(), T::JumpIf.into(), S::RepeatEnd.into(), S::RepeatEnd.into()]),
        // every child of a Compute leaves the section backwards and stops before the Compute op: the parent resumes at the Compute op itself
        ("compute-children-stop-before-compute", vec![p(3), p(1), T::JumpIf.into(), C::ComputeEnd.into(), S::Pop.into(), p(0), p(1), p(1), C::Compute.into(),
            S::Pop.into(), p(-9), S::Swap.into(), T::JumpIf.into(), p(1), M::Alloc.into(), S::Pop.into(), C::ComputeEnd.into(), p(42)]),
        ("compute-children-halt-before-compute", vec![p(3), p(1), T::JumpIf.into(), T::Halt.into(), S::Pop.into(), p(0), p(1), p(2), C::Compute.into(),
            S::Pop.into(), p(-9), S::Swap.into(), T::JumpIf.into(), p(1), M::Alloc.into(), S::Pop.into(), C::ComputeEnd.into(), p(42)]),
        ("repeat-end-without-repeat", vec![p(1), S::RepeatEnd.into()]),
        ("counter-without-repeat", vec![A::RepeatCounter.into()]),
    ];
    for (name, ops) in &named {
        for limit in [u64::MAX, 1000, 20, 7] {
            check_program(ctx, &format!("vmops/program/{name}/{limit}"), ops, limit, env);
        }
    }
    // ---- trip counts beyond 32 bits: the loop is left in its third pass (by HaltIf or a far jump), so only the first passes are executed
    for (ci, c) in [(1i64 << 32) + 2, (1 << 40) + 1, (1 << 33) + 1, (1 << 32) + 1, 1 << 32, (1 << 32) - 1, (1 << 31) + 1, (1 << 48) + 3, Word::MAX, (1 << 63 - 1) - (1 << 32) + 2].into_iter().enumerate() {
        for up in [1i64, 0] {
            let third = if up == 1 { 2 } else { c - 3 };
            let halt: Vec<asm::Op> = vec![p(c), p(up), S::Repeat.into(), A::RepeatCounter.into(), S::Dup.into(), p(third), Pred::Eq.into(), T::HaltIf.into(), S::Pop.into(), S::RepeatEnd.into(), p(77)];
            check_program(ctx, &format!("vmops/program/big-trip-halt/{ci}/{up}"), &halt, 10_000, env);
            let jump: Vec<asm::Op> = vec![p(c), p(up), S::Repeat.into(), A::RepeatCounter.into(), p(third), Pred::Eq.into(), p(3), S::Swap.into(), T::JumpIf.into(), S::RepeatEnd.into(), p(77), p(78)];
            check_program(ctx, &format!("vmops/program/big-trip-jump/{ci}/{up}"), &jump, 10_000, env);
        }
    }
    // ---- two loops (optionally inside an outer loop) and one guarded jump out of the second loop's body to every position of the program
    for outer in [0i64, 2] {
        for (a, adir) in [(1i64, 1i64), (2, 0)] {
            for (b, bdir) in [(2i64, 0i64), (3, 1)] {
                let mut head: Vec<asm::Op> = vec![p(1), M::Alloc.into(), S::Pop.into()];
                if outer != 0 {
                    head.extend([p(outer), p(1), S::Repeat.into()]);
                }
                head.extend([p(a), p(adir), S::Repeat.into(), A::RepeatCounter.into(), S::Pop.into(), S::RepeatEnd.into()]);
                head.extend([p(b), p(bdir), S::Repeat.into(), A::RepeatCounter.into()]);
                // [dist] [flag not yet set] [set flag] JumpIf
                let jump_at = head.len() + 7;
                let total = jump_at + 2 + if outer != 0 { 1 } else { 0 } + 1;
                for target in 0..total {
                    if target == jump_at {
                        continue;
                    }
                    let mut ops = head.clone();
                    ops.extend([p(target as i64 - jump_at as i64), p(0), M::Load.into(), Pred::Not.into(), p(1), p(0), M::Store.into(), T::JumpIf.into(), S::RepeatEnd.into()]);
                    if outer != 0 {
                        ops.push(S::RepeatEnd.into());
                    }
                    ops.push(A::RepeatCounter.into());
                    check_program(ctx, &format!("vmops/program/guarded-jump/{outer}/{a}{adir}/{b}{bdir}/{target}"), &ops, 3_000, env);
                }
            }
        }
    }
    // ---- several PredicateExists in one program: every sequence of up to three lookups among the four solutions of the set and an absent hash
    {
        let mut hs: Vec<[u8; 32]> = env.all.iter().map(|(d, c, pr)| pre_image_hash(d, c, pr)).collect();
        hs.push([3u8; 32]);
        for a in 0..hs.len() {
            for b in 0..hs.len() {
                for c in 0..=hs.len() {
                    let mut ops: Vec<asm::Op> = vec![];
                    for h in [Some(a), Some(b), if c < hs.len() { Some(c) } else { None }].into_iter().flatten() {
                        ops.extend(be_words(&hs[h]).into_iter().map(p));
                        ops.push(A::PredicateExists.into());
                    }
                    check_program(ctx, &format!("vmops/program/exists-seq/{a}/{b}/{c}"), &ops, u64::MAX, env);
                }
            }
        }
    }
    // ---- two state reads in one program: every ordered pair of the four reads with the same contract, key and count (own contract given as the external address too)
    let rds = [R::KeyRange, R::KeyRangeExtern, R::PostKeyRange, R::PostKeyRangeExtern];
    for (ci, caddr) in [env.contract_addr, [0x5A; 32]].iter().enumerate() {
        for (ai, ra) in rds.iter().enumerate() {
            for (bi, rb) in rds.iter().enumerate() {
                for key in [7i64, 8] {
                    let mut ops: Vec<asm::Op> = vec![p(40), M::Alloc.into(), S::Pop.into()];
                    for (r, at) in [(ra, 0i64), (rb, 20), (ra, 30)] {
                        if matches!(r, R::KeyRangeExtern | R::PostKeyRangeExtern) {
                            ops.extend(be_words(caddr).into_iter().map(p));
                        }
                        ops.extend([p(key), p(1), p(1), p(at), (*r).into()]);
                    }
                    check_program(ctx, &format!("vmops/program/two-reads/{ci}/{ai}/{bi}/{key}"), &ops, u64::MAX, env);
                }
            }
        }
    }
    // ---- per-op cost functions (0, small, huge) x limits around every prefix sum, on programs with compute sections and loops
    let costed: Vec<(&str, Vec<asm::Op>)> = vec![
        ("compute-tail", vec![p(3), C::Compute.into(), S::Pop.into(), C::ComputeEnd.into()]),
        ("compute-mid", vec![p(2), C::Compute.into(), p(7), S::Pop.into(), C::ComputeEnd.into(), p(5)]),
        ("loop", vec![p(3), p(1), S::Repeat.into(), A::RepeatCounter.into(), S::Pop.into(), S::RepeatEnd.into()]),
        ("compute-pushes", vec![p(2), C::Compute.into(), p(30), S::Pop.into(), p(3), S::Pop.into(), S::Pop.into(), C::ComputeEnd.into(), p(9), p(1)]),
    ];
    // cost per op class: (push, compute, everything else)
    let tables: Vec<(u64, u64, u64)> = vec![(1, 1, 1), (0, 0, 1), (0, 0, 1 << 63), (0, 5, 1), (2, 7, 3), (0, 0, 0), (1, u64::MAX - 3, 1), (0, 0, u64::MAX / 3 + 1), (1 << 62, 0, 1 << 62)];
    let mut costs: Vec<Box<dyn Fn(&asm::Op) -> u64 + Send + Sync>> = vec![];
    for (cp, cc, co) in tables.iter() {
        let (cp, cc, co) = (*cp, *cc, *co);
        costs.push(Box::new(move |op: &asm::Op| -> u64 {
            match op {
                asm::Op::Stack(S::Push(_)) => cp,
                asm::Op::Compute(C::Compute) => cc,
                _ => co,
            }
        }));
    }
    // costs that depend on the operand of the op, not only on its kind
    costs.push(Box::new(|op: &asm::Op| match op { asm::Op::Stack(S::Push(n)) => 1 + n.unsigned_abs() % 50, _ => 2 }));
    costs.push(Box::new(|op: &asm::Op| match op { asm::Op::Stack(S::Push(n)) if *n > 5 => 0, asm::Op::Stack(S::Push(_)) => 40, _ => 1 }));
    for (name, ops) in &costed {
        for (ti, cost) in costs.iter().enumerate() {
            let cost = &**cost;
            // limits: every prefix sum of the unlimited reference run, +-1, and the extremes
            let mut sums: Vec<u128> = vec![0];
            {
                let mut rv = RefVm { pc: 0, stack: vec![], mem: vec![], parent: None, repeat: vec![], halt: false };
                let mut g = 0u128;
                let log = std::cell::RefCell::new(Vec::new());
                let logging = |op: &asm::Op| -> u64 {
                    let c = cost(op);
                    log.borrow_mut().push(c);
                    c
                };
                let _ = ref_exec(&mut rv, ops, env, u64::MAX, &mut g, &logging, &mut None);
                let mut acc = 0u128;
                for c in log.borrow().iter() {
                    acc += *c as u128;
                    sums.push(acc);
                }
            }
            let mut limits: Vec<u64> = vec![0, 1, u64::MAX, u64::MAX - 1];
            for s in sums {
                for d in [-1i128, 0, 1] {
                    let l = s as i128 + d;
                    if l >= 0 && l <= u64::MAX as i128 {
                        limits.push(l as u64);
                    }
                }
            }
            limits.sort();
            limits.dedup();
            for limit in limits {
                check_program_cost(ctx, &format!("vmops/cost/{name}/{ti}/{limit}"), ops, limit, env, cost);
            }
        }
    }
    // ---- per_yield: compute children and loops that spend more than per_yield while the total limit is far away (and the converse)
    let long_child: Vec<asm::Op> = vec![p(2), C::Compute.into(), S::Pop.into(), p(5000), p(1), S::Repeat.into(), S::RepeatEnd.into(), C::ComputeEnd.into(), p(1)];
    let long_loop: Vec<asm::Op> = vec![p(6000), p(0), S::Repeat.into(), S::RepeatEnd.into(), p(1), C::Compute.into(), S::Pop.into(), C::ComputeEnd.into()];
    for (name, ops) in [("long-child", &long_child), ("long-loop", &long_loop)] {
        for per_yield in [0u64, 1, 7, 4095, 4096, 4097, 20_000, u64::MAX] {
            for limit in [u64::MAX, 1_000_000, 12_000, 10_011, 10_010, 6_000, 4096, 100] {
                check_program_yield(ctx, &format!("vmops/yield/{name}/{per_yield}/{limit}"), ops, limit, env, &|_: &asm::Op| 1u64, per_yield);
            }
        }
    }
    // ---- deterministic pseudo-random programs over a control-flow-heavy palette
    let palette: Vec<asm::Op> = vec![
        p(0), p(1), p(2), p(3), p(-1), p(-2), p(-3), p(-5), p(1), p(2), S::Pop.into(), S::Dup.into(), S::Swap.into(), Alu::Add.into(), Alu::Sub.into(), Pred::Eq.into(), Pred::Lt.into(), Pred::Not.into(),
        T::JumpIf.into(), T::JumpIf.into(), T::HaltIf.into(), T::Halt.into(), S::Repeat.into(), S::Repeat.into(), S::RepeatEnd.into(), S::RepeatEnd.into(), A::RepeatCounter.into(), A::RepeatCounter.into(),
        M::Alloc.into(), M::Store.into(), M::Load.into(), C::Compute.into(), C::ComputeEnd.into(), S::DupFrom.into(), S::Select.into(),
    ];
    let n = if ctx.thorough { 1_500_000u64 } else { 400_000 };
    for seed in 1..=n {
        let id = format!("vmops/random/{seed}");
        if !ctx.want(&id) {
            continue;
        }
        let mut s = seed.wrapping_mul(0x9E3779B97F4A7C15) | 1;
        let len = if seed % 5 == 0 { 13 + (xorshift(&mut s) % 28) as usize } else { 3 + (xorshift(&mut s) % 12) as usize };
        let ops: Vec<asm::Op> = (0..len).map(|_| palette[(xorshift(&mut s) % palette.len() as u64) as usize]).collect();
        check_program(ctx, &id, &ops, 300, env);
    }
}

/// Grammar-based program: nested repeats (both directions), conditional forward skips, compute sections (not nested), halts, loop-counter reads.
fn gen_block(s: &mut u64, depth: usize, in_loop: bool, in_compute: bool, ops: &mut Vec<asm::Op>) {
    use asm::{Access as A, Alu, Compute as C, Memory as M, Stack as S, TotalControlFlow as T};
    let p = |w: Word| -> asm::Op { S::Push(w).into() };
    let items = 1 + xorshift(s) % 3;
    for _ in 0..items {
        match xorshift(s) % 10 {
            0 => ops.extend([p((xorshift(s) % 7) as Word - 3)]),
            1 => ops.extend([p((xorshift(s) % 5) as Word), p((xorshift(s) % 5) as Word), Alu::Add.into()]),
            2 if in_loop => ops.push(A::RepeatCounter.into()),
            2 => ops.extend([p(1), M::Alloc.into()]),
            3 => ops.extend([p(9), S::Pop.into()]),
            4 | 5 if depth < 3 => {
                ops.extend([p(1 + (xorshift(s) % 3) as Word), p((xorshift(s) % 2) as Word), S::Repeat.into()]);
                gen_block(s, depth + 1, true, in_compute, ops);
                ops.push(S::RepeatEnd.into());
            }
            6 if depth < 3 => {
                let mut body = vec![];
                gen_block(s, depth + 1, in_loop, in_compute, &mut body);
                ops.extend([p(body.len() as Word + 1), p((xorshift(s) % 2) as Word), T::JumpIf.into()]);
                ops.extend(body);
            }
            7 if depth < 3 && !in_compute => {
                ops.extend([p(1 + (xorshift(s) % 2) as Word), C::Compute.into()]);
                gen_block(s, depth + 1, in_loop, true, ops);
                ops.push(C::ComputeEnd.into());
            }
            8 => ops.extend([p((xorshift(s) % 6 == 0) as Word), T::HaltIf.into()]),
            _ => ops.extend([asm::Op::from(S::Dup), S::Pop.into()]),
        }
    }
}

fn structured(ctx: &Ctx, env: &Env) {
    let n = if ctx.thorough { 600_000u64 } else { 150_000 };
    for seed in 1..=n {
        let id = format!("vmops/structured/{seed}");
        if !ctx.want(&id) {
            continue;
        }
        let mut s = seed.wrapping_mul(0xD1B54A32D192ED03) | 1;
        let mut ops = vec![asm::Op::from(asm::Stack::Push(5))];
        gen_block(&mut s, 0, false, false, &mut ops);
        check_program(ctx, &id, &ops, if seed % 4 == 0 { 60 } else { 3000 }, env);
    }
}

/// `ParentMemory` ops read the memory pushed last (the parent), whatever lies below it.
fn parent_memory(ctx: &Ctx) {
    use std::sync::Arc;
    let mems: Vec<W> = vec![vec![], vec![5], vec![1, 2, 3], vec![9, 8, 7, 6, 5]];
    for (oi, outer) in mems.iter().enumerate() {
        for (ii, inner) in mems.iter().enumerate() {
            for addr in [0i64, 1, 2, 3, 4, 5, -1] {
                for size in [-1i64, 0, 1, 2, 3] {
                    let id = format!("vmops/ParentMemory/{oi}/{ii}/{addr}/{size}");
                    if !ctx.want(&id) {
                        continue;
                    }
                    let pms = [Arc::new(Memory::try_from(outer.clone()).unwrap()), Arc::new(Memory::try_from(inner.clone()).unwrap())];
                    let (op, s, want): (asm::ParentMemory, W, Option<W>) = if size < 0 {
                        (asm::ParentMemory::Load, vec![42, addr], idx(addr).and_then(|a| inner.get(a)).map(|w| vec![42, *w]))
                    } else {
                        let w = idx(addr).and_then(|a| a.checked_add(size as usize).and_then(|e| inner.get(a..e)));
                        (asm::ParentMemory::LoadRange, vec![42, addr, size], w.map(|ws| { let mut v = vec![42]; v.extend(ws); v }))
                    };
                    let got = std::panic::catch_unwind(|| {
                        let mut st = Stack::try_from(s.clone()).unwrap();
                        essential_vm::sync::step_op_parent_memory(op, &mut st, &pms).ok().map(|_| W::from(st))
                    });
                    match got {
                        Err(_) => ctx.fail(&id, "the VM never panics", format!("PANIC: {:?} stack {:?}", op, s)),
                        Ok(g) if g == want => ctx.pass(),
                        Ok(g) => ctx.fail(&id, "parent-memory reads return exactly the addressed words of the parent's memory (the one pushed last), out-of-range reads are errors",
                            format!("{:?} stack {:?} with parent memories [outer {:?}, parent {:?}]: VM {:?} but specification {:?}", op, s, outer, inner, g, want)),
                    }
                }
            }
        }
    }
}

pub fn run(ctx: &Ctx) {
    use asm::{Access as A, Alu, Crypto, Memory as M, Pred, Stack as S, StateRead as R, TotalControlFlow as T};
    let env = env();
    programs(ctx, &env);
    structured(ctx, &env);
    parent_memory(ctx);
    let pool: W = vec![
        0, 1, 2, 3, -1, -2, -3, -4, 63, 64, 65, 4095, 4096, Word::MIN, Word::MAX, Word::MIN + 1, -64,
        // half-word boundaries, the integer square root of 2^63, a shift amount whose low 32 bits look valid
        (1 << 31) - 1, 1 << 31, (1 << 32) - 1, 1 << 32, (1 << 32) + 5, 3_037_000_499, 3_037_000_500, -3_037_000_500, 1 << 62, -(1 << 31), (1 << 40) | 3,
    ];
    let small: W = vec![0, 1, 2, 3, -1, 4, Word::MAX, Word::MIN];
    let bases: Vec<W> = vec![vec![], vec![11], vec![11, 22, 33], vec![5, 6, 7, 8, 9, 10]];
    let mems: Vec<W> = vec![vec![], vec![70], vec![70, 71, 72, 73]];
    // ---- ops with up to two plain operands: every pair from the pool on every base
    let two: Vec<asm::Op> = vec![
        Alu::Add.into(), Alu::Sub.into(), Alu::Mul.into(), Alu::Div.into(), Alu::Mod.into(), Alu::Shl.into(), Alu::Shr.into(), Alu::ShrI.into(),
        Pred::Eq.into(), Pred::Gt.into(), Pred::Lt.into(), Pred::Gte.into(), Pred::Lte.into(), Pred::And.into(), Pred::Or.into(), Pred::BitAnd.into(), Pred::BitOr.into(), Pred::Not.into(),
        S::Pop.into(), S::Dup.into(), S::Swap.into(), S::DupFrom.into(), S::SwapIndex.into(), S::Load.into(), S::Store.into(), S::Drop.into(), S::Reserve.into(), S::Push(-7).into(),
        T::JumpIf.into(), T::HaltIf.into(), T::Halt.into(), T::PanicIf.into(),
        M::Alloc.into(), M::Free.into(), M::Load.into(), M::Store.into(), M::LoadRange.into(),
        A::PredicateDataLen.into(), A::PredicateDataSlots.into(), A::ThisAddress.into(), A::ThisContractAddress.into(),
    ];
    for op in &two {
        for (bi, base) in bases.iter().enumerate() {
            for (mi, mem) in mems.iter().enumerate() {
                check(ctx, &format!("vmops/{:?}/b{bi}m{mi}/none", op), *op, base, mem, &env);
                for a in &pool {
                    let mut s1 = base.clone();
                    s1.push(*a);
                    check(ctx, &format!("vmops/{:?}/b{bi}m{mi}/{a}", op), *op, &s1, mem, &env);
                    for b in &pool {
                        let mut s2 = s1.clone();
                        s2.push(*b);
                        check(ctx, &format!("vmops/{:?}/b{bi}m{mi}/{a}/{b}", op), *op, &s2, mem, &env);
                    }
                }
            }
        }
    }
    // ---- three operands: Select, PredicateData
    for op in [asm::Op::from(S::Select), A::PredicateData.into()] {
        for (bi, base) in bases.iter().enumerate() {
            for a in &small {
                for b in &small {
                    for c in &small {
                        let mut s = base.clone();
                        s.extend([*a, *b, *c]);
                        check(ctx, &format!("vmops/{:?}/b{bi}/{a}/{b}/{c}", op), op, &s, &[], &env);
                    }
                }
            }
        }
    }
    // ---- range operands: arrays of length 0..3 over {0, 1, 7}, declared lengths around the real one, conditions 0 / 1 / 2
    let vals: W = vec![0, 1, 7];
    let mut arrays: Vec<W> = vec![vec![]];
    for l in 1..=3usize {
        let mut cur: Vec<W> = vec![vec![]];
        for _ in 0..l {
            cur = cur.into_iter().flat_map(|p| vals.iter().map(move |v| { let mut q = p.clone(); q.push(*v); q })).collect();
        }
        arrays.extend(cur);
    }
    for (ai, a) in arrays.iter().enumerate() {
        for (bi, b) in arrays.iter().enumerate() {
            if a.len() != b.len() && (ai + bi) % 3 != 0 {
                continue;
            }
            for base in [vec![], vec![9, 9]] {
                for dl in [-1i64, 0, 1] {
                    let len = b.len() as Word + dl;
                    let mut s = base.clone();
                    s.extend(a);
                    s.extend(b);
                    s.push(len);
                    check(ctx, &format!("vmops/EqRange/{ai}/{bi}/{}/{dl}", base.len()), Pred::EqRange.into(), &s, &[], &env);
                    for c in [0, 1, 2] {
                        let mut s2 = s.clone();
                        s2.push(c);
                        check(ctx, &format!("vmops/SelectRange/{ai}/{bi}/{}/{dl}/{c}", base.len()), S::SelectRange.into(), &s2, &[], &env);
                    }
                    // StoreRange: values b, declared len, address
                    for addr in [-1i64, 0, 1, 2, 4, 5] {
                        let mut s3 = base.clone();
                        s3.extend(a);
                        s3.extend(b);
                        s3.push(len);
                        s3.push(addr);
                        check(ctx, &format!("vmops/StoreRange/{ai}/{bi}/{}/{dl}/{addr}", base.len()), M::StoreRange.into(), &s3, &[70, 71, 72, 73], &env);
                    }
                }
            }
        }
    }
    // ---- EqSet: sets of up to 3 items (each 0..2 words) in both orders, with duplicates, and malformed encodings
    let items: Vec<W> = vec![vec![], vec![1], vec![2], vec![1, 2], vec![2, 1]];
    let enc = |set: &[&W]| -> W {
        let mut out = Vec::new();
        for it in set {
            out.extend(it.iter());
            out.push(it.len() as Word);
        }
        let l = out.len() as Word;
        out.push(l);
        out
    };
    let mut sets: Vec<Vec<&W>> = vec![vec![]];
    for a in &items {
        sets.push(vec![a]);
        for b in &items {
            sets.push(vec![a, b]);
        }
    }
    sets.push(vec![&items[1], &items[2], &items[3]]);
    sets.push(vec![&items[3], &items[1], &items[2]]);
    for (li, l) in sets.iter().enumerate() {
        for (ri, r) in sets.iter().enumerate() {
            let mut s = vec![42];
            s.extend(enc(l));
            s.extend(enc(r));
            check(ctx, &format!("vmops/EqSet/{li}/{ri}"), Pred::EqSet.into(), &s, &[], &env);
        }
    }
    for bad in [vec![1, 5, 2], vec![1, -1, 2], vec![3], vec![1, 1, 2, 7, 1, 9], vec![0, 0]] {
        let mut s = vec![42, 1, 1, 2];
        s.extend(&bad);
        check(ctx, &format!("vmops/EqSet/bad/{:?}", bad), Pred::EqSet.into(), &s, &[], &env);
    }
    // ---- stack / memory limits
    let full: W = (0..STACK_LIMIT as Word).collect();
    for cut in [0usize, 1, 2, 5] {
        let s = &full[..STACK_LIMIT - cut];
        for op in [asm::Op::from(S::Push(1)), S::Dup.into(), A::ThisAddress.into(), A::PredicateDataSlots.into()] {
            check(ctx, &format!("vmops/limit/{:?}/{cut}", op), op, s, &[], &env);
        }
        // predicate data that fills the stack exactly / goes one beyond (slot 0 has three words)
        for k in [0, 1, 2, 3] {
            for ix in [0, 1] {
                let mut s4 = full[..STACK_LIMIT - cut - 3].to_vec();
                s4.extend([0, ix, k]);
                check(ctx, &format!("vmops/limit/PredicateData/{cut}/{ix}/{k}"), A::PredicateData.into(), &s4, &[], &env);
            }
        }
        for k in [0, 1, 2, 3, 4, 5, 6] {
            let mut s2 = s[..s.len() - 2].to_vec();
            s2.push(k);
            check(ctx, &format!("vmops/limit/Reserve/{cut}/{k}"), S::Reserve.into(), &s2, &[], &env);
            let mut s3 = s[..s.len() - 2].to_vec();
            s3.extend([0, k]);
            check(ctx, &format!("vmops/limit/LoadRange/{cut}/{k}"), M::LoadRange.into(), &s3, &[1, 2, 3, 4, 5, 6], &env);
        }
    }
    let bigm: W = vec![3; MEM_LIMIT - 2];
    for k in [0, 1, 2, 3, Word::MAX] {
        check(ctx, &format!("vmops/limit/Alloc/{k}"), M::Alloc.into(), &[k], &bigm, &env);
    }
    // ---- state reads: keys (incl. word carry), counts, addresses, pre / post / extern routing
    let keys: Vec<W> = vec![vec![7], vec![8], vec![6], vec![0, Word::MAX], vec![0, Word::MAX - 1], vec![]];
    for (ri, r) in [R::KeyRange, R::KeyRangeExtern, R::PostKeyRange, R::PostKeyRangeExtern].into_iter().enumerate() {
        for (ki, key) in keys.iter().enumerate() {
            for nk in [0i64, 1, 2, 3, -1] {
                for addr in [0i64, 1, 5, 12, -1, Word::MAX, Word::MAX - 1, Word::MAX - 2, Word::MAX - 3, Word::MAX - 4, Word::MAX - 5, Word::MAX - 6, Word::MAX - 7, Word::MAX - 9, Word::MAX - 12] {
                    for msize in [0usize, 6, 14] {
                        let mut s: W = vec![33];
                        if ri % 2 == 1 {
                            s.extend([0x5A5A5A5A5A5A5A5Au64 as i64; 4]);
                        }
                        s.extend(key);
                        s.extend([key.len() as Word, nk, addr]);
                        let mem: W = (0..msize as Word).map(|x| 900 + x).collect();
                        check(ctx, &format!("vmops/StateRead/{ri}/{ki}/{nk}/{addr}/{msize}"), r.into(), &s, &mem, &env);
                    }
                }
            }
        }
    }
    // a count whose pair table alone cannot fit in a full memory must fail (and be passed to the state unchanged)
    let fullmem: W = vec![0; MEM_LIMIT];
    for nk in [5119i64, 5120, 5121, 6000] {
        for (ri, r) in [R::KeyRange, R::PostKeyRangeExtern].into_iter().enumerate() {
            let mut s: W = vec![];
            if ri == 1 {
                s.extend([0x5A5A5A5A5A5A5A5Au64 as i64; 4]);
            }
            s.extend([1000, 1, nk, 0]);
            check(ctx, &format!("vmops/StateRead/big/{ri}/{nk}"), r.into(), &s, &fullmem, &env);
        }
    }
    // a state that returns more values than were asked for: every returned value is laid out (or the op fails if they do not fit)
    for nk in [0i64, 1, 2] {
        for msize in [4usize, 8, 14] {
            for (ri, r) in [R::KeyRange, R::KeyRangeExtern, R::PostKeyRange, R::PostKeyRangeExtern].into_iter().enumerate() {
                let id = format!("vmops/StateRead/extra/{ri}/{nk}/{msize}");
                if !ctx.want(&id) {
                    continue;
                }
                let mut s: W = vec![33];
                if ri % 2 == 1 {
                    s.extend([0x5A5A5A5A5A5A5A5Au64 as i64; 4]);
                }
                s.extend([7, 1, nk, 0]);
                let mem: W = (0..msize as Word).map(|x| 900 + x).collect();
                let view = if ri < 2 { &env.pre } else { &env.post };
                let c = if ri % 2 == 1 { [0x5A; 32] } else { env.contract_addr };
                let mut vals = read_state(view, &c, &vec![7], nk as usize);
                vals.push(vec![77]);
                let want = layout(&mem, 0, &vals);
                let r2 = std::panic::catch_unwind(std::panic::AssertUnwindSafe(|| {
                    let mut vm = Vm::default();
                    vm.stack = Stack::try_from(s.clone()).unwrap();
                    vm.memory = Memory::try_from(mem.clone()).unwrap();
                    let st = (Extra(env.pre.clone()), Extra(env.post.clone()));
                    let res = vm.exec_ops(&[r.into()], access(&env), &st, &|_: &asm::Op| 1u64, GasLimit::UNLIMITED);
                    let mm: W = vm.memory.clone().into();
                    (res.is_ok(), mm)
                }));
                match r2 {
                    Err(_) => ctx.fail(&id, "the VM never panics", format!("PANIC: {:?} with a state returning an extra value", r)),
                    Ok((ok, mm)) => {
                        let good = match &want {
                            None => !ok,
                            Some(w) => ok && &mm == w,
                        };
                        if good {
                            ctx.pass();
                        } else {
                            ctx.fail(&id, "the values returned by the state are written as one [address, length] pair per value followed by the values; results that do not fit are errors",
                                format!("{:?} count {nk} memory {msize} words, state returns count+1 values {:?}: VM ok={ok} memory {:?} but specification {:?}", r, vals, tail(&mm), want.as_ref().map(|w| tail(w))));
                        }
                    }
                }
            }
        }
    }
    // ---- eval: true / false exactly when the top of the final stack is 1 / 0, an error otherwise (incl. the empty stack)
    for (ei, (ops, want)) in [
        (vec![], None),
        (vec![S::Push(1).into()], Some(true)),
        (vec![S::Push(0).into()], Some(false)),
        (vec![S::Push(2).into()], None),
        (vec![S::Push(-1).into()], None),
        (vec![S::Push(0).into(), S::Push(1).into()], Some(true)),
        (vec![S::Push(1).into(), S::Push(0).into()], Some(false)),
        (vec![S::Push(1).into(), S::Pop.into()], None),
        (vec![S::Push(1).into(), S::Push(7).into()], None),
    ]
    .into_iter()
    .enumerate()
    {
        let ops: Vec<asm::Op> = ops;
        let id = format!("vmops/eval/{ei}");
        if !ctx.want(&id) {
            continue;
        }
        let st = (env.pre.clone(), env.post.clone());
        let got = std::panic::catch_unwind(std::panic::AssertUnwindSafe(|| Vm::default().eval_ops(&ops, access(&env), &st, &|_: &asm::Op| 1u64, GasLimit::UNLIMITED).ok()));
        match got {
            Err(_) => ctx.fail(&id, "the VM never panics", format!("PANIC in eval of {:?}", ops)),
            Ok(g) if g == want => ctx.pass(),
            Ok(g) => ctx.fail(&id, "evaluating a program yields true / false exactly when the top of the final stack is 1 / 0 and is an error otherwise", format!("ops {:?}: eval {:?} but specification {:?}", ops, g, want)),
        }
    }
    // ---- gas (C07): straight-line programs whose stack shows how many ops ran; per-op costs incl. 0 and values near u64::MAX; all limits
    let cost_tables: Vec<Vec<u64>> = vec![vec![1, 1, 1, 1, 1], vec![0, 0, 0, 0, 0], vec![2, 0, 3, 1, 4], vec![5, u64::MAX - 6, 1, 1, 1], vec![u64::MAX, 1, 1, 1, 1], vec![1, u64::MAX - 1, 1, 0, 0]];
    for (ti, table) in cost_tables.iter().enumerate() {
        let ops: Vec<asm::Op> = (0..5).map(|i| S::Push(i).into()).collect();
        let mut limits: Vec<u64> = vec![0, 1, 2, 3, 4, 5, 6, 9, 10, 11, u64::MAX - 7, u64::MAX - 6, u64::MAX - 5, u64::MAX - 1, u64::MAX];
        limits.dedup();
        for limit in limits {
            let id = format!("vmops/gas/{ti}/{limit}");
            if !ctx.want(&id) {
                continue;
            }
            // specification: ops run while the running sum (mathematical) stays within the limit; the first op that would exceed it is not executed
            let mut sum: u128 = 0;
            let mut ran = 0usize;
            for c in table {
                if sum + *c as u128 > limit as u128 {
                    break;
                }
                sum += *c as u128;
                ran += 1;
            }
            let want_ok = ran == table.len();
            let t2 = table.clone();
            let cost = move |op: &asm::Op| -> u64 {
                match op {
                    asm::Op::Stack(S::Push(i)) => t2[*i as usize],
                    _ => 1,
                }
            };
            let st = (env.pre.clone(), env.post.clone());
            let r = std::panic::catch_unwind(std::panic::AssertUnwindSafe(|| {
                let mut vm = Vm::default();
                let r = vm.exec_ops(&ops, access(&env), &st, &cost, GasLimit { per_yield: 4096, total: limit });
                let s: W = vm.stack.clone().into();
                (r.ok(), s, vm.pc)
            }));
            match r {
                Err(_) => ctx.fail(&id, "gas arithmetic never overflows / panics", format!("PANIC: costs {:?} limit {limit}", table)),
                Ok((g, s, pc)) => {
                    let want_stack: W = (0..ran as Word).collect();
                    let good = s == want_stack && pc == ran && if want_ok { g == Some(sum as u64) } else { g.is_none() };
                    if good {
                        ctx.pass();
                    } else {
                        ctx.fail(&id, "a successful run reports exactly the sum of the costs of the executed ops, never above the limit; the op that would exceed the limit is not executed",
                            format!("costs {:?} limit {limit}: VM gas {:?} stack {:?} pc {pc} but specification: {} ops run, gas {}", table, g, s, ran, if want_ok { format!("Ok({sum})") } else { "out of gas".into() }));
                    }
                }
            }
        }
    }
    // compute children are charged against the same total limit: [Push(2), Compute, Push(7), Pop, ComputeEnd] costs 2c + 2 * 3c
    for c in [1u64, 3, u64::MAX / 4] {
        for limit in [0u64, 2 * c.min(1 << 60), 7 * c.min(1 << 60), 8 * c.min(1 << 60) - 1, 8 * c.min(1 << 60), u64::MAX] {
            let id = format!("vmops/gas/compute/{c}/{limit}");
            if !ctx.want(&id) {
                continue;
            }
            let ops: Vec<asm::Op> = vec![S::Push(2).into(), asm::Compute::Compute.into(), S::Push(7).into(), S::Pop.into(), asm::Compute::ComputeEnd.into()];
            let total: u128 = 8 * c as u128;
            let want: Option<u64> = if total <= limit as u128 { Some(total as u64) } else { None };
            let st = (env.pre.clone(), env.post.clone());
            let r = std::panic::catch_unwind(std::panic::AssertUnwindSafe(|| Vm::default().exec_ops(&ops, access(&env), &st, &move |_: &asm::Op| c, GasLimit { per_yield: 4096, total: limit }).ok()));
            match r {
                Err(_) => ctx.fail(&id, "gas arithmetic never overflows / panics", format!("PANIC: compute program, cost {c} limit {limit}")),
                Ok(g) if g == want => ctx.pass(),
                Ok(g) => ctx.fail(&id, "gas of compute children counts towards the reported sum and the total limit", format!("cost {c} per op, limit {limit}: VM {:?} but specification {:?} (8 ops executed in total)", g, want)),
            }
        }
    }
    // ---- PredicateExists: the hash of every solution of the set (any position), near misses, too few operands
    {
        use sha2::{Digest, Sha256};
        let mut hashes: Vec<[u8; 32]> = env.all.iter().map(|(d, c, p)| pre_image_hash(d, c, p)).collect();
        // the checked solution's pre-image followed by the tail of the longer, earlier one; its data with one word changed; addresses swapped
        let (a, b) = (pre_image(&env.all[0].0, &env.all[0].1, &env.all[0].2), pre_image(&env.all[1].0, &env.all[1].1, &env.all[1].2));
        let mut stale = b.clone();
        stale.extend(&a[b.len().min(a.len())..]);
        hashes.push(Sha256::digest(&stale).into());
        let mut d2 = env.all[1].0.clone();
        d2[0][0] += 1;
        hashes.push(pre_image_hash(&d2, &env.all[1].1, &env.all[1].2));
        hashes.push(pre_image_hash(&env.all[1].0, &env.all[1].2, &env.all[1].1));
        hashes.push(pre_image_hash(&env.all[1].0, &env.all[0].1, &env.all[0].2));
        hashes.push([0u8; 32]);
        for (hi, h) in hashes.iter().enumerate() {
            for base in [vec![], vec![5, 6]] {
                let mut s: W = base.clone();
                s.extend(be_words(h));
                check(ctx, &format!("vmops/PredicateExists/{hi}/{}", base.len()), A::PredicateExists.into(), &s, &[], &env);
                check(ctx, &format!("vmops/PredicateExists/short/{hi}/{}", base.len()), A::PredicateExists.into(), &s[base.len() + 1..], &[], &env);
            }
        }
    }
    // ---- VerifyEd25519 / RecoverSecp256k1 == the sign crates on the same bytes (unaligned lengths, corrupted and degenerate signatures)
    crypto(ctx, &env);
    // ---- SHA-256: byte-aligned lengths
    for len in [0i64, 1, 7, 8, 9, 16, 17, 24, -1, 25, 100] {
        let s: W = vec![5, 0x0102030405060708, -2, 0x1122334455667788, len];
        check(ctx, &format!("vmops/Sha256/{len}"), Crypto::Sha256.into(), &s, &[], &env);
    }
    // every byte length up to 1100 on exactly the words it needs, and every length of the last word around multiples of 64 words
    for len in 0..=1100usize {
        let words = (len + 7) / 8;
        let mut s: W = (0..words as Word).map(|i| (i + 1).wrapping_mul(0x0123_4567_89ab_cdef)).collect();
        s.push(len as Word);
        check(ctx, &format!("vmops/Sha256/exact/{len}"), Crypto::Sha256.into(), &s, &[], &env);
    }
    for k in [3usize, 4, 8, 16, 32, 63] {
        for len in 64 * k * 8 - 9..=64 * k * 8 + 1 {
            let words = (len + 7) / 8;
            let mut s: W = (0..words as Word).map(|i| (i + 7).wrapping_mul(0x0f1e_2d3c_4b5a_6978)).collect();
            s.push(len as Word);
            check(ctx, &format!("vmops/Sha256/block/{k}/{len}"), Crypto::Sha256.into(), &s, &[], &env);
        }
    }
    // long inputs (up to the whole stack)
    for (words, len) in [(64usize, 512i64), (129, 1025), (1024, 8192), (1025, 8193), (1152, 9216), (1153, 9217), (2000, 15_999), (4094, 32_752), (4094, 32_745), (100, 801)] {
        let mut s: W = (0..words as Word).map(|i| i.wrapping_mul(0x0101_0101_0101_0101) ^ 0x55).collect();
        s.push(len);
        check(ctx, &format!("vmops/Sha256/long/{words}/{len}"), Crypto::Sha256.into(), &s, &[], &env);
    }
    // ---- Repeat / RepeatEnd / RepeatCounter: the counter values observed by the loop body
    for nrep in [-1i64, 0, 1, 2, 3, 5] {
        for up in [0i64, 1, 2] {
            let id = format!("vmops/Repeat/{nrep}/{up}");
            if !ctx.want(&id) {
                continue;
            }
            let ops: Vec<asm::Op> = vec![S::Push(nrep).into(), S::Push(up).into(), S::Repeat.into(), A::RepeatCounter.into(), S::RepeatEnd.into(), S::Push(-9).into()];
            let want: Option<W> = match up {
                1 => Some((0..nrep.max(1)).chain([-9]).collect()),
                0 => Some(if nrep <= 1 { vec![nrep, -9] } else { (1..=nrep).rev().chain([-9]).collect() }),
                _ => None,
            };
            let r = std::panic::catch_unwind(std::panic::AssertUnwindSafe(|| {
                let mut vm = Vm::default();
                let st = (env.pre.clone(), env.post.clone());
                let r = vm.exec_ops(&ops, access(&env), &st, &|_: &asm::Op| 1u64, GasLimit { per_yield: 4096, total: 10_000 });
                let s: W = vm.stack.clone().into();
                (r.is_ok(), s)
            }));
            match r {
                Err(_) => ctx.fail(&id, "the VM never panics", format!("PANIC in repeat loop n={nrep} up={up}")),
                Ok((ok, s)) => {
                    let good = match &want {
                        None => !ok,
                        Some(w) => ok && &s == w,
                    };
                    if good {
                        ctx.pass();
                    } else {
                        ctx.fail(&id, "a repeat loop runs max(n,1) times and the counter takes the documented values (0..n-1 counting up, n..1 counting down)",
                            format!("num_repeats={nrep} count_up={up}: VM ok={ok} stack {:?} but specification {:?}", s, want));
                    }
                }
            }
        }
    }
}
