//! C16 / C04: the validators of the real checker against the documented limits (accept exactly up to 100 solutions, 100 data slots,
//! 10000-word values, 1000 mutations, 1000-word keys, one mutation per (contract, key) in the whole set; 1000 nodes / edges;
//! 100 predicates), at / below / above every limit and on every small combination of contracts, predicates and keys in every order.
use crate::Ctx;
use essential_check::{predicate, solution};
use essential_types::{
    predicate::{Node, Predicate},
    solution::{Mutation, Solution, SolutionSet},
    ContentAddress, PredicateAddress, Word,
};

fn ca(b: u8) -> ContentAddress {
    ContentAddress([b; 32])
}
fn sol(contract: u8, pred: u8, data: Vec<Vec<Word>>, muts: Vec<Mutation>) -> Solution {
    Solution { predicate_to_solve: PredicateAddress { contract: ca(contract), predicate: ca(pred) }, predicate_data: data, state_mutations: muts }
}

/// The documented rule.
fn set_ok(set: &SolutionSet) -> bool {
    let n = set.solutions.len();
    if n < 1 || n > 100 {
        return false;
    }
    let mut total = 0usize;
    let mut slots = std::collections::BTreeSet::new();
    for s in &set.solutions {
        if s.predicate_data.len() > 100 || s.predicate_data.iter().any(|v| v.len() > 10000) {
            return false;
        }
        total += s.state_mutations.len();
        for m in &s.state_mutations {
            if m.key.len() > 1000 || m.value.len() > 10000 {
                return false;
            }
            if !slots.insert((s.predicate_to_solve.contract.clone(), m.key.clone())) {
                return false;
            }
        }
    }
    total <= 1000
}

fn check_set_case(ctx: &Ctx, id: &str, set: &SolutionSet, what: impl Fn() -> String) {
    if !ctx.want(id) {
        return;
    }
    let want = set_ok(set);
    match std::panic::catch_unwind(|| solution::check_set(set).is_ok()) {
        Err(_) => ctx.fail(id, "validators never panic", format!("PANIC: {}", what())),
        Ok(got) if got == want => ctx.pass(),
        Ok(got) => ctx.fail(id, "a solution set is accepted exactly when it is within the documented limits and proposes at most one mutation per (contract, key)",
            format!("{}: check_set accepted={got} but the documented rule says accepted={want}", what())),
    }
}

pub fn run(ctx: &Ctx) {
    // ---- limits one at a time (and all at the limit together)
    for n in [0usize, 1, 99, 100, 101] {
        let set = SolutionSet { solutions: (0..n).map(|i| sol(1, i as u8, vec![], vec![])).collect() };
        check_set_case(ctx, &format!("validate/solutions/{n}"), &set, || format!("{n} solutions"));
    }
    for slots in [0usize, 99, 100, 101] {
        for pos in [0usize, 2] {
            let mut sols: Vec<Solution> = (0..3).map(|i| sol(1, i, vec![], vec![])).collect();
            sols[pos].predicate_data = vec![vec![]; slots];
            check_set_case(ctx, &format!("validate/slots/{slots}/{pos}"), &SolutionSet { solutions: sols }, || format!("{slots} predicate data slots in solution {pos} of 3"));
        }
    }
    for len in [9999usize, 10000, 10001] {
        for (pos, slot) in [(0usize, 0usize), (2, 1)] {
            let mut sols: Vec<Solution> = (0..3).map(|i| sol(1, i, vec![vec![1], vec![2]], vec![])).collect();
            sols[pos].predicate_data[slot] = vec![7; len];
            check_set_case(ctx, &format!("validate/datalen/{len}/{pos}"), &SolutionSet { solutions: sols }, || format!("predicate data value of {len} words in solution {pos} slot {slot}"));
            let mut sols: Vec<Solution> = (0..3).map(|i| sol(1, i, vec![], vec![])).collect();
            sols[pos].state_mutations = vec![Mutation { key: vec![1], value: vec![] }, Mutation { key: vec![2], value: vec![3; len] }];
            check_set_case(ctx, &format!("validate/valuelen/{len}/{pos}"), &SolutionSet { solutions: sols }, || format!("mutation value of {len} words in solution {pos}"));
        }
    }
    for len in [999usize, 1000, 1001] {
        let mut sols: Vec<Solution> = (0..2).map(|i| sol(1, i, vec![], vec![])).collect();
        sols[1].state_mutations = vec![Mutation { key: vec![4; len], value: vec![1] }];
        check_set_case(ctx, &format!("validate/keylen/{len}"), &SolutionSet { solutions: sols }, || format!("mutation key of {len} words"));
    }
    for total in [999usize, 1000, 1001] {
        for split in [1usize, 2, 3] {
            // `total` mutations with distinct keys spread over `split` solutions
            let mut sols: Vec<Solution> = (0..split).map(|i| sol(1, i as u8, vec![], vec![])).collect();
            for k in 0..total {
                sols[k % split].state_mutations.push(Mutation { key: vec![k as Word], value: vec![1] });
            }
            check_set_case(ctx, &format!("validate/mutations/{total}/{split}"), &SolutionSet { solutions: sols }, || format!("{total} mutations over {split} solutions"));
        }
    }
    // ---- one mutation per (contract, key): every assignment of (contract, predicate, key set) to up to 3 solutions, in every order
    let keysets: Vec<Vec<(Word, Word)>> = vec![vec![], vec![(1, 10)], vec![(2, 20)], vec![(1, 11), (2, 21)], vec![(1, 12), (1, 12)]];
    let mut kinds = Vec::new();
    for c in [1u8, 2] {
        for p in [1u8, 2] {
            for (ki, _) in keysets.iter().enumerate() {
                kinds.push((c, p, ki));
            }
        }
    }
    for (ai, a) in kinds.iter().enumerate() {
        for (bi, b) in kinds.iter().enumerate() {
            for ci in std::iter::once(None).chain((0..kinds.len()).step_by(3).map(Some)) {
                let mut sols = vec![a, b];
                if let Some(c) = ci {
                    sols.push(&kinds[c]);
                }
                let set = SolutionSet {
                    solutions: sols
                        .iter()
                        .map(|(c, p, ki)| sol(*c, *p, vec![], keysets[*ki].iter().map(|(k, v)| Mutation { key: vec![*k], value: vec![*v] }).collect()))
                        .collect(),
                };
                check_set_case(ctx, &format!("validate/slots-unique/{ai}/{bi}/{:?}", ci), &set, || {
                    format!("solutions (contract, predicate, [(key, value)]): {:?}", sols.iter().map(|(c, p, ki)| (c, p, keysets[*ki].clone())).collect::<Vec<_>>())
                });
            }
        }
    }
    // ---- the slot rule in large sets: 60..=120 filler mutations with unique keys plus one repeated slot somewhere in the set
    for fill in [0usize, 30, 63, 64, 65, 100, 300] {
        for (name, c2, p2, k2) in [("same-slot-other-predicate", 1u8, 2u8, 7i64), ("same-slot-same-predicate", 1, 1, 7), ("other-contract", 2, 1, 7), ("other-key", 1, 2, 8)] {
            for pos in [0usize, 1, 2] {
                let key_a: Vec<Word> = vec![7, 0, 9];
                let mut key_b = key_a.clone();
                key_b[0] = k2;
                let filler = |base: usize, n: usize| -> Vec<Mutation> { (0..n).map(|i| Mutation { key: vec![1000 + (base + i) as Word, 1, 2], value: vec![1] }).collect() };
                let mut s1 = sol(1, 1, vec![], filler(0, fill / 2));
                s1.state_mutations.insert((fill / 4).min(s1.state_mutations.len()), Mutation { key: key_a.clone(), value: vec![1] });
                let mut s2 = sol(c2, p2, vec![], filler(5000, fill - fill / 2));
                s2.state_mutations.push(Mutation { key: key_b.clone(), value: vec![2] });
                let s3 = sol(3, 3, vec![], vec![Mutation { key: vec![5], value: vec![] }]);
                let mut sols = vec![s1, s2];
                sols.insert(pos, s3);
                check_set_case(ctx, &format!("validate/big-slots/{fill}/{name}/{pos}"), &SolutionSet { solutions: sols }, || format!("{fill} filler mutations, case {name}, third solution at {pos}"));
            }
        }
    }
    // ---- many solutions: the same slot written by the solutions at positions i and j of a set of n (every pair for the sizes around typical batch
    // sizes, a sample for the largest), with distinct slots everywhere else
    for n in [4usize, 15, 16, 17, 31, 32, 33, 64, 100] {
        let step = if n > 33 { 7 } else { 1 };
        for i in (0..n).step_by(step) {
            for j in (i + 1..n).step_by(step) {
                for same_contract in [true, false] {
                    let id = format!("validate/many/{n}/{i}/{j}/{same_contract}");
                    if !ctx.want(&id) {
                        continue;
                    }
                    let mut sols: Vec<Solution> = (0..n).map(|k| sol(1 + (k % 3) as u8, k as u8, vec![], vec![Mutation { key: vec![k as Word, 5], value: vec![1] }, Mutation { key: vec![k as Word], value: vec![] }])).collect();
                    sols[i].predicate_to_solve.contract = ca(9);
                    sols[j].predicate_to_solve.contract = if same_contract { ca(9) } else { ca(8) };
                    sols[i].state_mutations.push(Mutation { key: vec![77, 78], value: vec![2] });
                    sols[j].state_mutations.insert(0, Mutation { key: vec![77, 78], value: vec![3] });
                    check_set_case(ctx, &id, &SolutionSet { solutions: sols }, || format!("{n} solutions, positions {i} and {j} write key [77, 78] of {}", if same_contract { "the same contract" } else { "different contracts" }));
                }
            }
        }
    }
    // ---- signed contracts: a valid signature is accepted, every other recovery id or a corrupted signature is rejected
    {
        use essential_types::contract::{Contract, SignedContract};
        let sk = secp256k1::SecretKey::from_byte_array(&[9u8; 32]).expect("key");
        let contract = Contract { predicates: vec![Predicate { nodes: vec![Node { edge_start: u16::MAX, program_address: ca(1) }], edges: vec![] }], salt: [3; 32] };
        let signed: SignedContract = essential_sign::contract::sign(contract.clone(), &sk);
        let id = "validate/signed/valid";
        if ctx.want(id) {
            match std::panic::catch_unwind(|| predicate::check_signed_contract(&signed).is_ok()) {
                Ok(true) => ctx.pass(),
                other => ctx.fail(id, "a signed contract within the limits with a recoverable signature is accepted", format!("{:?}", other)),
            }
        }
        let good_id = signed.signature.1;
        for rid in 0..=255u8 {
            let id = format!("validate/signed/recid/{rid}");
            if !ctx.want(&id) {
                continue;
            }
            let mut s = signed.clone();
            s.signature.1 = rid;
            // ids 0..=3 are well-formed: the contract is accepted exactly when verification against that id succeeds (it does for the signing id);
            // ids above 3 are not recovery ids at all
            let got = std::panic::catch_unwind(|| predicate::check_signed_contract(&s).is_ok());
            let want_reject = rid > 3;
            match got {
                Err(_) => ctx.fail(&id, "validators never panic", format!("PANIC: recovery id {rid}")),
                Ok(ok) if want_reject && ok => ctx.fail(&id, "a signed contract needs a recoverable signature: recovery ids above 3 are rejected", format!("recovery id {rid} accepted")),
                Ok(ok) if rid == good_id && !ok => ctx.fail(&id, "a signed contract with a valid signature is accepted", format!("signing recovery id {rid} rejected")),
                Ok(_) => ctx.pass(),
            }
        }
        for byte in [0usize, 31, 32, 63] {
            let id = format!("validate/signed/corrupt/{byte}");
            if !ctx.want(&id) {
                continue;
            }
            let mut s = signed.clone();
            s.signature.0[byte] ^= 0x40;
            match std::panic::catch_unwind(|| predicate::check_signed_contract(&s)) {
                Err(_) => ctx.fail(&id, "validators never panic", format!("PANIC: corrupted signature byte {byte}")),
                // a corrupted signature either fails to recover or recovers another key: verify() compares nothing else, so only panics are failures here
                Ok(_) => ctx.pass(),
            }
        }
        // an oversized contract with a valid signature is still rejected
        let big = Contract { predicates: vec![Predicate { nodes: vec![], edges: vec![] }; 101], salt: [3; 32] };
        let sb = essential_sign::contract::sign(big, &sk);
        let id = "validate/signed/too-many-predicates";
        if ctx.want(id) {
            match std::panic::catch_unwind(|| predicate::check_signed_contract(&sb).is_ok()) {
                Ok(false) => ctx.pass(),
                other => ctx.fail(id, "a signed contract above the predicate limit is rejected", format!("{:?}", other)),
            }
        }
    }
    // ---- predicate and contract size limits
    let pred = |n: usize, e: usize| Predicate { nodes: vec![Node { edge_start: u16::MAX, program_address: ca(0) }; n], edges: vec![0; e] };
    for n in [0usize, 999, 1000, 1001, 65535, 65536, 70000] {
        for e in [0usize, 999, 1000, 1001, 65535, 65536, 65537, 131072] {
            let id = format!("validate/predicate/{n}/{e}");
            if !ctx.want(&id) {
                continue;
            }
            let p = pred(n, e);
            let want = n <= 1000 && e <= 1000;
            match std::panic::catch_unwind(|| predicate::check(&p).is_ok()) {
                Ok(got) if got == want => ctx.pass(),
                Ok(got) => ctx.fail(&id, "a predicate is accepted exactly up to 1000 nodes and 1000 edges", format!("{n} nodes {e} edges: accepted={got}, documented={want}")),
                Err(_) => ctx.fail(&id, "validators never panic", format!("PANIC: {n} nodes {e} edges")),
            }
        }
    }
    for count in [0usize, 1, 99, 100, 101] {
        for bad in [None, Some(0usize), Some(count.saturating_sub(1))] {
            let id = format!("validate/contract/{count}/{:?}", bad);
            if !ctx.want(&id) {
                continue;
            }
            let mut preds: Vec<Predicate> = (0..count).map(|_| pred(1, 0)).collect();
            let mut want = count <= 100;
            if let Some(b) = bad {
                if b < count {
                    preds[b] = pred(1001, 0);
                    want = false;
                }
            }
            match std::panic::catch_unwind(|| predicate::check_contract(&preds).is_ok()) {
                Ok(got) if got == want => ctx.pass(),
                Ok(got) => ctx.fail(&id, "a contract is accepted exactly up to 100 predicates, all of them valid", format!("{count} predicates, oversized predicate at {:?}: accepted={got}, documented={want}", bad)),
                Err(_) => ctx.fail(&id, "validators never panic", format!("PANIC: {count} predicates")),
            }
        }
    }
}
