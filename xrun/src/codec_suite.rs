//! C18 / C06: codecs of essential-types on the real crate: encoders equal the documented layouts, decoders invert them, every
//! truncation / garbage input is a typed error (never a panic), hex conversions round-trip for all boundary words.
use crate::Ctx;
use essential_types::{
    convert,
    predicate::{encode, Node, Predicate},
    solution::{decode, encode as menc, Mutation},
    ContentAddress, Word,
};

fn ref_encode(p: &Predicate) -> Vec<u8> {
    let mut out = Vec::new();
    out.extend((p.nodes.len() as u16).to_be_bytes());
    for n in &p.nodes {
        out.extend(n.edge_start.to_be_bytes());
        out.extend(n.program_address.0);
    }
    out.extend((p.edges.len() as u16).to_be_bytes());
    for e in &p.edges {
        out.extend(e.to_be_bytes());
    }
    out
}

fn ref_mutations(ms: &[Mutation]) -> Vec<Word> {
    let mut out = vec![ms.len() as Word];
    for m in ms {
        out.push(m.key.len() as Word);
        out.extend(&m.key);
        out.push(m.value.len() as Word);
        out.extend(&m.value);
    }
    out
}

pub fn run(ctx: &Ctx) {
    // ---- predicates: shapes up to 3 x 4, every prefix of the encoding, and the size limits
    for n in 0..=3usize {
        for e in 0..=4usize {
            let p = Predicate {
                nodes: (0..n).map(|i| Node { edge_start: if i == 1 { u16::MAX } else { (i * 300 + 1) as u16 }, program_address: ContentAddress([(i * 17 + 3) as u8; 32]) }).collect(),
                edges: (0..e).map(|i| (i * 257 + 2) as u16).collect(),
            };
            let enc = ref_encode(&p);
            let id = format!("codec/predicate/{n}/{e}");
            if ctx.want(&id) {
                let r = std::panic::catch_unwind(|| {
                    let real: Option<Vec<u8>> = encode::encode_predicate(&p).ok().map(|i| i.collect());
                    let dec = encode::decode_predicate(&enc).ok();
                    (real, dec, encode::predicate_encoded_size(&p))
                });
                match r {
                    Err(_) => ctx.fail(&id, "codecs never panic", format!("PANIC encoding / decoding {n} nodes {e} edges")),
                    Ok((real, dec, size)) => {
                        if real.as_ref() != Some(&enc) || dec.as_ref() != Some(&p) || size != enc.len() {
                            ctx.fail(&id, "encode_predicate == documented layout, decode_predicate inverts it, encoded size == length",
                                format!("{n} nodes {e} edges: encoding_ok={} decode_ok={} size_ok={}", real.as_ref() == Some(&enc), dec.as_ref() == Some(&p), size == enc.len()));
                        } else {
                            ctx.pass();
                        }
                    }
                }
            }
            for cut in 0..enc.len() {
                let id = format!("codec/predicate-prefix/{n}/{e}/{cut}");
                if !ctx.want(&id) {
                    continue;
                }
                let bytes = &enc[..cut];
                match std::panic::catch_unwind(|| encode::decode_predicate(bytes).is_ok()) {
                    Err(_) => ctx.fail(&id, "decoders are total on untrusted bytes: a truncated input is an error, never a panic", format!("PANIC: decode_predicate on the first {cut} of {} bytes ({n} nodes {e} edges): {:?}", enc.len(), bytes)),
                    Ok(true) => ctx.fail(&id, "a truncated predicate encoding is rejected", format!("decode_predicate accepted the first {cut} of {} bytes", enc.len())),
                    Ok(false) => ctx.pass(),
                }
            }
        }
    }
    for bytes in [vec![], vec![0], vec![0, 0, 0], vec![0, 1], vec![0xff, 0xff], vec![0, 0, 0xff, 0xff], vec![0, 0, 0, 1, 9]] {
        let id = format!("codec/predicate-garbage/{:?}", bytes);
        if !ctx.want(&id) {
            continue;
        }
        match std::panic::catch_unwind(|| encode::decode_predicate(&bytes).is_ok()) {
            Err(_) => ctx.fail(&id, "decoders are total on untrusted bytes", format!("PANIC: decode_predicate({:?})", bytes)),
            Ok(_) => ctx.pass(),
        }
    }
    for (n, e) in [(1000usize, 1000usize), (1000, 0), (0, 1000), (1001, 0), (0, 1001), (999, 999)] {
        let id = format!("codec/predicate-limit/{n}/{e}");
        if !ctx.want(&id) {
            continue;
        }
        let p = Predicate { nodes: vec![Node { edge_start: 5, program_address: ContentAddress([1; 32]) }; n], edges: vec![7; e] };
        let want = n <= 1000 && e <= 1000;
        let got: Option<Vec<u8>> = encode::encode_predicate(&p).ok().map(|i| i.collect());
        let good = if want { got.as_ref() == Some(&ref_encode(&p)) } else { got.is_none() };
        if good {
            ctx.pass();
        } else {
            ctx.fail(&id, "a predicate within the documented limits (1000 nodes, 1000 edges) encodes to the documented layout; beyond them encoding fails", format!("{n} nodes {e} edges: encoded={} expected encodable={want}", got.is_some()));
        }
    }
    // node / edge tables up to the u16 counts: no panic; if decoded at all then to exactly what the bytes denote, and the same bytes cut short are rejected
    for (n, e) in [(1001usize, 3usize), (1927, 2), (1928, 2), (1929, 0), (2000, 5), (3855, 1), (3856, 1), (7710, 7), (65535, 0), (0, 65535), (65535, 65535), (32768, 32769)] {
        let id = format!("codec/predicate-big/{n}/{e}");
        if !ctx.want(&id) {
            continue;
        }
        let p = Predicate {
            nodes: (0..n).map(|i| Node { edge_start: (i * 7 + 1) as u16, program_address: ContentAddress([(i % 251) as u8; 32]) }).collect(),
            edges: (0..e).map(|i| (i * 3 + 2) as u16).collect(),
        };
        let enc = ref_encode(&p);
        let r = std::panic::catch_unwind(|| (encode::decode_predicate(&enc).ok(), encode::decode_predicate(&enc[..enc.len() - 1]).is_ok(), encode::decode_predicate(&enc[..2 + n * 34 + 1]).is_ok()));
        match r {
            Err(_) => ctx.fail(&id, "decoders are total on untrusted bytes", format!("PANIC: decode_predicate on a well-formed encoding of {n} nodes and {e} edges ({} bytes)", enc.len())),
            Ok((dec, short_ok, short2_ok)) => {
                // beyond the documented limits (1000 nodes / edges) nothing can have been encoded: rejecting is as good as decoding, a wrong decode is not
                let beyond = n > 1000 || e > 1000;
                if dec.as_ref() != Some(&p) && !(beyond && dec.is_none()) {
                    ctx.fail(&id, "decode_predicate yields exactly the nodes and edges the bytes denote", format!("{n} nodes {e} edges ({} bytes): decoded {:?}", enc.len(), dec.map(|d| (d.nodes.len(), d.edges.len()))));
                } else if (short_ok && e > 0) || short2_ok {
                    ctx.fail(&id, "a truncated predicate encoding is rejected", format!("{n} nodes {e} edges: a truncated encoding was accepted"));
                } else {
                    ctx.pass();
                }
            }
        }
    }
    // ---- mutations
    let vals: Vec<Vec<Word>> = vec![vec![], vec![0], vec![-1, Word::MAX], vec![1, 2, 3]];
    let mut muts = Vec::new();
    for k in &vals {
        for v in &vals {
            muts.push(Mutation { key: k.clone(), value: v.clone() });
        }
    }
    let mut lists: Vec<Vec<Mutation>> = vec![vec![]];
    for a in &muts {
        lists.push(vec![a.clone()]);
    }
    for (i, a) in muts.iter().enumerate() {
        for b in muts.iter().skip(i % 3).step_by(3) {
            lists.push(vec![a.clone(), b.clone()]);
        }
    }
    lists.push(muts.iter().take(5).cloned().collect());
    for (li, ms) in lists.iter().enumerate() {
        let id = format!("codec/mutations/{li}");
        let want = ref_mutations(ms);
        if ctx.want(&id) {
            let r = std::panic::catch_unwind(|| {
                let enc: Vec<Word> = menc::encode_mutations(ms).collect();
                let dec = decode::decode_mutations(&want).ok();
                let single_ok = ms.iter().all(|m| {
                    let e: Vec<Word> = menc::encode_mutation(m).collect();
                    e == want_single(m) && decode::decode_mutation(&e).ok().as_ref() == Some(m) && menc::encode_mutation_size(m) == e.len()
                });
                (enc, dec, single_ok)
            });
            match r {
                Err(_) => ctx.fail(&id, "codecs never panic", format!("PANIC on mutation list {:?}", ms)),
                Ok((enc, dec, single_ok)) => {
                    if enc != want || dec.as_ref() != Some(ms) || !single_ok {
                        ctx.fail(&id, "encode_mutation(s) == documented word layout and decode_mutation(s) inverts it", format!("mutations {:?}: encoding_ok={} decode_ok={} single_ok={single_ok}", ms, enc == want, dec.as_ref() == Some(ms)));
                    } else {
                        ctx.pass();
                    }
                }
            }
        }
        for cut in 0..want.len() {
            let id = format!("codec/mutations-prefix/{li}/{cut}");
            if !ctx.want(&id) {
                continue;
            }
            let words = &want[..cut];
            match std::panic::catch_unwind(|| decode::decode_mutations(words).map(|v| v.len())) {
                Err(_) => ctx.fail(&id, "decoders are total on untrusted words", format!("PANIC: decode_mutations on the first {cut} of {:?}", want)),
                // a prefix that ends exactly after a whole mutation still decodes to fewer mutations than declared only if the decoder ignores the count
                Ok(Ok(n)) if n == ms.len() && cut < want.len() && !ms.is_empty() => ctx.fail(&id, "a truncated mutation list is not decoded as the full list", format!("first {cut} words of {:?} decoded to all {n} mutations", want)),
                Ok(_) => ctx.pass(),
            }
        }
    }
    for words in [vec![], vec![-1], vec![1], vec![1, 5], vec![1, 1, 5], vec![1, -1, 0], vec![1, 0, -1], vec![Word::MAX], vec![Word::MAX, 0, 0], vec![2, 0, 0], vec![1, Word::MAX, 0], vec![1, 0, Word::MAX], vec![1, 1, 5, Word::MAX]] {
        let id = format!("codec/mutations-garbage/{:?}", words);
        if !ctx.want(&id) {
            continue;
        }
        match std::panic::catch_unwind(|| (decode::decode_mutations(&words).is_ok(), decode::decode_mutation(&words).is_ok())) {
            Err(_) => ctx.fail(&id, "decoders are total on untrusted words", format!("PANIC: decode_mutation(s)({:?})", words)),
            Ok(_) => ctx.pass(),
        }
    }
    // every word list of length <= 5 over boundary words: total (a typed error or a value), and a well-formed prefix decodes to itself
    let alpha: [Word; 6] = [0, 1, 2, 3, -1, Word::MAX];
    let mut lists: Vec<Vec<Word>> = vec![vec![]];
    let mut layer: Vec<Vec<Word>> = vec![vec![]];
    for _ in 0..5 {
        let mut next = Vec::new();
        for l in &layer {
            for a in alpha {
                let mut t = l.clone();
                t.push(a);
                next.push(t);
            }
        }
        lists.extend(next.iter().cloned());
        layer = next;
    }
    for words in &lists {
        let id = format!("codec/mutations-short/{:?}", words);
        if !ctx.want(&id) {
            continue;
        }
        match std::panic::catch_unwind(|| (decode::decode_mutations(words).ok(), decode::decode_mutation(words).ok())) {
            Err(_) => ctx.fail(&id, "decoders are total on untrusted words", format!("PANIC: decode_mutation(s)({:?})", words)),
            Ok((many, one)) => {
                // whatever is accepted re-encodes to a prefix-compatible word list
                let ok_one = one.as_ref().map(|m| words.starts_with(&want_single(m))).unwrap_or(true);
                let ok_many = many.as_ref().map(|ms| ms.iter().all(|m| m.key.len() + m.value.len() + 2 <= words.len())).unwrap_or(true);
                if ok_one && ok_many {
                    ctx.pass();
                } else {
                    ctx.fail(&id, "an accepted mutation is the one its words encode", format!("words {:?}: decode_mutation {:?}, decode_mutations {:?}", words, one, many));
                }
            }
        }
    }
    // ---- node_edges == the documented sub-range, for every small node table
    {
        let starts: [u16; 6] = [0, 1, 2, 3, 4, u16::MAX];
        for n in 1..=4usize {
            let total = starts.len().pow(n as u32);
            for code in 0..total {
                for elen in [0usize, 1, 3, 4] {
                    let mut c = code;
                    let nodes: Vec<Node> = (0..n).map(|_| { let st = starts[c % starts.len()]; c /= starts.len(); Node { edge_start: st, program_address: ContentAddress([0; 32]) } }).collect();
                    let p = Predicate { nodes, edges: (0..elen as u16).map(|e| e + 10).collect() };
                    let id = format!("codec/node-edges/{n}/{code}/{elen}");
                    if !ctx.want(&id) {
                        continue;
                    }
                    let mut bad = None;
                    for i in 0..n + 1 {
                        let want = crate::refsem::node_children(&p, i);
                        match std::panic::catch_unwind(|| p.node_edges(i).map(|x| x.to_vec())) {
                            Err(_) => bad = Some(format!("PANIC at node {i}")),
                            Ok(got) if got != want => bad = Some(format!("node {i}: node_edges {:?} but the documented sub-range is {:?}", got, want)),
                            Ok(_) => {}
                        }
                    }
                    match bad {
                        None => ctx.pass(),
                        Some(d) => ctx.fail(&id, "the edge slice reported for a node is exactly the documented sub-range of the edge list (empty for leaves, None when out of bounds)",
                            format!("edge_starts {:?} edges {:?}: {d}", p.nodes.iter().map(|x| x.edge_start).collect::<Vec<_>>(), p.edges)),
                    }
                }
            }
        }
    }
    // ---- serde: every public data type survives postcard and JSON round trips; legacy field names are accepted; Display / FromStr
    serde_round_trips(ctx);
    // ---- hex <-> words
    let ws: Vec<Word> = vec![0, 1, -1, Word::MIN, Word::MAX, 0x0102030405060708, -0x0102030405060708, 0x7fffffff, 1 << 63 - 1];
    let mut seqs: Vec<Vec<Word>> = vec![vec![]];
    for a in &ws {
        seqs.push(vec![*a]);
        for b in &ws {
            seqs.push(vec![*a, *b]);
        }
    }
    // longer sequences (block boundaries of 8 / 16 words and beyond)
    for n in [3usize, 7, 8, 9, 15, 16, 17, 24, 33, 100] {
        seqs.push((0..n).map(|i| ws[i % ws.len()].wrapping_add(i as Word * 0x0101)).collect());
    }
    for (i, s) in seqs.iter().enumerate() {
        let id = format!("codec/hex/{i}");
        if !ctx.want(&id) {
            continue;
        }
        let want: String = s.iter().flat_map(|w| w.to_be_bytes()).map(|b| format!("{b:02x}")).collect();
        let r = std::panic::catch_unwind(|| (convert::hex_str_from_words(s), convert::words_from_hex_str(&want).ok(), convert::words_from_hex_str(&want.to_uppercase()).ok()));
        match r {
            Err(_) => ctx.fail(&id, "conversions never panic", format!("PANIC on words {:?}", s)),
            Ok((hex, back, back_upper)) => {
                if hex.to_lowercase() != want || back.as_ref() != Some(s) || back_upper.as_ref() != Some(s) {
                    ctx.fail(&id, "hex_str_from_words is the big-endian hex of the words and words_from_hex_str inverts it (all words incl. negative ones, either case)",
                        format!("words {:?}: hex {:?} expected {:?}; parsed back {:?} / {:?}", s, hex, want, back, back_upper));
                } else {
                    ctx.pass();
                }
            }
        }
    }
    for bad in ["0", "abc", "zz", "00112233445566", "001122334455667788", "0011223344556677 "] {
        let id = format!("codec/hex-bad/{bad}");
        if !ctx.want(&id) {
            continue;
        }
        // (what happens to a string that is not a whole number of words is not part of the property; it must not panic)
        match std::panic::catch_unwind(|| convert::words_from_hex_str(bad).is_ok()) {
            Err(_) => ctx.fail(&id, "conversions never panic", format!("PANIC: words_from_hex_str({bad:?})")),
            Ok(_) => ctx.pass(),
        }
    }
}

fn rt<T: serde::Serialize + serde::de::DeserializeOwned + PartialEq + std::fmt::Debug>(ctx: &Ctx, id: &str, v: &T) {
    if !ctx.want(id) {
        return;
    }
    let r = std::panic::catch_unwind(std::panic::AssertUnwindSafe(|| {
        let bin = postcard::to_allocvec(v).map_err(|e| format!("postcard serialise: {e}"))?;
        let back: T = postcard::from_bytes(&bin).map_err(|e| format!("postcard deserialise: {e}"))?;
        if &back != v {
            return Err(format!("postcard round trip gives {:?}", back));
        }
        let js = serde_json::to_string(v).map_err(|e| format!("json serialise: {e}"))?;
        let back: T = serde_json::from_str(&js).map_err(|e| format!("json deserialise of {js}: {e}"))?;
        if &back != v {
            return Err(format!("JSON round trip through {js} gives {:?}", back));
        }
        Ok::<(), String>(())
    }));
    match r {
        Err(_) => ctx.fail(id, "serde codecs never panic", format!("PANIC on {:?}", v)),
        Ok(Err(d)) => ctx.fail(id, "every public data type survives a round trip through the binary (postcard) and the human-readable (JSON) serde formats", format!("{:?}: {d}", v)),
        Ok(Ok(())) => ctx.pass(),
    }
}

fn serde_round_trips(ctx: &Ctx) {
    use essential_types::{contract::{Contract, SignedContract}, predicate::Program, solution::{Solution, SolutionSet}, PredicateAddress, Signature};
    let words: Vec<Vec<Word>> = vec![vec![], vec![0], vec![-1, Word::MIN, Word::MAX], vec![5, 4]];
    let mut muts = Vec::new();
    for k in &words {
        for v in &words {
            muts.push(Mutation { key: k.clone(), value: v.clone() });
        }
    }
    for (i, m) in muts.iter().enumerate() {
        rt(ctx, &format!("codec/serde/mutation/{i}"), m);
    }
    let ca = |b: u8| ContentAddress(std::array::from_fn(|i| b.wrapping_add(i as u8)));
    for (i, a) in [ca(0), ca(0xf0), ContentAddress([0xff; 32])].iter().enumerate() {
        rt(ctx, &format!("codec/serde/address/{i}"), a);
        rt(ctx, &format!("codec/serde/predicate-address/{i}"), &PredicateAddress { contract: a.clone(), predicate: ca(i as u8 + 3) });
        // Display / FromStr
        let id = format!("codec/display/address/{i}");
        if ctx.want(&id) {
            let s = format!("{a}");
            match s.parse::<ContentAddress>() {
                Ok(b) if &b == a => ctx.pass(),
                other => ctx.fail(&id, "Display / FromStr round-trips", format!("{:?} displays as {s} which parses to {:?}", a, other)),
            }
        }
    }
    let sigs = [Signature([0; 64], 0), Signature(std::array::from_fn(|i| i as u8 * 3), 1), Signature([0xff; 64], 3)];
    for (i, sg) in sigs.iter().enumerate() {
        rt(ctx, &format!("codec/serde/signature/{i}"), sg);
        let id = format!("codec/display/signature/{i}");
        if ctx.want(&id) {
            let s = format!("{sg}");
            match s.parse::<Signature>() {
                Ok(b) if &b == sg => ctx.pass(),
                other => ctx.fail(&id, "Display / FromStr round-trips", format!("{:?} displays as {s} which parses to {:?}", sg, other)),
            }
        }
    }
    let preds: Vec<Predicate> = vec![
        Predicate { nodes: vec![], edges: vec![] },
        Predicate { nodes: vec![Node { edge_start: u16::MAX, program_address: ca(1) }], edges: vec![] },
        Predicate { nodes: vec![Node { edge_start: 0, program_address: ca(2) }, Node { edge_start: u16::MAX, program_address: ca(3) }, Node { edge_start: 1, program_address: ca(4) }], edges: vec![1, 0, 65535] },
    ];
    for (i, p) in preds.iter().enumerate() {
        rt(ctx, &format!("codec/serde/predicate/{i}"), p);
    }
    for (i, b) in [vec![], vec![0u8], vec![1, 2, 3, 255, 0, 128]].into_iter().enumerate() {
        rt(ctx, &format!("codec/serde/program/{i}"), &Program(b));
    }
    // programs up to the documented maximum size (the hex form is twice as long)
    for len in [255usize, 256, 4999, 5000, 5001, 9999, 10_000] {
        rt(ctx, &format!("codec/serde/program-len/{len}"), &Program((0..len).map(|i| (i * 31 + 7) as u8).collect()));
    }
    // every recovery id through Display / FromStr and serde
    for rid in 0..=255u8 {
        let sg = Signature(std::array::from_fn(|i| (i as u8).wrapping_mul(7).wrapping_add(rid)), rid);
        let id = format!("codec/display/signature-recid/{rid}");
        if ctx.want(&id) {
            let s = format!("{sg}");
            let up = format!("{sg:X}");
            match (s.parse::<Signature>(), up.parse::<Signature>()) {
                (Ok(a), Ok(b)) if a == sg && b == sg => ctx.pass(),
                other => ctx.fail(&id, "Display / FromStr round-trips every signature", format!("recovery id {rid}: {s} parses to {:?}", other)),
            }
        }
        if rid % 16 == 11 || rid < 5 || rid > 250 {
            rt(ctx, &format!("codec/serde/signature-recid/{rid}"), &sg);
        }
    }
    // larger nested containers
    let big = Solution {
        predicate_to_solve: PredicateAddress { contract: ca(9), predicate: ca(10) },
        predicate_data: (0..40).map(|i| (0..(i % 7)).map(|j| (i * 1000 + j) as Word - 20_000).collect()).collect(),
        state_mutations: (0..70).map(|i| Mutation { key: (0..(1 + i % 5)).map(|j| (i * j) as Word).collect(), value: (0..(i % 4)).map(|j| Word::MAX - (i + j) as Word).collect() }).collect(),
    };
    rt(ctx, "codec/serde/solution/big", &big);
    rt(ctx, "codec/serde/set/big", &SolutionSet { solutions: vec![big.clone(), Solution { predicate_to_solve: PredicateAddress { contract: ca(1), predicate: ca(2) }, predicate_data: vec![], state_mutations: vec![] }, big.clone()] });
    let bigp = Predicate { nodes: (0..300u16).map(|i| Node { edge_start: if i % 5 == 0 { u16::MAX } else { i * 3 }, program_address: ca(i as u8) }).collect(), edges: (0..900u16).map(|i| i % 300).collect() };
    rt(ctx, "codec/serde/predicate/big", &bigp);
    let sols: Vec<Solution> = vec![
        Solution { predicate_to_solve: PredicateAddress { contract: ca(1), predicate: ca(2) }, predicate_data: vec![], state_mutations: vec![] },
        Solution { predicate_to_solve: PredicateAddress { contract: ca(5), predicate: ca(6) }, predicate_data: vec![vec![], vec![1, -2]], state_mutations: muts.iter().take(6).cloned().collect() },
        Solution { predicate_to_solve: PredicateAddress { contract: ca(7), predicate: ca(8) }, predicate_data: vec![vec![Word::MIN]], state_mutations: vec![muts[1].clone(), muts[4].clone(), muts[3].clone()] },
    ];
    for (i, s) in sols.iter().enumerate() {
        rt(ctx, &format!("codec/serde/solution/{i}"), s);
    }
    for (i, ix) in [vec![], vec![0usize], vec![1, 2], vec![2, 1, 0, 1]].into_iter().enumerate() {
        rt(ctx, &format!("codec/serde/set/{i}"), &SolutionSet { solutions: ix.iter().map(|&k| sols[k].clone()).collect() });
    }
    for (i, ix) in [vec![], vec![0usize], vec![2, 1], vec![1, 1, 2]].into_iter().enumerate() {
        let c = Contract { predicates: ix.iter().map(|&k| preds[k].clone()).collect(), salt: std::array::from_fn(|j| (i * 40 + j) as u8) };
        rt(ctx, &format!("codec/serde/contract/{i}"), &c);
        rt(ctx, &format!("codec/serde/signed-contract/{i}"), &SignedContract { contract: c, signature: sigs[i % 3].clone() });
    }
    // legacy field names accepted on input
    for (i, s) in sols.iter().enumerate() {
        let id = format!("codec/serde/legacy/{i}");
        if !ctx.want(&id) {
            continue;
        }
        let r = (|| {
            let js = serde_json::to_string(s).ok()?;
            let legacy = js.replacen("\"predicate_data\"", "\"decision_variables\"", 1);
            let back: Solution = serde_json::from_str(&legacy).ok()?;
            let set_js = serde_json::to_string(&SolutionSet { solutions: vec![s.clone()] }).ok()?;
            let set_legacy = set_js.replacen("\"solutions\"", "\"data\"", 1);
            let back_set: SolutionSet = serde_json::from_str(&set_legacy).ok()?;
            Some(&back == s && back_set.solutions == vec![s.clone()] && legacy != js && set_legacy != set_js)
        })();
        if r == Some(true) {
            ctx.pass();
        } else {
            ctx.fail(&id, "the legacy field names (decision_variables, data) are accepted on input", format!("solution {i}: {:?}", r));
        }
    }
}

fn want_single(m: &Mutation) -> Vec<Word> {
    let mut out = vec![m.key.len() as Word];
    out.extend(&m.key);
    out.push(m.value.len() as Word);
    out.extend(&m.value);
    out
}
