//! C14: mapped bytecode against the parsed operation list, on the real crates: mapping succeeds exactly when parsing succeeds (same
//! kind of error), same operations in the same order, random access agrees with the list (and is None past the end, never a panic),
//! building from operations reproduces the serialised bytes, and executing the mapped form equals executing the list.
use crate::refsem::PreState;
use crate::Ctx;
use essential_asm as asm;
use essential_types::{solution::Solution, ContentAddress, PredicateAddress, Word};
use essential_vm::{bytecode::BytecodeMapped, Access, GasLimit, Vm};
use std::sync::Arc;

fn access() -> Access {
    let sol = Solution {
        predicate_to_solve: PredicateAddress { contract: ContentAddress([0; 32]), predicate: ContentAddress([0; 32]) },
        predicate_data: vec![vec![1, 2]],
        state_mutations: vec![],
    };
    Access::new(Arc::new(vec![sol]), 0)
}

fn kind(e: &asm::FromBytesError) -> u8 {
    match e {
        asm::FromBytesError::InvalidOpcode(_) => 1,
        asm::FromBytesError::NotEnoughBytes(_) => 2,
    }
}

fn check_bytes(ctx: &Ctx, id: &str, bytes: &[u8]) {
    if !ctx.want(id) {
        return;
    }
    let r = std::panic::catch_unwind(|| {
        let parsed: Result<Vec<asm::Op>, asm::FromBytesError> = asm::from_bytes(bytes.iter().copied()).collect();
        let borrowed = BytecodeMapped::<asm::Op, &[u8]>::try_from(bytes);
        let owned = BytecodeMapped::<asm::Op, Vec<u8>>::try_from(bytes.to_vec());
        match (&parsed, &borrowed, &owned) {
            (Ok(ops), Ok(b), Ok(o)) => {
                let bo: Vec<asm::Op> = b.ops().collect();
                let oo: Vec<asm::Op> = o.ops().collect();
                if &bo != ops || &oo != ops {
                    return Some(format!("ops() differ from the parsed list {:?}", ops));
                }
                if b.op_indices().len() != ops.len() || o.op_indices().len() != ops.len() {
                    return Some("number of op indices differs from the number of parsed ops".into());
                }
                for i in 0..ops.len() + 3 {
                    if b.op(i) != ops.get(i).copied() || o.op(i) != ops.get(i).copied() {
                        return Some(format!("op({i}) = {:?} but list.get({i}) = {:?}", b.op(i), ops.get(i)));
                    }
                }
                let rebuilt: BytecodeMapped<asm::Op, Vec<u8>> = ops.iter().copied().collect();
                if rebuilt.bytecode() != bytes || rebuilt.op_indices() != o.op_indices() {
                    return Some("building the mapped form from the operations does not reproduce the bytes / indices".into());
                }
                None
            }
            (Err(e), Err(b), Err(o)) => {
                if kind(e) == kind(b) && kind(e) == kind(o) {
                    None
                } else {
                    Some(format!("parse error {:?} but mapping errors {:?} / {:?}", e, b, o))
                }
            }
            _ => Some(format!("parse ok={} but mapping ok={} (borrowed) ok={} (owned)", parsed.is_ok(), borrowed.is_ok(), owned.is_ok())),
        }
    });
    match r {
        Err(_) => ctx.fail(id, "mapping / random access never panics and agrees with parsing", format!("PANIC on bytes {:?}", bytes)),
        Ok(Some(d)) => ctx.fail(id, "mapped bytecode == parsed operation list (success, error kind, order, random access, rebuild)", format!("bytes {:?}: {d}", bytes)),
        Ok(None) => ctx.pass(),
    }
}

fn exec_both(ctx: &Ctx, id: &str, ops: &[asm::Op], start_pc: usize, stack0: &[Word]) {
    if !ctx.want(id) {
        return;
    }
    let st = (PreState::default(), PreState::default());
    let cost = |_: &asm::Op| 1u64;
    let r = std::panic::catch_unwind(std::panic::AssertUnwindSafe(|| {
        let mut a = Vm::default();
        let mut b = Vm::default();
        for w in stack0 {
            a.stack.push(*w).unwrap();
            b.stack.push(*w).unwrap();
        }
        a.pc = start_pc;
        b.pc = start_pc;
        let ra = a.exec_ops(ops, access(), &st, &cost, GasLimit { per_yield: GasLimit::DEFAULT_PER_YIELD, total: 300 }).map_err(|e| format!("{e}"));
        let mapped: BytecodeMapped<asm::Op, Vec<u8>> = ops.iter().copied().collect();
        let rb = b.exec_bytecode(&mapped, access(), &st, &cost, GasLimit { per_yield: GasLimit::DEFAULT_PER_YIELD, total: 300 }).map_err(|e| format!("{e}"));
        let sa: Vec<Word> = a.stack.clone().into();
        let sb: Vec<Word> = b.stack.clone().into();
        let ma: Vec<Word> = a.memory.clone().into();
        let mb: Vec<Word> = b.memory.clone().into();
        if ra != rb || a.pc != b.pc || sa != sb || ma != mb || a.halt != b.halt || a.repeat != b.repeat {
            Some(format!("list: {:?} pc={} stack={:?} mem={:?} halt={} | mapped: {:?} pc={} stack={:?} mem={:?} halt={}", ra, a.pc, sa, ma, a.halt, rb, b.pc, sb, mb, b.halt))
        } else {
            None
        }
    }));
    match r {
        Err(_) => ctx.fail(id, "executing the mapped form never panics where executing the list does not", format!("PANIC: ops {:?} start pc {start_pc} stack {:?}", ops, stack0)),
        Ok(Some(d)) => ctx.fail(id, "executing the mapped form and the operation list give identical final states, gas and errors", format!("ops {:?} start pc {start_pc} stack {:?}: {d}", ops, stack0)),
        Ok(None) => ctx.pass(),
    }
}

pub fn run(ctx: &Ctx) {
    // ---- byte strings: all of length <= 2; length 3 and 4 over a representative alphabet; Push with every truncation
    check_bytes(ctx, "bytes/empty", &[]);
    for a in 0..=255u8 {
        check_bytes(ctx, &format!("bytes/{a}"), &[a]);
        for b in 0..=255u8 {
            if !ctx.thorough && b % 5 != a % 5 {
                continue;
            }
            check_bytes(ctx, &format!("bytes/{a}/{b}"), &[a, b]);
        }
    }
    let push_op: u8 = asm::to_bytes([asm::Op::from(asm::Stack::Push(0))]).next().unwrap();
    let alpha: Vec<u8> = vec![push_op, 0x00, 0xff, 0x02, 0x10, 0x20, 0x62, 0x63, 0x70, 0x80, 0x82, 0x90, 0x91, 0x7a];
    for &a in &alpha {
        for &b in &alpha {
            for &c in &alpha {
                check_bytes(ctx, &format!("bytes3/{a}/{b}/{c}"), &[a, b, c]);
            }
        }
    }
    let full_push: Vec<u8> = std::iter::once(push_op).chain(0x10..0x18).collect();
    for lead in [vec![], vec![0x02u8], vec![0xffu8], full_push.clone(), [full_push.clone(), vec![0x02], full_push.clone()].concat()] {
        for len in 0..=8usize {
            for tail in [vec![], vec![0x02u8], vec![push_op]] {
                let mut v = lead.clone();
                v.push(push_op);
                v.extend((0..len).map(|i| (0x80 + i) as u8));
                if len == 8 {
                    v.extend(tail.clone());
                }
                check_bytes(ctx, &format!("push/{}/{len}/{}", lead.len(), tail.len()), &v);
            }
        }
    }
    // ---- execution equivalence on enumerated programs
    use asm::{Alu, Compute, Memory as M, Pred, Stack as S, TotalControlFlow as T};
    let p = |w: Word| -> asm::Op { S::Push(w).into() };
    let palette: Vec<asm::Op> = vec![
        p(0), p(1), p(2), p(-1), S::Pop.into(), S::Dup.into(), S::Swap.into(), Alu::Add.into(), Alu::Sub.into(), Pred::Eq.into(),
        T::JumpIf.into(), T::HaltIf.into(), T::Halt.into(), S::Repeat.into(), S::RepeatEnd.into(), M::Alloc.into(), M::Store.into(), M::Load.into(),
        Compute::Compute.into(), Compute::ComputeEnd.into(),
    ];
    let maxlen = if ctx.thorough { 4 } else { 3 };
    let mut progs: Vec<Vec<asm::Op>> = vec![vec![]];
    let mut layer: Vec<Vec<asm::Op>> = vec![vec![]];
    for _ in 0..maxlen {
        let mut next = Vec::new();
        for s in &layer {
            for o in &palette {
                let mut t = s.clone();
                t.push(*o);
                next.push(t);
            }
        }
        progs.extend(next.iter().cloned());
        layer = next;
    }
    for (i, ops) in progs.iter().enumerate() {
        for (si, stack0) in [vec![], vec![3, 1], vec![2, 1, 1]].iter().enumerate() {
            exec_both(ctx, &format!("exec/{i}/{si}/0"), ops, 0, stack0);
        }
        if i % 50 == 0 {
            // resuming at / past the end of the program
            exec_both(ctx, &format!("exec/{i}/0/end"), ops, ops.len(), &[]);
            exec_both(ctx, &format!("exec/{i}/0/past"), ops, ops.len() + 1, &[]);
            exec_both(ctx, &format!("exec/{i}/0/far"), ops, ops.len() + 7, &[]);
        }
    }
    // deterministic pseudo-random longer programs (4..=12 ops) over the same palette plus pushes with every byte value in the immediate
    let count = if ctx.thorough { 120_000u64 } else { 40_000 };
    for seed in 1..=count {
        let id = format!("exec-random/{seed}");
        if !ctx.want(&id) {
            continue;
        }
        let mut s = seed.wrapping_mul(0x9E3779B97F4A7C15) | 1;
        let mut next = || { s ^= s << 13; s ^= s >> 7; s ^= s << 17; s };
        let len = 4 + (next() % 9) as usize;
        let raw: Vec<u64> = (0..len).map(|_| next()).collect();
        let pick = |r: u64, big: bool| -> asm::Op {
            if r % 5 == 0 { p(((r >> 8) % 7) as i64 - 3) } else if big && r % 11 == 0 { p((r >> 3) as i64) } else { palette[(r >> 16) as usize % palette.len()] }
        };
        // programs that contain a Compute keep every pushed word small: a large breadth forks astronomically many children (known finding, C05)
        let has_compute = raw.iter().any(|r| matches!(pick(*r, false), asm::Op::Compute(Compute::Compute)));
        let ops: Vec<asm::Op> = raw.iter().map(|r| pick(*r, !has_compute)).collect();
        exec_both(ctx, &id, &ops, 0, &[1, 2]);
    }
    // more operations / bytes than fit in a u8 or u16 index
    for (name, ops) in [
        ("300-pushes", (0..300).map(|i| p(i * 0x0101_0101)).collect::<Vec<_>>()),
        ("70000-pops", vec![asm::Op::from(S::Pop); 70_000]),
        ("push-after-65600-pops", { let mut v = vec![asm::Op::from(S::Pop); 65_600]; v.push(p(0x0102030405060708)); v.push(S::Pop.into()); v }),
    ] {
        let id = format!("big/{name}");
        if !ctx.want(&id) {
            continue;
        }
        let r = std::panic::catch_unwind(|| {
            let bytes: Vec<u8> = asm::to_bytes(ops.iter().copied()).collect();
            let m = BytecodeMapped::<asm::Op, &[u8]>::try_from(&bytes[..]).ok()?;
            let n = ops.len();
            let ok = m.op_indices().len() == n
                && [0usize, 1, 254, 255, 256, n / 2, n - 2, n - 1].iter().all(|&i| i >= n || m.op(i) == Some(ops[i]))
                && m.op(n).is_none()
                && m.ops().count() == n
                && m.ops().last() == ops.last().copied();
            let rebuilt: BytecodeMapped<asm::Op, Vec<u8>> = ops.iter().copied().collect();
            let same = rebuilt.bytecode() == &bytes[..] && rebuilt.op_indices() == m.op_indices()
                && [0usize, 1, 113, 114, 115, 227, 228, 229, n / 2, n - 1].iter().all(|&i| i >= n || rebuilt.op(i) == Some(ops[i])) && rebuilt.op(n).is_none();
            Some(ok && same)
        });
        match r {
            Ok(Some(true)) => ctx.pass(),
            other => ctx.fail(&id, "mapped bytecode == parsed operation list for programs with more than 255 / 65535 operations or bytes", format!("{name}: {:?}", other)),
        }
    }
    // a Push straddling (or touching) every plausible buffer boundary, total lengths that are exact multiples of such sizes, and the iterator
    // protocol of ops() (skip / nth / step_by followed by next) on the same mappings
    let mut shapes: Vec<(String, Vec<asm::Op>)> = vec![];
    for b in [1024usize, 4096, 8192, 16_384, 65_536, 131_072] {
        for d in 0..=9usize {
            // Push opcode at byte offset b - d
            let mut v = vec![asm::Op::from(S::Pop); b - d];
            v.push(p(0x0102030405060708 + d as i64));
            v.extend(vec![asm::Op::from(S::Dup); 3]);
            shapes.push((format!("push-at/{b}/{d}"), v));
        }
        for total in [b, 2 * b, 3 * b] {
            // exactly `total` bytes: pops, one push in the middle, pops
            let mut v = vec![asm::Op::from(S::Pop); total / 2 - 9];
            v.push(p(-3));
            v.extend(vec![asm::Op::from(S::Dup); total - total / 2]);
            shapes.push((format!("total/{total}"), v));
            // pushes only (total / 9 of them) padded with pops to the exact length
            let mut v: Vec<asm::Op> = (0..total / 9).map(|i| p(i as i64 * 0x0101)).collect();
            v.extend(vec![asm::Op::from(S::Pop); total % 9]);
            shapes.push((format!("total-pushes/{total}"), v));
        }
    }
    shapes.push(("small".into(), vec![p(1), S::Pop.into(), p(2), p(3), Alu::Add.into(), S::Dup.into(), p(-1)]));
    for (name, ops) in &shapes {
        let id = format!("sizes/{name}");
        if !ctx.want(&id) {
            continue;
        }
        let r = std::panic::catch_unwind(|| -> Option<String> {
            let bytes: Vec<u8> = asm::to_bytes(ops.iter().copied()).collect();
            let n = ops.len();
            let b = match BytecodeMapped::<asm::Op, &[u8]>::try_from(&bytes[..]) { Ok(b) => b, Err(e) => return Some(format!("mapping a valid program of {} bytes failed: {e}", bytes.len())) };
            let o = match BytecodeMapped::<asm::Op, Vec<u8>>::try_from(bytes.clone()) { Ok(o) => o, Err(e) => return Some(format!("mapping (owned) a valid program of {} bytes failed: {e}", bytes.len())) };
            if b.ops().collect::<Vec<_>>() != *ops || o.ops().collect::<Vec<_>>() != *ops {
                return Some("ops() differ from the operation list".into());
            }
            let rebuilt: BytecodeMapped<asm::Op, Vec<u8>> = ops.iter().copied().collect();
            if rebuilt.bytecode() != &bytes[..] {
                return Some(format!("collect(): bytecode() has {} bytes, to_bytes(ops) has {}", rebuilt.bytecode().len(), bytes.len()));
            }
            if rebuilt.op_indices() != b.op_indices() || rebuilt.ops().collect::<Vec<_>>() != *ops {
                return Some("collect(): indices / ops() differ".into());
            }
            for i in (0..n + 2).step_by(1 + n / 300).chain(n.saturating_sub(12)..n + 2) {
                if b.op(i) != ops.get(i).copied() || rebuilt.op(i) != ops.get(i).copied() || o.op(i) != ops.get(i).copied() {
                    return Some(format!("op({i}) differs from list.get({i})"));
                }
            }
            // iterator protocol
            for k in [0usize, 1, 2, 5, n / 2, n - 1, n, n + 1] {
                let want: Vec<asm::Op> = ops.iter().copied().skip(k).take(6).collect();
                if b.ops().skip(k).take(6).collect::<Vec<_>>() != want || o.ops().skip(k).take(6).collect::<Vec<_>>() != want {
                    return Some(format!("ops().skip({k}) differs from the list"));
                }
                let mut it = b.ops();
                let mut lt = ops.iter().copied();
                if it.nth(k) != lt.nth(k) || it.next() != lt.next() || it.nth(1) != lt.nth(1) || it.next() != lt.next() {
                    return Some(format!("ops(): nth({k}) followed by next / nth(1) / next differs from the list"));
                }
            }
            if b.ops().step_by(7).take(50).collect::<Vec<_>>() != ops.iter().copied().step_by(7).take(50).collect::<Vec<_>>() || b.ops().count() != n || b.ops().last() != ops.last().copied() {
                return Some("ops(): step_by / count / last differ from the list".into());
            }
            let (lo, hi) = b.ops().size_hint();
            if lo > n || hi.map_or(false, |h| h < n) {
                return Some(format!("ops().size_hint() = ({lo}, {:?}) excludes the real length {n}", hi));
            }
            None
        });
        match r {
            Err(_) => ctx.fail(&id, "mapping / random access never panics and agrees with parsing", format!("PANIC: program shape {name}")),
            Ok(Some(d)) => ctx.fail(&id, "mapped bytecode == parsed operation list whatever the size and alignment of the program (mapping, rebuilding from ops, random access, iteration)", format!("shape {name}: {d}")),
            Ok(None) => ctx.pass(),
        }
    }
    // a mapping that is extended operation by operation after it was built (push_op) must stay equivalent to the list
    for (pi, prefix) in [vec![], vec![asm::Op::from(asm::Access::ThisAddress)], vec![asm::Access::ThisAddress.into(), S::Pop.into()], vec![p(3), S::Pop.into()]].into_iter().enumerate() {
        for (ti, tail) in [vec![p(0x0202020202020202), S::Pop.into(), p(1)], vec![S::Dup.into(), p(-1), Alu::Add.into()], vec![p(0x6262626262626262u64 as i64)]].into_iter().enumerate() {
            let id = format!("push-op/{pi}/{ti}");
            if !ctx.want(&id) {
                continue;
            }
            let mut all = prefix.clone();
            all.extend(tail.iter().copied());
            let r = std::panic::catch_unwind(std::panic::AssertUnwindSafe(|| {
                let mut mapped: BytecodeMapped<asm::Op, Vec<u8>> = prefix.iter().copied().collect();
                for o in &tail {
                    mapped.push_op(*o);
                }
                let st = (PreState::default(), PreState::default());
                let cost = |_: &asm::Op| 1u64;
                let listed: Vec<asm::Op> = mapped.ops().collect();
                let mut a = Vm::default();
                let mut b = Vm::default();
                for w in [5, 6] {
                    a.stack.push(w).unwrap();
                    b.stack.push(w).unwrap();
                }
                let ra = a.exec_ops(&all, access(), &st, &cost, GasLimit { per_yield: 4096, total: 300 }).map_err(|e| format!("{e}"));
                let rb = b.exec_bytecode(&mapped, access(), &st, &cost, GasLimit { per_yield: 4096, total: 300 }).map_err(|e| format!("{e}"));
                let sa: Vec<Word> = a.stack.clone().into();
                let sb: Vec<Word> = b.stack.clone().into();
                if listed != all {
                    Some(format!("ops() {:?}", listed))
                } else if ra != rb || sa != sb || a.pc != b.pc {
                    Some(format!("list {:?} stack {:?} pc {} | mapped {:?} stack {:?} pc {}", ra, sa, a.pc, rb, sb, b.pc))
                } else {
                    None
                }
            }));
            match r {
                Err(_) => ctx.fail(&id, "a mapping extended with push_op never panics where the list does not", format!("PANIC: prefix {:?} then push_op {:?}", prefix, tail)),
                Ok(Some(d)) => ctx.fail(&id, "building the mapped form from operations (collect, then push_op) stays equivalent to the operation list", format!("prefix {:?} then push_op {:?}: {d}", prefix, tail)),
                Ok(None) => ctx.pass(),
            }
        }
    }
    // a few hand-written longer programs: forward jump past the end, repeat loop ending in Push, compute children running to the end
    let longer: Vec<Vec<asm::Op>> = vec![
        vec![p(5), p(1), T::JumpIf.into(), p(7)],
        vec![p(2), p(1), T::JumpIf.into(), p(7)],
        vec![p(3), p(1), S::Repeat.into(), p(4), S::Pop.into(), S::RepeatEnd.into(), p(9)],
        vec![p(3), p(0), S::Repeat.into(), S::RepeatEnd.into(), p(0x1122334455667788)],
        vec![p(2), Compute::Compute.into(), p(1), M::Alloc.into(), M::Store.into()],
        vec![p(2), Compute::Compute.into(), p(1), M::Alloc.into(), M::Store.into(), p(6)],
        vec![p(2), Compute::Compute.into(), S::Pop.into(), Compute::ComputeEnd.into(), p(6)],
        vec![p(1), p(2), Alu::Add.into(), p(3), Pred::Eq.into()],
    ];
    for (i, ops) in longer.iter().enumerate() {
        exec_both(ctx, &format!("exec-long/{i}"), ops, 0, &[]);
    }
}
