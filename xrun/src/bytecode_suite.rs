use crate::Ctx;
pub fn run(_ctx: &Ctx) {}
