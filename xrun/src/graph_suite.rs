//! C01 / C03: the two-pass entry point of the real checker against the reference semantics (refsem) on every predicate graph of a
//! small scope (all edge sets incl. cyclic, self loops, multi-edges; every numbering is covered because all edge sets are), with
//! programs that make the verdict sensitive to the order / multiplicity / completeness of the parent inputs, to post-state reads,
//! computed mutations, deletions and key ranges that straddle mutated and unmutated keys.
use crate::refsem::{self, Kind, PreState, Verdict, Words};
use crate::Ctx;
use essential_asm as asm;
use essential_check::solution::{check_and_compute_solution_set_two_pass, CheckPredicateConfig, GetPredicate, GetProgram, PredicateError, PredicatesError};
use essential_types::{
    predicate::{Node, Predicate, Program},
    solution::{Mutation, Solution, SolutionSet},
    ContentAddress, PredicateAddress, Word,
};
use std::collections::BTreeMap;
use std::sync::Arc;

#[derive(Clone)]
struct Preds(Arc<BTreeMap<ContentAddress, Predicate>>);
impl GetPredicate for Preds {
    fn get_predicate(&self, addr: &PredicateAddress) -> Arc<Predicate> {
        Arc::new(self.0.get(&addr.predicate).cloned().unwrap_or(Predicate { nodes: vec![], edges: vec![] }))
    }
}
#[derive(Clone)]
struct Progs(Arc<BTreeMap<ContentAddress, Program>>);
impl GetProgram for Progs {
    fn get_program(&self, ca: &ContentAddress) -> Arc<Program> {
        Arc::new(self.0.get(ca).cloned().unwrap_or_default())
    }
}

fn push(w: Word) -> asm::Op {
    asm::Stack::Push(w).into()
}
fn bytes(ops: Vec<asm::Op>) -> Program {
    Program(asm::to_bytes(ops).collect())
}

/// Non-leaf node: appends the word 100+id to the stack and the word 200+id to the memory it inherited.
fn producer(id: usize) -> Vec<asm::Op> {
    vec![push(100 + id as Word), push(1), asm::Memory::Alloc.into(), push(200 + id as Word), asm::Stack::Swap.into(), asm::Memory::Store.into()]
}

/// Ops that reduce a stack holding exactly `expect` to [1] (and to something else / an error for any other stack).
fn expect_stack(expect: &[Word]) -> Vec<asm::Op> {
    let mut ops = Vec::new();
    if expect.is_empty() {
        ops.push(push(1));
        return ops;
    }
    let n = expect.len();
    ops.push(push(expect[n - 1]));
    ops.push(asm::Pred::Eq.into());
    for k in (0..n - 1).rev() {
        ops.push(asm::Stack::Swap.into());
        ops.push(push(expect[k]));
        ops.push(asm::Pred::Eq.into());
        ops.push(asm::Pred::And.into());
    }
    ops
}

/// Leaf constraint: satisfied exactly when the inherited stack is `es` and the inherited memory is `em`.
fn constraint(es: &[Word], em: &[Word]) -> Vec<asm::Op> {
    let mut ops = vec![push(0), push(em.len() as Word), asm::Memory::LoadRange.into()];
    let mut all: Words = es.to_vec();
    all.extend(em);
    ops.extend(expect_stack(&all));
    ops
}

/// Root data-output leaf: memory = one encoded mutation key -> value, stack = [2].
fn data_output(key: &[Word], value: &[Word]) -> Vec<asm::Op> {
    let mut words: Words = vec![1, key.len() as Word];
    words.extend(key);
    words.push(value.len() as Word);
    words.extend(value);
    let mut ops = vec![push(words.len() as Word), asm::Memory::Alloc.into(), asm::Stack::Pop.into()];
    for w in &words {
        ops.push(push(*w));
    }
    ops.push(push(words.len() as Word));
    ops.push(push(0));
    ops.push(asm::Memory::StoreRange.into());
    ops.push(push(2));
    ops
}

/// Post-state read of `n` keys from `key` of this contract (or of `ext`) into fresh memory at the end of the inherited memory `m0`,
/// then the read block is loaded onto the stack.
fn post_read(key: &[Word], n: usize, room: usize, m0: usize, ext: Option<&ContentAddress>) -> Vec<asm::Op> {
    let mut ops = vec![push(room as Word), asm::Memory::Alloc.into(), asm::Stack::Pop.into()];
    if let Some(c) = ext {
        for w in essential_types::convert::word_4_from_u8_32(c.0) {
            ops.push(push(w));
        }
    }
    for w in key {
        ops.push(push(*w));
    }
    ops.push(push(key.len() as Word));
    ops.push(push(n as Word));
    ops.push(push(m0 as Word));
    ops.push(if ext.is_some() { asm::StateRead::PostKeyRangeExtern.into() } else { asm::StateRead::PostKeyRange.into() });
    ops.push(push(m0 as Word));
    ops.push(push(room as Word));
    ops.push(asm::Memory::LoadRange.into());
    ops
}

/// The documented memory layout of a range read: [addr, len] pairs followed by the values, padded with zeros to `room`.
fn layout(values: &[Words], m0: usize, room: usize) -> Words {
    let mut out = Vec::new();
    let mut addr = m0 + 2 * values.len();
    for v in values {
        out.push(addr as Word);
        out.push(v.len() as Word);
        addr += v.len();
    }
    for v in values {
        out.extend(v);
    }
    while out.len() < room {
        out.push(0);
    }
    out
}

fn ca(b: u8) -> ContentAddress {
    ContentAddress([b; 32])
}

struct Case {
    pre: PreState,
    set: SolutionSet,
    preds: BTreeMap<ContentAddress, Predicate>,
    progs: BTreeMap<ContentAddress, Program>,
}

fn classify(e: &PredicatesError<String>) -> Vec<(u16, Kind)> {
    match e {
        PredicatesError::Failed(errs) => {
            let mut v: Vec<(u16, Kind)> = errs
                .0
                .iter()
                .map(|(i, e)| {
                    (
                        *i,
                        match e {
                            PredicateError::InvalidNodeEdges(_) => Kind::InvalidGraph,
                            PredicateError::ProgramErrors(_) => Kind::ProgramErrors,
                            PredicateError::ConstraintsUnsatisfied(u) => {
                                let mut u = u.0.clone();
                                u.sort();
                                Kind::Unsatisfied(u)
                            }
                            PredicateError::Mutations(_) => Kind::Mutations,
                        },
                    )
                })
                .collect();
            v.sort();
            v
        }
        _ => vec![(u16::MAX, Kind::Mutations)],
    }
}

fn run_case(ctx: &Ctx, id: &str, clause: &str, case: &Case, describe: impl Fn() -> String) {
    if !ctx.want(id) {
        return;
    }
    let want = refsem::two_pass(&case.pre, &case.set, &case.preds, &case.progs);
    for collect_all in [false, true] {
        let cfg = Arc::new(CheckPredicateConfig { collect_all_failures: collect_all });
        let r = std::panic::catch_unwind(std::panic::AssertUnwindSafe(|| {
            check_and_compute_solution_set_two_pass(&case.pre, case.set.clone(), Preds(Arc::new(case.preds.clone())), Progs(Arc::new(case.progs.clone())), cfg)
        }));
        let got = match r {
            Err(_) => {
                ctx.fail(id, clause, format!("{} | collect_all_failures={collect_all}: the checker PANICKED; reference verdict {:?}", describe(), want));
                return;
            }
            Ok(Ok((gas, set))) => Verdict::Ok(
                gas,
                set.solutions
                    .iter()
                    .map(|s| {
                        let mut m: Vec<(Words, Words)> = s.state_mutations.iter().map(|m| (m.key.clone(), m.value.clone())).collect();
                        m.sort();
                        m
                    })
                    .collect(),
            ),
            Ok(Err(e)) => Verdict::Err(classify(&e)),
        };
        if got != want {
            ctx.fail(id, clause, format!("{} | collect_all_failures={collect_all}: checker {:?} but reference {:?}", describe(), got, want));
            return;
        }
    }
    ctx.pass();
}

/// Encode children lists as nodes + edges. `empty_as_range`: a childless node gets an empty edge range instead of the MAX marker
/// where the encoding allows it (its range end is the next non-leaf's start or the end of the list).
fn encode(children: &[Vec<u16>], empty_as_range: bool) -> Predicate {
    let mut nodes = Vec::new();
    let mut edges = Vec::new();
    for (i, c) in children.iter().enumerate() {
        let start = if c.is_empty() && !empty_as_range { u16::MAX } else { edges.len() as u16 };
        nodes.push(Node { edge_start: start, program_address: ca(i as u8 + 1) });
        edges.extend(c);
    }
    Predicate { nodes, edges }
}

/// Expected stack / memory outputs of every node of an acyclic graph under the reference semantics when every non-leaf is a producer.
fn expected_inputs(children: &[Vec<u16>]) -> Option<Vec<(Words, Words)>> {
    let n = children.len();
    let p = encode(children, false);
    refsem::graph(&p)?;
    let mut parents = vec![vec![]; n];
    for (a, c) in children.iter().enumerate() {
        for &b in c {
            parents[b as usize].push(a);
        }
    }
    for q in parents.iter_mut() {
        q.sort();
    }
    let mut out: Vec<Option<(Words, Words)>> = vec![None; n];
    let mut inp: Vec<Option<(Words, Words)>> = vec![None; n];
    let mut left = n;
    while left > 0 {
        for i in 0..n {
            if inp[i].is_some() || !parents[i].iter().all(|p| out[*p].is_some()) {
                continue;
            }
            let mut s = Vec::new();
            let mut m = Vec::new();
            for p in &parents[i] {
                let (ps, pm) = out[*p].clone().unwrap();
                s.extend(ps);
                m.extend(pm);
            }
            inp[i] = Some((s.clone(), m.clone()));
            s.push(100 + i as Word);
            m.push(200 + i as Word);
            out[i] = Some((s, m));
            left -= 1;
        }
    }
    Some(inp.into_iter().map(|x| x.unwrap()).collect())
}

fn one_solution(pred_addr: ContentAddress, contract: ContentAddress, muts: Vec<Mutation>) -> Solution {
    Solution { predicate_to_solve: PredicateAddress { contract, predicate: pred_addr }, predicate_data: vec![], state_mutations: muts }
}

/// Malformed encodings: an edge to a node that does not exist (exactly one past the last node, two past, u16::MAX), an edge_start beyond
/// the edge list, decreasing edge_starts - with and without a post-state-reading program on the affected node: always rejected, never a panic.
fn malformed(ctx: &Ctx) {
    for n in 1..=3usize {
        for shape in 0..(1usize << (n * (n - 1) / 2)) {
            // forward edges only (acyclic base graph)
            let mut children: Vec<Vec<u16>> = vec![vec![]; n];
            let mut bit = 0;
            for a in 0..n {
                for b in a + 1..n {
                    if shape >> bit & 1 == 1 {
                        children[a].push(b as u16);
                    }
                    bit += 1;
                }
            }
            for victim in 0..n {
                for (bi, bad) in [n as u16, n as u16 + 1, u16::MAX, 0x8000].into_iter().enumerate() {
                    for reader in [false, true] {
                        let mut ch = children.clone();
                        ch[victim].push(bad);
                        let pred = encode(&ch, false);
                        let mut progs = BTreeMap::new();
                        for i in 0..n {
                            let mut ops = if reader && i == victim { post_read(&[7], 1, 4, 0, None) } else { vec![] };
                            ops.push(push(1));
                            progs.insert(ca(i as u8 + 1), bytes(ops));
                        }
                        let mut preds = BTreeMap::new();
                        preds.insert(ca(0xA0), pred.clone());
                        let case = Case { pre: PreState::default(), set: SolutionSet { solutions: vec![one_solution(ca(0xA0), ca(0xC0), vec![])] }, preds, progs };
                        run_case(ctx, &format!("malformed/edge/{n}/{shape}/{victim}/{bi}/{}", reader as u8), "a graph with an edge to a missing node is rejected with an error, never partially evaluated and never a panic",
                            &case, || format!("children {:?} (node {victim} has an edge to missing node {bad}), post-state reader on it: {reader}", ch));
                    }
                }
            }
            // edge_start out of range / decreasing
            for victim in 0..n {
                for (si, start) in [children.iter().map(|c| c.len()).sum::<usize>() as u16 + 1, u16::MAX - 1, 0x7fff].into_iter().enumerate() {
                    let mut pred = encode(&children, true);
                    pred.nodes[victim].edge_start = start;
                    let mut progs = BTreeMap::new();
                    for i in 0..n {
                        progs.insert(ca(i as u8 + 1), bytes(vec![push(1)]));
                    }
                    let mut preds = BTreeMap::new();
                    preds.insert(ca(0xA0), pred.clone());
                    let case = Case { pre: PreState::default(), set: SolutionSet { solutions: vec![one_solution(ca(0xA0), ca(0xC0), vec![])] }, preds, progs };
                    run_case(ctx, &format!("malformed/start/{n}/{shape}/{victim}/{si}"), "a graph whose edge ranges are malformed is rejected with an error (or is a well-formed encoding of another graph), never a panic",
                        &case, || format!("edge_starts {:?} edges {:?}", pred.nodes.iter().map(|x| x.edge_start).collect::<Vec<_>>(), pred.edges));
                }
            }
        }
    }
}

fn rnd(s: &mut u64) -> u64 {
    *s ^= *s << 13;
    *s ^= *s >> 7;
    *s ^= *s << 17;
    *s
}

/// Larger graphs sampled pseudo-randomly (deterministic seeds): 5..=9 nodes, random edges under a random numbering (so edges go in both
/// index directions), multi-edges, sometimes a cycle, up to two post-state readers, several solutions with different predicates.
fn sampled(ctx: &Ctx) {
    let count = if ctx.thorough { 20_000u64 } else { 6_000 };
    for seed in 1..=count {
        let id = format!("sampled/{seed}");
        if !ctx.want(&id) {
            continue;
        }
        let mut s = seed.wrapping_mul(0x9E3779B97F4A7C15) | 1;
        let nsol = 1 + (rnd(&mut s) % 3) as usize;
        let mut preds = BTreeMap::new();
        let mut progs = BTreeMap::new();
        let mut solutions = Vec::new();
        let mut pre = PreState::default();
        let mut desc = String::new();
        let mut prog_id = 1u8;
        for si in 0..nsol {
            let n = 5 + (rnd(&mut s) % 5) as usize;
            // a random order of the nodes: edges go from earlier to later positions in this order (acyclic), numbering is arbitrary
            let mut order: Vec<usize> = (0..n).collect();
            for i in (1..n).rev() {
                let j = (rnd(&mut s) % (i as u64 + 1)) as usize;
                order.swap(i, j);
            }
            let density = 15 + rnd(&mut s) % 40;
            let mut ch: Vec<Vec<u16>> = vec![vec![]; n];
            for a in 0..n {
                for b in a + 1..n {
                    if rnd(&mut s) % 100 < density {
                        ch[order[a]].push(order[b] as u16);
                        if rnd(&mut s) % 10 == 0 {
                            ch[order[a]].push(order[b] as u16); // multi-edge
                        }
                    }
                }
            }
            if rnd(&mut s) % 12 == 0 {
                // close a cycle
                let (a, b) = (order[n - 1], order[(rnd(&mut s) % (n as u64 - 1)) as usize]);
                ch[a].push(b as u16);
            }
            for c in ch.iter_mut() {
                // children lists in arbitrary (not sorted) order
                if c.len() > 1 && rnd(&mut s) % 2 == 0 {
                    c.reverse();
                }
            }
            let contract = ca(0xC0 + (si % 2) as u8);
            let pred_addr = ca(0xA0 + si as u8);
            let base = prog_id;
            let addr_of = |i: usize| ca(base + i as u8);
            let mut pred = encode(&ch, rnd(&mut s) % 2 == 0);
            for (i, nd) in pred.nodes.iter_mut().enumerate() {
                nd.program_address = addr_of(i);
            }
            prog_id += n as u8;
            // expected inputs under the reference semantics when every non-leaf is a producer; readers add a block to their memory
            let readers: Vec<usize> = if rnd(&mut s) % 3 == 0 { vec![] } else { (0..1 + rnd(&mut s) % 2).map(|_| (rnd(&mut s) % n as u64) as usize).collect() };
            let key = vec![7 + si as Word];
            pre.0.entry(contract.clone()).or_default().insert(key.clone(), vec![9]);
            let mutation = Mutation { key: key.clone(), value: vec![40 + si as Word, 41] };
            let acyclic = refsem::graph(&pred).is_some();
            if acyclic {
                let mut parents = vec![vec![]; n];
                for (a, cc) in ch.iter().enumerate() {
                    for &b in cc {
                        parents[b as usize].push(a);
                    }
                }
                for q in parents.iter_mut() {
                    q.sort();
                }
                let mut outs: Vec<Option<(Words, Words)>> = vec![None; n];
                let mut left = n;
                while left > 0 {
                    for i in 0..n {
                        if outs[i].is_some() || !parents[i].iter().all(|p| outs[*p].is_some()) {
                            continue;
                        }
                        let mut st = Vec::new();
                        let mut m = Vec::new();
                        for p in &parents[i] {
                            let (ps, pm) = outs[*p].clone().unwrap();
                            st.extend(ps);
                            m.extend(pm);
                        }
                        let is_reader = readers.contains(&i);
                        let block = layout(&[mutation.value.clone()], m.len(), 4);
                        let mut ops = Vec::new();
                        if is_reader {
                            ops.extend(post_read(&key, 1, 4, m.len(), None));
                        }
                        if ch[i].is_empty() {
                            let mut es = st.clone();
                            let mut em = m.clone();
                            if is_reader {
                                es.extend(&block);
                                em.extend(&block);
                            }
                            ops.extend(constraint(&es, &em));
                        } else {
                            if is_reader {
                                ops.push(push(4));
                                ops.push(asm::Stack::Drop.into());
                                m.extend(&block);
                            }
                            ops.extend(producer(i));
                        }
                        // the stack / memory limits bound how much fan-in a case may have: oversized cases simply fail in both
                        progs.insert(addr_of(i), bytes(ops));
                        st.push(100 + i as Word);
                        m.push(200 + i as Word);
                        outs[i] = Some((st, m));
                        left -= 1;
                    }
                }
            } else {
                for i in 0..n {
                    progs.insert(addr_of(i), bytes(vec![push(1)]));
                }
            }
            preds.insert(pred_addr.clone(), pred);
            solutions.push(one_solution(pred_addr, contract, vec![mutation]));
            desc.push_str(&format!("[solution {si}: children {:?} readers {:?} acyclic {acyclic}] ", ch, readers));
        }
        // two solutions of the same contract must not declare the same key: keys differ per solution index by construction
        let case = Case { pre, set: SolutionSet { solutions }, preds, progs };
        run_case(ctx, &id, "verdict == reference on larger sampled graphs (arbitrary numbering, multi-edges, cycles, post-state readers, several solutions)", &case, || desc.clone());
    }
}

/// Longer post-state ranges: 5..=9 keys of 1..=3 words incl. double carries, several contracts, pre- and post-state reads in one program.
fn long_ranges(ctx: &Ctx) {
    let starts: Vec<Words> = vec![vec![3], vec![0, Word::MAX - 3], vec![1, Word::MAX, Word::MAX - 2], vec![Word::MAX, Word::MAX, Word::MAX - 6], vec![-1, Word::MAX, Word::MAX - 1], vec![Word::MAX - 4]];
    let count = if ctx.thorough { 6000u64 } else { 2000 };
    for seed in 1..=count {
        let id = format!("long-range/{seed}");
        if !ctx.want(&id) {
            continue;
        }
        let mut s = seed.wrapping_mul(0xD1B54A32D192ED03) | 1;
        let start = starts[(rnd(&mut s) % starts.len() as u64) as usize].clone();
        // mostly 5..=9 keys; every 8th case a long run of 40..=75 keys
        let nkeys = if seed % 8 == 0 { 40 + (rnd(&mut s) % 36) as usize } else { 5 + (rnd(&mut s) % 5) as usize };
        let mut keys = vec![start.clone()];
        while keys.len() < nkeys {
            match refsem::next_key(keys.last().unwrap()) {
                Some(k) => keys.push(k),
                None => break,
            }
        }
        let extern_read = rnd(&mut s) % 3 == 0;
        let target = if extern_read { ca(0xC1) } else { ca(0xC0) };
        let mut pre = PreState::default();
        let mut muts = Vec::new();
        let mut expect_post: Vec<Words> = Vec::new();
        let mut expect_pre: Vec<Words> = Vec::new();
        for (i, k) in keys.iter().enumerate() {
            let pv: Words = match rnd(&mut s) % 3 { 0 => vec![], 1 => vec![10 + i as Word], _ => vec![10 + i as Word, -1, 3] };
            if !pv.is_empty() {
                pre.0.entry(target.clone()).or_default().insert(k.clone(), pv.clone());
            }
            expect_pre.push(pv.clone());
            // long runs: mutations are sparse, so that long stretches of unmutated keys fall back to the pre-state
            let dice = if nkeys >= 40 { rnd(&mut s) % 40 } else { rnd(&mut s) % 4 };
            match dice {
                0 => {
                    muts.push(Mutation { key: k.clone(), value: vec![] });
                    expect_post.push(vec![]);
                }
                1 => {
                    let v = vec![20 + i as Word, 30];
                    muts.push(Mutation { key: k.clone(), value: v.clone() });
                    expect_post.push(v);
                }
                _ => expect_post.push(pv),
            }
        }
        // a third contract with mutations of the same keys must not leak into the read
        let noise: Vec<Mutation> = keys.iter().take(2).map(|k| Mutation { key: k.clone(), value: vec![666] }).collect();
        let room = 2 * nkeys + 3 * nkeys;
        // one program: post-state read at 0, then pre-state read after it; both blocks are compared
        let mut ops = post_read(&start, nkeys, room, 0, if extern_read { Some(&target) } else { None });
        let block_post = layout(&expect_post, 0, room);
        ops.extend(expect_stack(&block_post));
        // the verdict of the first comparison stays on the stack (it must be 1) below the second block
        // pre-state read of the same range into a second block
        ops.push(push(room as Word));
        ops.push(asm::Memory::Alloc.into());
        ops.push(asm::Stack::Pop.into());
        if extern_read {
            for w in essential_types::convert::word_4_from_u8_32(target.0) {
                ops.push(push(w));
            }
        }
        for w in &start {
            ops.push(push(*w));
        }
        ops.push(push(start.len() as Word));
        ops.push(push(nkeys as Word));
        ops.push(push(room as Word));
        ops.push(if extern_read { asm::StateRead::KeyRangeExtern.into() } else { asm::StateRead::KeyRange.into() });
        ops.push(push(room as Word));
        ops.push(push(room as Word));
        ops.push(asm::Memory::LoadRange.into());
        let mut second: Words = vec![1];
        second.extend(layout(&expect_pre, room, room));
        ops.extend(expect_stack(&second));
        let mut progs = BTreeMap::new();
        progs.insert(ca(1), bytes(ops));
        progs.insert(ca(2), bytes(vec![push(1)]));
        let leaf = |a: u8| Node { edge_start: u16::MAX, program_address: ca(a) };
        let mut preds = BTreeMap::new();
        preds.insert(ca(0xA0), Predicate { nodes: vec![leaf(1)], edges: vec![] });
        preds.insert(ca(0xA1), Predicate { nodes: vec![leaf(2)], edges: vec![] });
        let mut solutions = if extern_read {
            vec![one_solution(ca(0xA0), ca(0xC0), vec![]), one_solution(ca(0xA1), ca(0xC1), muts.clone())]
        } else {
            vec![one_solution(ca(0xA0), ca(0xC0), muts.clone())]
        };
        solutions.push(one_solution(ca(0xA1), ca(0xC2), noise));
        if rnd(&mut s) % 2 == 0 {
            solutions.reverse();
        }
        let case = Case { pre, set: SolutionSet { solutions }, preds, progs };
        run_case(ctx, &id, "post-state range read == per-key overlay (long ranges, multi-word keys with carries, deletions, other contracts' mutations invisible); pre-state reads never observe mutations",
            &case, || format!("start key {:?}, {} keys ({} exist), extern={extern_read}, mutations {:?}", start, nkeys, keys.len(), muts));
    }
}

/// Parent outputs whose concatenation is exactly at / one above the stack and memory limits.
fn concat_limits(ctx: &Ctx) {
    let leaf = |a: u8| Node { edge_start: u16::MAX, program_address: ca(a) };
    for (name, total, is_mem) in [("stack-4096", 4096usize, false), ("stack-4097", 4097, false), ("stack-4095", 4095, false), ("memory-10240", 10240, true), ("memory-10241", 10241, true)] {
        for split in [1usize, 2, 8] {
            let id = format!("concat/{name}/{split}");
            if !ctx.want(&id) {
                continue;
            }
            // `split` parents produce `total` words together (the first one takes the remainder)
            let per = total / split;
            let first = total - per * (split - 1);
            let mut progs = BTreeMap::new();
            let mut nodes = Vec::new();
            let mut edges = Vec::new();
            for pi in 0..split {
                let words = if pi == 0 { first } else { per };
                let ops: Vec<asm::Op> = if is_mem {
                    vec![push(words as Word), asm::Memory::Alloc.into(), asm::Stack::Pop.into()]
                } else {
                    // Reserve pushes `len` zeros and the start index: words - 1 zeros + 1 word
                    vec![push(words as Word - 1), asm::Stack::Reserve.into()]
                };
                progs.insert(ca(pi as u8 + 1), bytes(ops));
                nodes.push(Node { edge_start: edges.len() as u16, program_address: ca(pi as u8 + 1) });
                edges.push(split as u16);
            }
            // the child: reduces whatever it inherits to one word and compares it with what the reference semantics predicts
            let child_ops: Vec<asm::Op> = if is_mem {
                vec![push(0), asm::Memory::Alloc.into(), push(total as Word), asm::Pred::Eq.into()]
            } else {
                // stack = split blocks of zeros each ending with 0 (the reserve start index): all zeros; add them all up
                let mut ops: Vec<asm::Op> = (0..total - 1).map(|_| asm::Alu::Add.into()).collect();
                ops.push(push(0));
                ops.push(asm::Pred::Eq.into());
                ops
            };
            progs.insert(ca(0x40), bytes(child_ops));
            nodes.push(leaf(0x40));
            let mut preds = BTreeMap::new();
            preds.insert(ca(0xA0), Predicate { nodes, edges });
            let case = Case { pre: PreState::default(), set: SolutionSet { solutions: vec![one_solution(ca(0xA0), ca(0xC0), vec![])] }, preds, progs };
            run_case(ctx, &id, "a node starts from the concatenation of its parents' outputs whenever that fits the stack / memory limits exactly, and fails when it does not",
                &case, || format!("{split} parents producing {total} {} words in total", if is_mem { "memory" } else { "stack" }));
        }
    }
}

/// Three-way overlaps of longer keys that agree in length, first and last word: declared K1, declared K2, computed K1 (in every order of the solutions).
fn three_way(ctx: &Ctx) {
    let leaf = |a: u8| Node { edge_start: u16::MAX, program_address: ca(a) };
    let keys: Vec<Words> = vec![vec![5, 1, 5], vec![5, 2, 5], vec![5, 1, 5, 5], vec![5, 1, 6]];
    for (ci, computed) in keys.iter().enumerate() {
        for (ai, ka) in keys.iter().enumerate() {
            for (bi, kb) in keys.iter().enumerate() {
                if ka == kb {
                    continue;
                }
                for perm in 0..6usize {
                    let id = format!("three-way/{ci}/{ai}/{bi}/{perm}");
                    if !ctx.want(&id) {
                        continue;
                    }
                    let mut progs = BTreeMap::new();
                    progs.insert(ca(1), bytes(data_output(computed, &[50])));
                    progs.insert(ca(3), bytes(vec![push(1)]));
                    let mut preds = BTreeMap::new();
                    preds.insert(ca(0xA0), Predicate { nodes: vec![leaf(1)], edges: vec![] });
                    preds.insert(ca(0xA1), Predicate { nodes: vec![leaf(3)], edges: vec![] });
                    preds.insert(ca(0xA2), Predicate { nodes: vec![leaf(3)], edges: vec![] });
                    let sols = [
                        one_solution(ca(0xA0), ca(0xC0), vec![]),
                        one_solution(ca(0xA1), ca(0xC0), vec![Mutation { key: ka.clone(), value: vec![70] }]),
                        one_solution(ca(0xA2), ca(0xC0), vec![Mutation { key: kb.clone(), value: vec![71] }]),
                    ];
                    let order = [[0, 1, 2], [0, 2, 1], [1, 0, 2], [1, 2, 0], [2, 0, 1], [2, 1, 0]][perm];
                    let solutions: Vec<Solution> = order.iter().map(|&i| sols[i].clone()).collect();
                    let case = Case { pre: PreState::default(), set: SolutionSet { solutions }, preds, progs };
                    run_case(ctx, &id, "a computed mutation never repeats a slot declared anywhere in the set (keys compared in full), in every order of three solutions",
                        &case, || format!("computed key {:?}, declared keys {:?} and {:?}, order {:?}", computed, ka, kb, order));
                }
            }
        }
    }
}

/// Very wide levels: a root producer with `width` leaf children of which one is unsatisfied (first / middle / one of the last three);
/// and a producer level of `width` roots feeding one leaf.
fn wide_levels(ctx: &Ctx) {
    let leaf = |a: u8| Node { edge_start: u16::MAX, program_address: ca(a) };
    for width in [17usize, 31, 32, 33, 34, 35, 63, 64, 65, 67, 100, 129, 257] {
        let mut bads: Vec<Option<usize>> = vec![None, Some(0), Some(width / 2), Some(width - 1), Some(width - 2), Some(width - 3)];
        bads.dedup();
        for bad in bads {
            let id = format!("wide/fan-out/{width}/{:?}", bad);
            if !ctx.want(&id) {
                continue;
            }
            let mut progs = BTreeMap::new();
            progs.insert(ca(1), bytes(producer(0)));
            progs.insert(ca(2), bytes(constraint(&[100], &[200])));
            progs.insert(ca(3), bytes(constraint(&[101], &[200])));
            let mut nodes = vec![Node { edge_start: 0, program_address: ca(1) }];
            let edges: Vec<u16> = (1..=width as u16).collect();
            for k in 0..width {
                nodes.push(leaf(if Some(k) == bad { 3 } else { 2 }));
            }
            let mut preds = BTreeMap::new();
            preds.insert(ca(0xA0), Predicate { nodes, edges });
            let case = Case { pre: PreState::default(), set: SolutionSet { solutions: vec![one_solution(ca(0xA0), ca(0xC0), vec![])] }, preds, progs };
            run_case(ctx, &id, "every node of a level is executed exactly once, however wide the level is (verdict, failing leaf indices, gas)", &case,
                || format!("one producer with {width} leaf children, unsatisfied child: {:?}", bad));
        }
        let id = format!("wide/fan-in/{width}");
        if ctx.want(&id) {
            // `width` root producers (each pushes one word and allocates one) feed one leaf that checks the number of inherited words
            let mut progs = BTreeMap::new();
            progs.insert(ca(1), bytes(vec![push(7), push(1), asm::Memory::Alloc.into(), asm::Stack::Pop.into()]));
            let mut sum: Vec<asm::Op> = (0..width - 1).map(|_| asm::Alu::Add.into()).collect();
            sum.extend([push(7 * width as Word), asm::Pred::Eq.into(), push(0), asm::Memory::Alloc.into(), push(width as Word), asm::Pred::Eq.into(), asm::Pred::And.into()]);
            progs.insert(ca(2), bytes(sum));
            let mut nodes: Vec<Node> = (0..width).map(|k| Node { edge_start: k as u16, program_address: ca(1) }).collect();
            nodes.push(leaf(2));
            let edges = vec![width as u16; width];
            let mut preds = BTreeMap::new();
            preds.insert(ca(0xA0), Predicate { nodes, edges });
            let case = Case { pre: PreState::default(), set: SolutionSet { solutions: vec![one_solution(ca(0xA0), ca(0xC0), vec![])] }, preds, progs };
            run_case(ctx, &id, "every node of a level is executed exactly once, however wide the level is (verdict, failing leaf indices, gas)", &case, || format!("{width} root producers feeding one leaf"));
        }
    }
}

/// Data-output leaves with unusual memories: empty, a single zero, an empty mutation list.
fn odd_outputs(ctx: &Ctx) {
    let leaf = |a: u8| Node { edge_start: u16::MAX, program_address: ca(a) };
    let variants: Vec<(&str, Vec<asm::Op>)> = vec![
        ("empty-memory", vec![push(2)]),
        ("freed-memory", vec![push(3), asm::Memory::Alloc.into(), asm::Stack::Pop.into(), push(0), asm::Memory::Free.into(), push(2)]),
        ("zero-mutations", vec![push(1), asm::Memory::Alloc.into(), asm::Stack::Pop.into(), push(2)]),
        // one mutation announced whose key length points beyond the memory (a bare count without any mutation is accepted by the decoder and not covered by any property)
        ("truncated-mutation", vec![push(2), asm::Memory::Alloc.into(), asm::Stack::Pop.into(), push(1), push(0), asm::Memory::Store.into(), push(5), push(1), asm::Memory::Store.into(), push(2)]),
    ];
    for (name, ops) in &variants {
        for with_other in [false, true] {
            let id = format!("odd-output/{name}/{with_other}");
            if !ctx.want(&id) {
                continue;
            }
            let mut progs = BTreeMap::new();
            progs.insert(ca(1), bytes(ops.clone()));
            progs.insert(ca(2), bytes(data_output(&[4], &[5])));
            let mut nodes = vec![leaf(1)];
            if with_other {
                nodes.push(leaf(2));
            }
            let mut preds = BTreeMap::new();
            preds.insert(ca(0xA0), Predicate { nodes, edges: vec![] });
            let case = Case { pre: PreState::default(), set: SolutionSet { solutions: vec![one_solution(ca(0xA0), ca(0xC0), vec![])] }, preds, progs };
            run_case(ctx, &id, "a leaf ending in [2] reports its whole memory as a data output, which must decode as a list of mutations", &case, || format!("data-output leaf variant {name}"));
        }
    }
}

/// Many solutions: n solutions (several of them of the same contract) each declare or compute one mutation; a reader in the last / first /
/// a middle solution reads all keys of one contract from the post state.
fn many_solutions(ctx: &Ctx) {
    let leaf = |a: u8| Node { edge_start: u16::MAX, program_address: ca(a) };
    for n in [4usize, 7, 8, 9, 12, 16, 17, 33, 64] {
        for reader_at in [0usize, n / 2, n - 1] {
            for computed_every in [0usize, 3] {
                let id = format!("many-solutions/{n}/{reader_at}/{computed_every}");
                if !ctx.want(&id) {
                    continue;
                }
                let mut pre = PreState::default();
                let mut progs = BTreeMap::new();
                let mut preds = BTreeMap::new();
                progs.insert(ca(9), bytes(vec![push(1)]));
                preds.insert(ca(0xA9), Predicate { nodes: vec![leaf(9)], edges: vec![] });
                let mut solutions = vec![];
                let mut expect: Vec<Words> = vec![];
                for k in 0..n {
                    // keys [10 + k] of contract C0 (two of three solutions) or C1; every key has a pre-state value; odd k delete
                    let contract = if k % 3 == 2 { ca(0xC1) } else { ca(0xC0) };
                    let key = vec![10 + k as Word];
                    let value: Words = if k % 2 == 1 { vec![] } else { vec![1000 + k as Word] };
                    pre.0.entry(contract.clone()).or_default().insert(key.clone(), vec![-1]);
                    if k != reader_at && computed_every != 0 && k % computed_every == 0 {
                        let pa = 0x30 + k as u8;
                        progs.insert(ca(pa), bytes(data_output(&key, &value)));
                        preds.insert(ca(pa), Predicate { nodes: vec![leaf(pa)], edges: vec![] });
                        solutions.push(one_solution(ca(pa), contract.clone(), vec![]));
                    } else if k != reader_at {
                        solutions.push(one_solution(ca(0xA9), contract.clone(), vec![Mutation { key: key.clone(), value: value.clone() }]));
                    }
                    if k % 3 != 2 {
                        expect.push(if k == reader_at { vec![-1] } else { value });
                    }
                }
                // the reader: all keys 10 .. 10 + n of contract C0 (keys of C1 are absent there: empty values)
                let mut all: Vec<Words> = vec![];
                for k in 0..n {
                    if k % 3 == 2 {
                        all.push(vec![]);
                    } else {
                        all.push(expect.remove(0));
                    }
                }
                let room = 2 * n + all.iter().map(|v| v.len()).sum::<usize>();
                let mut rd = post_read(&[10], n, room, 0, Some(&ca(0xC0)));
                rd.extend(expect_stack(&layout(&all, 0, room)));
                progs.insert(ca(0x20), bytes(rd));
                preds.insert(ca(0xA8), Predicate { nodes: vec![leaf(0x20)], edges: vec![] });
                solutions.insert(reader_at.min(solutions.len()), one_solution(ca(0xA8), ca(0xC2), vec![]));
                let case = Case { pre, set: SolutionSet { solutions }, preds, progs };
                run_case(ctx, &id, "post-state reads see the pre-state overlaid with the mutations of all solutions of the set, however many there are", &case,
                    || format!("{n} solutions, reader at position {reader_at}, every {computed_every}th mutation computed"));
            }
        }
    }
}

/// Post-state readers whose read op is hard to find: far into a long program, after a Halt that is jumped over, after pushes that contain the opcode.
fn hidden_readers(ctx: &Ctx) {
    let leaf = |a: u8| Node { edge_start: u16::MAX, program_address: ca(a) };
    let key = vec![3i64];
    let block = layout(&[vec![77]], 0, 6);
    let mut shapes: Vec<(String, Vec<asm::Op>)> = vec![];
    for pad in [0usize, 100, 1100, 1111, 1112, 2000, 7300] {
        // `pad` rounds of Push / Pop (10 bytes each) in front of the read
        let mut ops: Vec<asm::Op> = vec![];
        for i in 0..pad {
            ops.push(push(i as Word));
            ops.push(asm::Stack::Pop.into());
        }
        shapes.push((format!("padded-{pad}"), ops));
    }
    shapes.push(("after-skipped-halt".into(), vec![push(2), push(1), asm::TotalControlFlow::JumpIf.into(), asm::TotalControlFlow::Halt.into()]));
    shapes.push(("after-untaken-halt-if".into(), vec![push(0), asm::TotalControlFlow::HaltIf.into()]));
    shapes.push(("after-skipped-panic".into(), vec![push(0), asm::TotalControlFlow::PanicIf.into()]));
    shapes.push(("after-compute".into(), vec![push(1), asm::Compute::Compute.into(), asm::Stack::Pop.into(), asm::Compute::ComputeEnd.into()]));
    for (name, prefix) in shapes {
        for ext in [false, true] {
            let id = format!("hidden-reader/{name}/{ext}");
            if !ctx.want(&id) {
                continue;
            }
            let mut pre = PreState::default();
            pre.0.entry(ca(0xC0)).or_default().insert(key.clone(), vec![5, 5, 5]);
            let mut progs = BTreeMap::new();
            let mut rd = prefix.clone();
            let c0 = ca(0xC0);
            rd.extend(post_read(&key, 1, 6, 0, if ext { Some(&c0) } else { None }));
            rd.extend(expect_stack(&block));
            progs.insert(ca(2), bytes(rd));
            let mut preds = BTreeMap::new();
            preds.insert(ca(0xA0), Predicate { nodes: vec![leaf(2)], edges: vec![] });
            let case = Case { pre, set: SolutionSet { solutions: vec![one_solution(ca(0xA0), ca(0xC0), vec![Mutation { key: key.clone(), value: vec![77] }])] }, preds, progs };
            run_case(ctx, &id, "a node whose program contains a post-state read anywhere is run in the second pass and sees the overlay", &case, || format!("post-state reader with prefix {name}, extern={ext}"));
        }
    }
}

pub fn run(ctx: &Ctx) {
    wide_levels(ctx);
    odd_outputs(ctx);
    many_solutions(ctx);
    hidden_readers(ctx);
    three_way(ctx);
    concat_limits(ctx);
    sampled(ctx);
    long_ranges(ctx);
    malformed(ctx);
    graphs(ctx);
    overlay(ctx);
    cross_solution(ctx);
    collisions(ctx);
}

/// Declared and computed mutations that overlap: a computed mutation may not repeat a slot (contract, key) that any solution of the
/// set declares or computes, whatever the order of the solutions; the returned set keeps one mutation per slot.
fn collisions(ctx: &Ctx) {
    let leaf = |a: u8| Node { edge_start: u16::MAX, program_address: ca(a) };
    for same_contract in [true, false] {
        for same_key in [true, false] {
            for declared_first in [true, false] {
                for both_computed in [false, true] {
                    let id = format!("collide/{}/{}/{}/{}", same_contract as u8, same_key as u8, declared_first as u8, both_computed as u8);
                    if !ctx.want(&id) {
                        continue;
                    }
                    let mut progs = BTreeMap::new();
                    progs.insert(ca(1), bytes(data_output(&[5], &[50])));
                    progs.insert(ca(2), bytes(data_output(&[if same_key { 5 } else { 6 }], &[60])));
                    progs.insert(ca(3), bytes(vec![push(1)]));
                    let mut preds = BTreeMap::new();
                    preds.insert(ca(0xA0), Predicate { nodes: vec![leaf(1)], edges: vec![] });
                    preds.insert(ca(0xA1), Predicate { nodes: vec![leaf(if both_computed { 2 } else { 3 })], edges: vec![] });
                    let computing = one_solution(ca(0xA0), ca(0xC0), vec![]);
                    let other_contract = if same_contract { ca(0xC0) } else { ca(0xC1) };
                    let other = one_solution(ca(0xA1), other_contract, if both_computed { vec![] } else { vec![Mutation { key: vec![if same_key { 5 } else { 6 }], value: vec![70] }] });
                    let solutions = if declared_first { vec![other, computing] } else { vec![computing, other] };
                    let case = Case { pre: PreState::default(), set: SolutionSet { solutions }, preds, progs };
                    run_case(ctx, &id, "a computed mutation never repeats a slot (contract, key) declared or computed anywhere in the set, in every order of the solutions; otherwise it is part of the returned set",
                        &case, || format!("same_contract={same_contract} same_key={same_key} other-solution-first={declared_first} other mutation computed={both_computed}"));
                }
            }
        }
    }
}

/// Every edge set over n nodes (n <= 3 quick, n <= 4 thorough; plus a deterministic sample of n = 4 in quick), producers and exact-input
/// constraints, with variants: leaf marker encoding, a post-state reader at each node in turn, a failing node, an unsatisfied leaf.
fn graphs(ctx: &Ctx) {
    for n in 1..=4usize {
        let pairs: Vec<(usize, usize)> = (0..n).flat_map(|a| (0..n).map(move |b| (a, b))).collect(); // incl. self loops
        let total: u64 = 1u64 << pairs.len();
        let mut mask: u64 = 0;
        while mask < total {
            let this = mask;
            // quick tier: all graphs up to 3 nodes, every 7th edge set of 4 nodes (deterministic)
            mask += if n == 4 && !ctx.thorough { 7 } else { 1 };
            let mut children: Vec<Vec<u16>> = vec![vec![]; n];
            for (bit, (a, b)) in pairs.iter().enumerate() {
                if this >> bit & 1 == 1 {
                    children[*a].push(*b as u16);
                }
            }
            // multi-edge variant: duplicate the first edge of the lowest node that has one
            let mut variants: Vec<(String, Vec<Vec<u16>>)> = vec![("plain".into(), children.clone())];
            if let Some(a) = (0..n).find(|&a| !children[a].is_empty()) {
                let mut c2 = children.clone();
                let e = c2[a][0];
                c2[a].insert(0, e);
                variants.push(("multi".into(), c2));
            }
            for (vname, ch) in variants {
                let exp = expected_inputs(&ch);
                for marker in [false, true] {
                    // programs: producers on non-leaves, exact-input constraints on leaves
                    let mut progs = BTreeMap::new();
                    for i in 0..n {
                        let ops = if !ch[i].is_empty() {
                            producer(i)
                        } else {
                            match &exp {
                                Some(e) => constraint(&e[i].0, &e[i].1),
                                None => vec![push(1)],
                            }
                        };
                        progs.insert(ca(i as u8 + 1), bytes(ops));
                    }
                    let pred = encode(&ch, marker);
                    let mut preds = BTreeMap::new();
                    preds.insert(ca(0xA0), pred.clone());
                    let set = SolutionSet { solutions: vec![one_solution(ca(0xA0), ca(0xC0), vec![])] };
                    let base = Case { pre: PreState::default(), set, preds, progs };
                    let desc = |what: &str| format!("{what}: nodes={n} children={:?} encoding(edge_start)={:?} edges={:?}", ch, pred.nodes.iter().map(|x| x.edge_start).collect::<Vec<_>>(), pred.edges);
                    let id = format!("graph/{n}/{this}/{vname}/{}", marker as u8);
                    run_case(ctx, &id, "verdict == reference: every node runs once after all its parents from the concatenation of their outputs in ascending parent order; cyclic / malformed graphs rejected",
                        &base, || desc("producers + exact-input constraints"));
                    if exp.is_none() || marker {
                        continue;
                    }
                    let exp = exp.as_ref().unwrap();
                    // variant: node r additionally reads post state (key [7] := [42,43] declared by the solution, pre-state [9])
                    for r in 0..n {
                        let mut c = Case { pre: base.pre.clone(), set: base.set.clone(), preds: base.preds.clone(), progs: base.progs.clone() };
                        c.pre.0.entry(ca(0xC0)).or_default().insert(vec![7], vec![9]);
                        c.set.solutions[0].state_mutations.push(Mutation { key: vec![7], value: vec![42, 43] });
                        let m0 = exp[r].1.len();
                        let block = layout(&[vec![42, 43]], m0, 4);
                        let mut ops = post_read(&[7], 1, 4, m0, None);
                        if ch[r].is_empty() {
                            // leaf: the whole stack must be inputs ++ block, the memory inputs ++ block
                            let mut es = exp[r].0.clone();
                            es.extend(&block);
                            let mut em = exp[r].1.clone();
                            em.extend(&block);
                            ops.extend(constraint(&es, &em));
                        } else {
                            // non-leaf: drop the loaded block again, then behave as a producer; descendants see the block in memory
                            ops.push(push(4));
                            ops.push(asm::Stack::Drop.into());
                            ops.extend(producer(r));
                        }
                        c.progs.insert(ca(r as u8 + 1), bytes(ops));
                        if !ch[r].is_empty() {
                            // recompute the constraints of the leaves: memory of r's output now carries the block before its own word
                            let mut outs: Vec<Option<(Words, Words)>> = vec![None; n];
                            let mut parents = vec![vec![]; n];
                            for (a, cc) in ch.iter().enumerate() {
                                for &b in cc {
                                    parents[b as usize].push(a);
                                }
                            }
                            for q in parents.iter_mut() {
                                q.sort();
                            }
                            let mut left = n;
                            while left > 0 {
                                for i in 0..n {
                                    if outs[i].is_some() || !parents[i].iter().all(|p| outs[*p].is_some()) {
                                        continue;
                                    }
                                    let mut s = Vec::new();
                                    let mut m = Vec::new();
                                    for p in &parents[i] {
                                        let (ps, pm) = outs[*p].clone().unwrap();
                                        s.extend(ps);
                                        m.extend(pm);
                                    }
                                    if ch[i].is_empty() {
                                        c.progs.insert(ca(i as u8 + 1), bytes(constraint(&s, &m)));
                                    }
                                    if i == r {
                                        let b = layout(&[vec![42, 43]], m.len(), 4);
                                        m.extend(b);
                                    }
                                    s.push(100 + i as Word);
                                    m.push(200 + i as Word);
                                    outs[i] = Some((s, m));
                                    left -= 1;
                                }
                            }
                        }
                        let id = format!("graph/{n}/{this}/{vname}/postread{r}");
                        run_case(ctx, &id, "a node that reads post state, and every node depending on it, runs in the second pass with all inputs; every other node runs once in the first pass",
                            &c, || desc(&format!("node {r} reads post state key [7] (declared mutation [42,43], pre-state [9])")));
                    }
                    // variant: node f fails (division by zero) / leaf u is unsatisfied
                    for f in 0..n {
                        let mut c = Case { pre: base.pre.clone(), set: base.set.clone(), preds: base.preds.clone(), progs: base.progs.clone() };
                        let bad = if ch[f].is_empty() && f % 2 == 0 { vec![push(0)] } else { vec![push(1), push(0), asm::Alu::Div.into()] };
                        c.progs.insert(ca(f as u8 + 1), bytes(bad));
                        let id = format!("graph/{n}/{this}/{vname}/bad{f}");
                        run_case(ctx, &id, "a failing program or an unsatisfied leaf fails the check with the documented kind of error and the failing leaf indices",
                            &c, || desc(&format!("node {f} fails / is unsatisfied")));
                    }
                }
            }
        }
    }
}

/// Post-state ranges over a single-node predicate: every subset of 4 consecutive keys mutated (values or deletions), key carry.
fn overlay(ctx: &Ctx) {
    let starts: Vec<Words> = vec![vec![5], vec![0, Word::MAX - 1], vec![Word::MAX - 2], vec![-1, -1]];
    for (si, start) in starts.iter().enumerate() {
        // the 4 keys of the range (as far as the key space goes)
        let mut keys = vec![start.clone()];
        while keys.len() < 4 {
            match refsem::next_key(keys.last().unwrap()) {
                Some(k) => keys.push(k),
                None => break,
            }
        }
        for mask in 0u32..16 {
            for del in [0u32, 0b0101, 0b1111] {
                for pre_mask in [0b1111u32, 0b0110] {
                    for extern_read in [false, true] {
                        let id = format!("overlay/{si}/{mask}/{del}/{pre_mask}/{}", extern_read as u8);
                        if !ctx.want(&id) {
                            continue;
                        }
                        let target = if extern_read { ca(0xC1) } else { ca(0xC0) };
                        let mut pre = PreState::default();
                        let mut muts = Vec::new();
                        let mut expect: Vec<Words> = Vec::new();
                        for (i, k) in keys.iter().enumerate() {
                            let pv: Words = if pre_mask >> i & 1 == 1 { vec![10 + i as Word] } else { vec![] };
                            if !pv.is_empty() {
                                pre.0.entry(target.clone()).or_default().insert(k.clone(), pv.clone());
                            }
                            if mask >> i & 1 == 1 {
                                let v: Words = if del >> i & 1 == 1 { vec![] } else { vec![20 + i as Word, 30 + i as Word] };
                                muts.push(Mutation { key: k.clone(), value: v.clone() });
                                expect.push(v);
                            } else {
                                expect.push(pv);
                            }
                        }
                        let room = 2 * 4 + 8;
                        let mut ops = post_read(start, 4, room, 0, if extern_read { Some(&target) } else { None });
                        let block = layout(&expect, 0, room);
                        ops.extend(expect_stack(&block));
                        let mut progs = BTreeMap::new();
                        progs.insert(ca(1), bytes(ops));
                        progs.insert(ca(2), bytes(vec![push(1)]));
                        let mut preds = BTreeMap::new();
                        preds.insert(ca(0xA0), Predicate { nodes: vec![Node { edge_start: u16::MAX, program_address: ca(1) }], edges: vec![] });
                        preds.insert(ca(0xA1), Predicate { nodes: vec![Node { edge_start: u16::MAX, program_address: ca(2) }], edges: vec![] });
                        // the mutations are proposed by the solution of the contract that is read (own contract, or the external one)
                        let solutions = if extern_read {
                            vec![one_solution(ca(0xA0), ca(0xC0), vec![]), one_solution(ca(0xA1), ca(0xC1), muts.clone())]
                        } else {
                            vec![one_solution(ca(0xA0), ca(0xC0), muts.clone())]
                        };
                        let case = Case { pre, set: SolutionSet { solutions }, preds, progs };
                        if keys.len() < 4 {
                            // the key space ends inside the range: fewer values are returned; the layout expectation covers the keys that exist
                            let mut c2 = case;
                            let mut ops = post_read(start, 4, room, 0, if extern_read { Some(&target) } else { None });
                            ops.extend(expect_stack(&layout(&expect, 0, room)));
                            c2.progs.insert(ca(1), bytes(ops));
                            run_case(ctx, &id, "post-state range read == per-key overlay of the proposed values (empty = deletion) on the pre-state, key carry, end of key space",
                                &c2, || format!("start key {:?} (key space ends after {} keys) mutated mask {mask:04b} deletions {del:04b} pre-state mask {pre_mask:04b} extern={extern_read}", start, keys.len()));
                        } else {
                            run_case(ctx, &id, "post-state range read == per-key overlay of the proposed values (empty = deletion) on the pre-state, key carry",
                                &case, || format!("start key {:?} mutated mask {mask:04b} deletions {del:04b} pre-state mask {pre_mask:04b} extern={extern_read}", start));
                        }
                    }
                }
            }
        }
    }
}

/// Computed mutations: a data-output program of solution 0 (first pass) is seen by post-state reads of solution 0 and of solution 1
/// (same contract / external contract); pushed words whose bytes look like post-state-read opcodes do not defer a program.
fn cross_solution(ctx: &Ctx) {
    for (ki, key) in [vec![3i64], vec![130], vec![0x183], vec![-126], vec![0, 0x8283]].into_iter().enumerate() {
        for (vi, value) in [vec![77i64], vec![], vec![0x82, 0x83, -125]].into_iter().enumerate() {
            for reader in 0..4 {
                let id = format!("computed/{ki}/{vi}/{reader}");
                if !ctx.want(&id) {
                    continue;
                }
                let mut pre = PreState::default();
                pre.0.entry(ca(0xC0)).or_default().insert(key.clone(), vec![5, 5, 5]);
                let mut progs = BTreeMap::new();
                // solution 0, predicate A0: node 0 = data output (root leaf), node 1 = reader (root leaf) when reader == 0
                progs.insert(ca(1), bytes(data_output(&key, &value)));
                let block = layout(&[value.clone()], 0, 6);
                let mut rd = post_read(&key, 1, 6, 0, None);
                rd.extend(expect_stack(&block));
                progs.insert(ca(2), bytes(rd));
                let mut rdx = post_read(&key, 1, 6, 0, Some(&ca(0xC0)));
                rdx.extend(expect_stack(&block));
                progs.insert(ca(3), bytes(rdx));
                progs.insert(ca(4), bytes(vec![push(1)]));
                let leaf = |a: u8| Node { edge_start: u16::MAX, program_address: ca(a) };
                let mut preds = BTreeMap::new();
                let solutions = match reader {
                    0 => {
                        preds.insert(ca(0xA0), Predicate { nodes: vec![leaf(1), leaf(2)], edges: vec![] });
                        vec![one_solution(ca(0xA0), ca(0xC0), vec![])]
                    }
                    3 => {
                        // two nodes share the same post-reading program
                        preds.insert(ca(0xA0), Predicate { nodes: vec![leaf(2), leaf(1), leaf(2)], edges: vec![] });
                        vec![one_solution(ca(0xA0), ca(0xC0), vec![])]
                    }
                    1 => {
                        // another predicate of the same contract reads the slot
                        preds.insert(ca(0xA0), Predicate { nodes: vec![leaf(1)], edges: vec![] });
                        preds.insert(ca(0xA1), Predicate { nodes: vec![leaf(4), leaf(2)], edges: vec![] });
                        vec![one_solution(ca(0xA1), ca(0xC0), vec![]), one_solution(ca(0xA0), ca(0xC0), vec![])]
                    }
                    _ => {
                        // a solution of another contract reads it as external post state
                        preds.insert(ca(0xA0), Predicate { nodes: vec![leaf(1)], edges: vec![] });
                        preds.insert(ca(0xA1), Predicate { nodes: vec![leaf(3)], edges: vec![] });
                        vec![one_solution(ca(0xA0), ca(0xC0), vec![]), one_solution(ca(0xA1), ca(0xC1), vec![])]
                    }
                };
                let case = Case { pre, set: SolutionSet { solutions }, preds, progs };
                run_case(ctx, &id, "a mutation computed by a data-output program in the first pass is observed by every post-state read (own / other predicate / external contract) and is part of the returned set",
                    &case, || format!("computed mutation key {:?} value {:?}, reader variant {reader}", key, value));
            }
        }
    }
}
