//! Bounded Kani checks (K2) on the real compiled essential-check crate.
#![allow(unused)]

/// Reference successor of a key read as a big-endian number over signed words (written from the property text:
/// "for each key of the requested range", word carry): add one to the last word, a word at MAX wraps to MIN and
/// carries into the word before it; no successor when every word is MAX (or the key is empty).
fn ref_next<const N: usize>(k: [i64; N]) -> Option<[i64; N]> {
    let mut out = k;
    let mut i = N;
    while i > 0 {
        i -= 1;
        if out[i] == i64::MAX {
            out[i] = i64::MIN;
        } else {
            out[i] += 1;
            return Some(out);
        }
    }
    None
}

#[cfg(kani)]
mod proofs {
    use super::*;
    use essential_check::solution::verif_kani::next_key;

    fn check_next<const N: usize>() {
        let k: [i64; N] = kani::any();
        let got = next_key(k.to_vec());
        match (ref_next(k), &got) {
            (None, None) => {}
            (Some(w), Some(g)) => {
                assert!(g.len() == N);
                let mut i = 0;
                while i < N {
                    assert!(g[i] == w[i]);
                    i += 1;
                }
            }
            _ => assert!(false),
        }
        core::mem::forget(got);
    }
    #[kani::proof]
    #[kani::unwind(6)]
    fn next_key_len_0() {
        check_next::<0>();
    }
    #[kani::proof]
    #[kani::unwind(6)]
    fn next_key_len_1() {
        check_next::<1>();
    }
    #[kani::proof]
    #[kani::unwind(6)]
    fn next_key_len_2() {
        check_next::<2>();
    }
    #[kani::proof]
    #[kani::unwind(6)]
    fn next_key_len_3() {
        check_next::<3>();
    }
    #[kani::proof]
    #[kani::unwind(6)]
    fn next_key_len_4() {
        check_next::<4>();
    }
    #[kani::proof]
    #[kani::unwind(10)]
    fn next_key_len_6() {
        check_next::<6>();
    }
}
