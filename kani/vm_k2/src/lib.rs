//! Bounded Kani checks (K2) on the real compiled essential-vm crate: mapped bytecode (C14).
//! `gen_table.rs` is generated on every run from crates/asm-spec/asm.yml by /verif/tools/asm_yaml.py.
#![allow(unused)]
use essential_asm::{self as asm, FromBytesError, Op};
use essential_vm::bytecode::BytecodeMapped;

mod gen_table;
use gen_table::*;

/// Reference stream parse written from the documented format (opcode byte + nargs immediate bytes, table from asm.yml):
/// Ok(number of ops) with the op start offsets written to `idx`, or Err(true) = invalid opcode / Err(false) = truncated immediate.
fn ref_parse(bytes: &[u8], idx: &mut [usize; 16]) -> Result<usize, bool> {
    let mut i = 0usize;
    let mut n = 0usize;
    while i < bytes.len() {
        let (_, nargs) = match yaml_op(bytes[i]) {
            Some(x) => x,
            None => return Err(true),
        };
        if i + 1 + nargs as usize > bytes.len() {
            return Err(false);
        }
        idx[n] = i;
        n += 1;
        i += 1 + nargs as usize;
    }
    Ok(n)
}

#[cfg(kani)]
mod proofs {
    use super::*;

    fn check_map<const N: usize>(bytes: [u8; N]) {
        let mut idx = [0usize; 16];
        let expect = ref_parse(&bytes, &mut idx);
        // borrowed container
        let r = BytecodeMapped::<Op, &[u8]>::try_from(&bytes[..]);
        match (&expect, &r) {
            (Ok(n), Ok(m)) => {
                assert!(m.op_indices().len() == *n);
                let mut k = 0;
                while k < N {
                    if k < *n {
                        assert!(m.op_indices()[k] == idx[k]);
                    }
                    k += 1;
                }
                assert!(m.bytecode().len() == N);
            }
            (Err(true), Err(FromBytesError::InvalidOpcode(_))) => {}
            (Err(false), Err(FromBytesError::NotEnoughBytes(_))) => {}
            _ => assert!(false),
        }
        core::mem::forget(r);
    }

    macro_rules! map_len {
        ($name:ident, $n:expr) => {
            /// K2: mapping succeeds exactly when the reference parse succeeds, with the same kind of error and the same op offsets.
            #[kani::proof]
            #[kani::unwind(14)]
            fn $name() {
                let bytes: [u8; $n] = kani::any();
                check_map::<$n>(bytes);
            }
        };
    }
    map_len!(map_len_1, 1);
    map_len!(map_len_2, 2);
    map_len!(map_len_3, 3);
    /// K2: a Push (opcode + 8 immediate bytes) followed by two arbitrary bytes; and every truncation of it.
    #[kani::proof]
    #[kani::unwind(14)]
    fn map_push_11() {
        let mut bytes: [u8; 11] = kani::any();
        kani::assume(yaml_op(bytes[0]) == Some((0, 8)));
        check_map::<11>(bytes);
    }
    #[kani::proof]
    #[kani::unwind(14)]
    fn map_push_truncated() {
        let bytes: [u8; 10] = kani::any();
        kani::assume(yaml_op(bytes[1]) == Some((0, 8)));
        let len: usize = kani::any();
        kani::assume(len >= 2 && len <= 10);
        let mut idx = [0usize; 16];
        let expect = ref_parse(&bytes[..len], &mut idx);
        let r = BytecodeMapped::<Op, &[u8]>::try_from(&bytes[..len]);
        match (&expect, &r) {
            (Ok(n), Ok(m)) => assert!(m.op_indices().len() == *n),
            (Err(true), Err(FromBytesError::InvalidOpcode(_))) => {}
            (Err(false), Err(FromBytesError::NotEnoughBytes(_))) => {}
            _ => assert!(false),
        }
        core::mem::forget(r);
    }

    /// K2: random access agrees with the parsed list: op(i) is the i-th op for i < len and None at len; ops() yields the same ops in order.
    fn check_ops<const N: usize>(bytes: [u8; N]) {
        let mut idx = [0usize; 16];
        if let Ok(n) = ref_parse(&bytes, &mut idx) {
            let m = match BytecodeMapped::<Op, &[u8]>::try_from(&bytes[..]) {
                Ok(m) => m,
                Err(_) => {
                    assert!(false);
                    return;
                }
            };
            let i: usize = kani::any();
            kani::assume(i <= n);
            let got = m.op(i);
            if i == n {
                assert!(got.is_none());
            } else {
                // the i-th op of the reference parse, decoded by the (separately verified) single-op parser
                let mut it = bytes[idx[i]..].iter().copied();
                let want = <Op as asm::TryFromBytes>::try_from_bytes(&mut it);
                match (got, want) {
                    (Some(a), Some(Ok(b))) => assert!(a == b),
                    _ => assert!(false),
                }
            }
            core::mem::forget(m);
        }
    }
    #[kani::proof]
    #[kani::unwind(14)]
    fn ops_len_2() {
        let bytes: [u8; 2] = kani::any();
        check_ops::<2>(bytes);
    }
    #[kani::proof]
    #[kani::unwind(14)]
    fn ops_push_10() {
        let bytes: [u8; 10] = kani::any();
        kani::assume(yaml_op(bytes[0]) == Some((0, 8)) || yaml_op(bytes[1]) == Some((0, 8)));
        check_ops::<10>(bytes);
    }
}

/// C10 join step: bounded Kani checks of the real `compute_effects` (through the cfg(kani) hook `verif_compute_effects`),
/// concrete memory shapes, fully symbolic contents / gas / pcs / halt flags.
#[cfg(kani)]
mod join {
    use essential_vm::error::OpError;
    use essential_vm::{verif_compute_effects, Memory};

    fn mem(n: usize) -> Memory {
        let mut v: Vec<i64> = Vec::new();
        let mut i = 0;
        while i < n {
            v.push(kani::any());
            i += 1;
        }
        Memory::try_from(v).unwrap()
    }

    fn check(parent: usize, c0: usize, c1: usize, c2: Option<usize>) {
        let mut memory = mem(parent);
        let old: Vec<i64> = memory.to_vec();
        let pc: usize = kani::any();
        let halt: bool = kani::any();
        let (g0, g1, g2): (u64, u64, u64) = (kani::any(), kani::any(), kani::any());
        let (p0, p1, p2): (usize, usize, usize) = (kani::any(), kani::any(), kani::any());
        let (h0, h1, h2): (bool, bool, bool) = (kani::any(), kani::any(), kani::any());
        let m0 = mem(c0);
        let m1 = mem(c1);
        let k0: Vec<i64> = m0.to_vec();
        let k1: Vec<i64> = m1.to_vec();
        let mut results = Vec::new();
        results.push((g0, p0, m0, h0));
        results.push((g1, p1, m1, h1));
        let mut k2: Vec<i64> = Vec::new();
        let three = c2.is_some();
        if let Some(n2) = c2 {
            let m2 = mem(n2);
            k2 = m2.to_vec();
            results.push((g2, p2, m2, h2));
        }
        let r = verif_compute_effects::<()>(&mut memory, pc, halt, results);
        // reference: gas = checked sum; memory' = old ++ children in index order; pc = max; halt = or
        let sum = g0.checked_add(g1).and_then(|s| if three { s.checked_add(g2) } else { Some(s) });
        match r {
            Ok((rpc, rgas, rhalt)) => {
                assert!(sum == Some(rgas));
                let mut want_pc = if p0 > pc { p0 } else { pc };
                if p1 > want_pc {
                    want_pc = p1;
                }
                if three && p2 > want_pc {
                    want_pc = p2;
                }
                assert!(rpc == want_pc);
                assert!(rhalt == (halt || h0 || h1 || (three && h2)));
                let now: Vec<i64> = memory.to_vec();
                assert!(now.len() == old.len() + k0.len() + k1.len() + k2.len());
                let mut i = 0;
                while i < now.len() {
                    let w = if i < old.len() {
                        old[i]
                    } else if i < old.len() + k0.len() {
                        k0[i - old.len()]
                    } else if i < old.len() + k0.len() + k1.len() {
                        k1[i - old.len() - k0.len()]
                    } else {
                        k2[i - old.len() - k0.len() - k1.len()]
                    };
                    assert!(now[i] == w);
                    i += 1;
                }
                core::mem::forget(now);
            }
            Err(e) => {
                // small shapes never exceed the memory limit: the only failure is gas overflow
                assert!(sum.is_none());
                core::mem::forget(e);
            }
        }
        core::mem::forget(memory);
        core::mem::forget(old);
        core::mem::forget(k0);
        core::mem::forget(k1);
        core::mem::forget(k2);
    }

    #[kani::proof]
    #[kani::unwind(8)]
    fn join_1_2_1() {
        check(1, 2, 1, None);
    }
    #[kani::proof]
    #[kani::unwind(8)]
    fn join_0_1_0_2() {
        check(0, 1, 0, Some(2));
    }
    #[kani::proof]
    #[kani::unwind(8)]
    fn join_2_0_0() {
        check(2, 0, 0, None);
    }

}

/// C05 / C08 / C09 / C12: bounded Kani checks (K2) of the op implementations Verus cannot ingest (closures capturing `&mut`,
/// `.iter().copied()`, generic `IntoIterator` loops), driven through the public dispatchers of the real compiled crate.
/// Concrete stack / memory shapes, fully symbolic words. Expectations are written from asm.yml, not from the code.
#[cfg(kani)]
mod ops {
    use essential_vm::error::{OpError, StackError, TotalControlFlowError};
    use essential_vm::{asm, sync, Memory, Repeat, Stack};

    fn words<const N: usize>() -> [i64; N] {
        kani::any()
    }
    fn stack_of(ws: &[i64]) -> Stack {
        let mut s = Stack::default();
        let mut i = 0;
        while i < ws.len() {
            s.push(ws[i]).unwrap();
            i += 1;
        }
        s
    }
    fn same(s: &[i64], want: &[i64]) {
        assert!(s.len() == want.len());
        let mut i = 0;
        while i < want.len() {
            assert!(s[i] == want[i]);
            i += 1;
        }
    }

    /// Select: `[.., a, b, cond]` -> `[.., b]` if cond == 1, `[.., a]` if cond == 0, error otherwise; error when fewer than 3 words.
    fn check_select<const N: usize>() {
        let ws: [i64; N] = words();
        let mut st = stack_of(&ws);
        let mut rep = Repeat::new();
        let pc: usize = kani::any();
        let r = sync::step_op_stack(asm::Stack::Select, pc, &mut st, &mut rep);
        if N < 3 {
            assert!(r.is_err());
        } else {
            let (a, b, c) = (ws[N - 3], ws[N - 2], ws[N - 1]);
            if c == 0 || c == 1 {
                assert!(matches!(r, Ok(None)));
                assert!(st.len() == N - 2);
                let mut i = 0;
                while i + 3 < N {
                    assert!(st[i] == ws[i]);
                    i += 1;
                }
                assert!(st[N - 3] == if c == 1 { b } else { a });
            } else {
                assert!(matches!(r, Err(OpError::Stack(StackError::InvalidCondition(w))) if w == c));
            }
        }
        core::mem::forget(r);
        core::mem::forget(st);
    }
    #[kani::proof]
    #[kani::unwind(8)]
    fn select_len_2() {
        check_select::<2>();
    }
    #[kani::proof]
    #[kani::unwind(8)]
    fn select_len_3() {
        check_select::<3>();
    }
    #[kani::proof]
    #[kani::unwind(8)]
    fn select_len_5() {
        check_select::<5>();
    }

    /// StoreRange: `[.., v_0..v_{k-1}, k, addr]` stores the k words at memory[addr..addr+k], every other memory word and the
    /// memory length unchanged, operands popped; error (and nothing stored) when k or addr is negative, k exceeds the stack
    /// below the two operands, or addr + k exceeds the memory length.
    fn check_store_range<const N: usize, const M: usize>() {
        let ws: [i64; N] = words();
        let ms: [i64; M] = words();
        let mut st = stack_of(&ws);
        let mut mem = Memory::try_from(ms.to_vec()).unwrap();
        let r = sync::step_op_memory(asm::Memory::StoreRange, &mut st, &mut mem);
        let addr = ws[N - 1];
        let k = ws[N - 2];
        let ok = k >= 0 && addr >= 0 && (k as u64) <= (N as u64 - 2) && (addr as u64) <= M as u64 && (addr as u64 + k as u64) <= M as u64;
        if ok {
            assert!(r.is_ok());
            let (k, addr) = (k as usize, addr as usize);
            assert!(st.len() == N - 2 - k);
            let mut i = 0;
            while i < N - 2 - k {
                assert!(st[i] == ws[i]);
                i += 1;
            }
            assert!(mem[..].len() == M);
            let mut j = 0;
            while j < M {
                let want = if j >= addr && j < addr + k { ws[N - 2 - k + (j - addr)] } else { ms[j] };
                assert!(mem[j] == want);
                j += 1;
            }
        } else {
            assert!(r.is_err());
            // failing op leaves memory untouched
            assert!(mem[..].len() == M);
            let mut j = 0;
            while j < M {
                assert!(mem[j] == ms[j]);
                j += 1;
            }
        }
        core::mem::forget(r);
        core::mem::forget(st);
        core::mem::forget(mem);
    }
    #[kani::proof]
    #[kani::unwind(8)]
    fn store_range_4_3() {
        check_store_range::<4, 3>();
    }
    #[kani::proof]
    #[kani::unwind(8)]
    fn store_range_5_2() {
        check_store_range::<5, 2>();
    }
    #[kani::proof]
    #[kani::unwind(8)]
    fn store_range_2_0() {
        check_store_range::<2, 0>();
    }

    /// PanicIf: `[.., cond]`: cond == 0 continues with the operand popped, cond == 1 fails with Panic carrying the remaining stack,
    /// any other word fails with InvalidPanicIfCondition.
    fn check_panic_if<const N: usize>() {
        let ws: [i64; N] = words();
        let mut st = stack_of(&ws);
        let pc: usize = kani::any();
        let r = sync::step_op_total_control_flow(asm::TotalControlFlow::PanicIf, &mut st, pc);
        if N == 0 {
            assert!(r.is_err());
        } else {
            let c = ws[N - 1];
            match &r {
                Ok(None) => {
                    assert!(c == 0);
                    same(&st, &ws[..N - 1]);
                }
                Err(OpError::TotalControlFlow(TotalControlFlowError::Panic(s))) => {
                    assert!(c == 1);
                    same(s, &ws[..N - 1]);
                }
                Err(OpError::TotalControlFlow(TotalControlFlowError::InvalidPanicIfCondition)) => assert!(c != 0 && c != 1),
                _ => assert!(false),
            }
        }
        core::mem::forget(r);
        core::mem::forget(st);
    }
    #[kani::proof]
    #[kani::unwind(8)]
    fn panic_if_len_0() {
        check_panic_if::<0>();
    }
    #[kani::proof]
    #[kani::unwind(8)]
    fn panic_if_len_1() {
        check_panic_if::<1>();
    }
    #[kani::proof]
    #[kani::unwind(8)]
    fn panic_if_len_4() {
        check_panic_if::<4>();
    }

    /// Stack::extend: appends the yielded words in order (the limit behaviour is that of Stack::push, which is Verus-verified;
    /// a harness at the 4096-word limit crashes CBMC 6.11 and is not part of the evidence).
    #[kani::proof]
    #[kani::unwind(8)]
    fn extend_small() {
        let ws: [i64; 2] = words();
        let xs: [i64; 3] = words();
        let mut st = stack_of(&ws);
        let r = st.extend(xs);
        assert!(r.is_ok());
        assert!(st.len() == 5);
        assert!(st[0] == ws[0] && st[1] == ws[1] && st[2] == xs[0] && st[3] == xs[1] && st[4] == xs[2]);
        core::mem::forget(st);
    }

    /// PredicateData: `[.., slot_ix, value_ix, len]` pushes predicate_data[slot_ix][value_ix .. value_ix + len] of this solution
    /// in order; error (operands popped, nothing pushed) for a negative or out-of-range slot, index or length.
    /// Shape: one solution with two slots of 2 and 1 words.
    #[kani::proof]
    #[kani::unwind(8)]
    fn predicate_data_2_slots() {
        use essential_vm::types::{solution::Solution, ContentAddress, PredicateAddress};
        use essential_vm::{Access, LazyCache};
        let d0: [i64; 2] = words();
        let d1: [i64; 1] = words();
        let sol = Solution {
            predicate_to_solve: PredicateAddress { contract: ContentAddress([0; 32]), predicate: ContentAddress([0; 32]) },
            predicate_data: vec![d0.to_vec(), d1.to_vec()],
            state_mutations: vec![],
        };
        let access = Access { solutions: std::sync::Arc::new(vec![sol]), index: 0 };
        let ws: [i64; 4] = words();
        let mut st = stack_of(&ws);
        let mut rep = Repeat::new();
        let cache = LazyCache::new();
        let r = sync::step_op_access(access, asm::Access::PredicateData, &mut st, &mut rep, &cache);
        let (slot, ix, len) = (ws[1], ws[2], ws[3]);
        let slot_len: i64 = if slot == 0 { 2 } else { 1 };
        let ok = (slot == 0 || slot == 1) && ix >= 0 && len >= 0 && ix <= slot_len && len <= slot_len - ix;
        if ok {
            assert!(r.is_ok());
            assert!(st.len() == 1 + len as usize);
            assert!(st[0] == ws[0]);
            let mut k = 0usize;
            while k < len as usize {
                let want = if slot == 0 { d0[ix as usize + k] } else { d1[ix as usize + k] };
                assert!(st[1 + k] == want);
                k += 1;
            }
        } else {
            assert!(r.is_err());
            assert!(st.len() == 1 && st[0] == ws[0]);
        }
        core::mem::forget(r);
        core::mem::forget(st);
        core::mem::forget(cache);
    }
}
