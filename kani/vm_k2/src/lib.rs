//! Bounded Kani checks (K2) on the real compiled essential-vm crate: mapped bytecode (C14).
//! `gen_table.rs` is generated on every run from crates/asm-spec/asm.yml by /verif/tools/asm_yaml.py.
#![allow(unused)]
use essential_asm::{self as asm, FromBytesError, Op};
use essential_vm::bytecode::BytecodeMapped;

mod gen_table;
use gen_table::*;

/// Reference stream parse written from the documented format (opcode byte + nargs immediate bytes, table from asm.yml):
/// Ok(number of ops) with the op start offsets written to `idx`, or Err(true) = invalid opcode / Err(false) = truncated immediate.
fn ref_parse(bytes: &[u8], idx: &mut [usize; 16]) -> Result<usize, bool> {
    let mut i = 0usize;
    let mut n = 0usize;
    while i < bytes.len() {
        let (_, nargs) = match yaml_op(bytes[i]) {
            Some(x) => x,
            None => return Err(true),
        };
        if i + 1 + nargs as usize > bytes.len() {
            return Err(false);
        }
        idx[n] = i;
        n += 1;
        i += 1 + nargs as usize;
    }
    Ok(n)
}

#[cfg(kani)]
mod proofs {
    use super::*;

    fn check_map<const N: usize>(bytes: [u8; N]) {
        let mut idx = [0usize; 16];
        let expect = ref_parse(&bytes, &mut idx);
        // borrowed container
        let r = BytecodeMapped::<Op, &[u8]>::try_from(&bytes[..]);
        match (&expect, &r) {
            (Ok(n), Ok(m)) => {
                assert!(m.op_indices().len() == *n);
                let mut k = 0;
                while k < N {
                    if k < *n {
                        assert!(m.op_indices()[k] == idx[k]);
                    }
                    k += 1;
                }
                assert!(m.bytecode().len() == N);
            }
            (Err(true), Err(FromBytesError::InvalidOpcode(_))) => {}
            (Err(false), Err(FromBytesError::NotEnoughBytes(_))) => {}
            _ => assert!(false),
        }
        core::mem::forget(r);
    }

    macro_rules! map_len {
        ($name:ident, $n:expr) => {
            /// K2: mapping succeeds exactly when the reference parse succeeds, with the same kind of error and the same op offsets.
            #[kani::proof]
            #[kani::unwind(14)]
            fn $name() {
                let bytes: [u8; $n] = kani::any();
                check_map::<$n>(bytes);
            }
        };
    }
    map_len!(map_len_1, 1);
    map_len!(map_len_2, 2);
    map_len!(map_len_3, 3);
    /// K2: a Push (opcode + 8 immediate bytes) followed by two arbitrary bytes; and every truncation of it.
    #[kani::proof]
    #[kani::unwind(14)]
    fn map_push_11() {
        let mut bytes: [u8; 11] = kani::any();
        kani::assume(yaml_op(bytes[0]) == Some((0, 8)));
        check_map::<11>(bytes);
    }
    #[kani::proof]
    #[kani::unwind(14)]
    fn map_push_truncated() {
        let bytes: [u8; 10] = kani::any();
        kani::assume(yaml_op(bytes[1]) == Some((0, 8)));
        let len: usize = kani::any();
        kani::assume(len >= 2 && len <= 10);
        let mut idx = [0usize; 16];
        let expect = ref_parse(&bytes[..len], &mut idx);
        let r = BytecodeMapped::<Op, &[u8]>::try_from(&bytes[..len]);
        match (&expect, &r) {
            (Ok(n), Ok(m)) => assert!(m.op_indices().len() == *n),
            (Err(true), Err(FromBytesError::InvalidOpcode(_))) => {}
            (Err(false), Err(FromBytesError::NotEnoughBytes(_))) => {}
            _ => assert!(false),
        }
        core::mem::forget(r);
    }

    /// K2: random access agrees with the parsed list: op(i) is the i-th op for i < len and None at len; ops() yields the same ops in order.
    fn check_ops<const N: usize>(bytes: [u8; N]) {
        let mut idx = [0usize; 16];
        if let Ok(n) = ref_parse(&bytes, &mut idx) {
            let m = match BytecodeMapped::<Op, &[u8]>::try_from(&bytes[..]) {
                Ok(m) => m,
                Err(_) => {
                    assert!(false);
                    return;
                }
            };
            let i: usize = kani::any();
            kani::assume(i <= n);
            let got = m.op(i);
            if i == n {
                assert!(got.is_none());
            } else {
                // the i-th op of the reference parse, decoded by the (separately verified) single-op parser
                let mut it = bytes[idx[i]..].iter().copied();
                let want = <Op as asm::TryFromBytes>::try_from_bytes(&mut it);
                match (got, want) {
                    (Some(a), Some(Ok(b))) => assert!(a == b),
                    _ => assert!(false),
                }
            }
            core::mem::forget(m);
        }
    }
    #[kani::proof]
    #[kani::unwind(14)]
    fn ops_len_2() {
        let bytes: [u8; 2] = kani::any();
        check_ops::<2>(bytes);
    }
    #[kani::proof]
    #[kani::unwind(14)]
    fn ops_push_10() {
        let bytes: [u8; 10] = kani::any();
        kani::assume(yaml_op(bytes[0]) == Some((0, 8)) || yaml_op(bytes[1]) == Some((0, 8)));
        check_ops::<10>(bytes);
    }
}

/// C10 join step: bounded Kani checks of the real `compute_effects` (through the cfg(kani) hook `verif_compute_effects`),
/// concrete memory shapes, fully symbolic contents / gas / pcs / halt flags.
#[cfg(kani)]
mod join {
    use essential_vm::error::OpError;
    use essential_vm::{verif_compute_effects, Memory};

    fn mem(n: usize) -> Memory {
        let mut v: Vec<i64> = Vec::new();
        let mut i = 0;
        while i < n {
            v.push(kani::any());
            i += 1;
        }
        Memory::try_from(v).unwrap()
    }

    fn check(parent: usize, c0: usize, c1: usize, c2: Option<usize>) {
        let mut memory = mem(parent);
        let old: Vec<i64> = memory.to_vec();
        let pc: usize = kani::any();
        let halt: bool = kani::any();
        let (g0, g1, g2): (u64, u64, u64) = (kani::any(), kani::any(), kani::any());
        let (p0, p1, p2): (usize, usize, usize) = (kani::any(), kani::any(), kani::any());
        let (h0, h1, h2): (bool, bool, bool) = (kani::any(), kani::any(), kani::any());
        let m0 = mem(c0);
        let m1 = mem(c1);
        let k0: Vec<i64> = m0.to_vec();
        let k1: Vec<i64> = m1.to_vec();
        let mut results = Vec::new();
        results.push((g0, p0, m0, h0));
        results.push((g1, p1, m1, h1));
        let mut k2: Vec<i64> = Vec::new();
        let three = c2.is_some();
        if let Some(n2) = c2 {
            let m2 = mem(n2);
            k2 = m2.to_vec();
            results.push((g2, p2, m2, h2));
        }
        let r = verif_compute_effects::<()>(&mut memory, pc, halt, results);
        // reference: gas = checked sum; memory' = old ++ children in index order; pc = max; halt = or
        let sum = g0.checked_add(g1).and_then(|s| if three { s.checked_add(g2) } else { Some(s) });
        match r {
            Ok((rpc, rgas, rhalt)) => {
                assert!(sum == Some(rgas));
                let mut want_pc = if p0 > pc { p0 } else { pc };
                if p1 > want_pc {
                    want_pc = p1;
                }
                if three && p2 > want_pc {
                    want_pc = p2;
                }
                assert!(rpc == want_pc);
                assert!(rhalt == (halt || h0 || h1 || (three && h2)));
                let now: Vec<i64> = memory.to_vec();
                assert!(now.len() == old.len() + k0.len() + k1.len() + k2.len());
                let mut i = 0;
                while i < now.len() {
                    let w = if i < old.len() {
                        old[i]
                    } else if i < old.len() + k0.len() {
                        k0[i - old.len()]
                    } else if i < old.len() + k0.len() + k1.len() {
                        k1[i - old.len() - k0.len()]
                    } else {
                        k2[i - old.len() - k0.len() - k1.len()]
                    };
                    assert!(now[i] == w);
                    i += 1;
                }
                core::mem::forget(now);
            }
            Err(e) => {
                // small shapes never exceed the memory limit: the only failure is gas overflow
                assert!(sum.is_none());
                core::mem::forget(e);
            }
        }
        core::mem::forget(memory);
        core::mem::forget(old);
        core::mem::forget(k0);
        core::mem::forget(k1);
        core::mem::forget(k2);
    }

    #[kani::proof]
    #[kani::unwind(8)]
    fn join_1_2_1() {
        check(1, 2, 1, None);
    }
    #[kani::proof]
    #[kani::unwind(8)]
    fn join_0_1_0_2() {
        check(0, 1, 0, Some(2));
    }
    #[kani::proof]
    #[kani::unwind(8)]
    fn join_2_0_0() {
        check(2, 0, 0, None);
    }

}
