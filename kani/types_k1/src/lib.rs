//! K1 (complete, loop-free, full-domain) Kani proofs about essential-types' fixed-width conversions (C18; used by C11/C12).
#![allow(unused)]
use essential_types::convert::*;
use essential_types::{ContentAddress, Signature, Word};

#[cfg(kani)]
mod proofs {
    use super::*;

    /// bytes_from_word is big-endian and word_from_bytes inverts it, both ways.
    #[kani::proof]
    fn word_bytes_roundtrip() {
        let w: Word = kani::any();
        let b = bytes_from_word(w);
        assert!(word_from_bytes(b) == w);
        // big-endian: most significant byte first
        assert!(b[0] == ((w as u64) >> 56) as u8);
        assert!(b[7] == (w as u64 & 0xff) as u8);
        let bs: [u8; 8] = kani::any();
        assert!(bytes_from_word(word_from_bytes(bs)) == bs);
    }

    /// word_4_from_u8_32 / u8_32_from_word_4 are inverse in both directions and big-endian per word.
    #[kani::proof]
    fn word4_u8_32_inverse() {
        let bytes: [u8; 32] = kani::any();
        let words = word_4_from_u8_32(bytes);
        assert!(u8_32_from_word_4(words) == bytes);
        let i: usize = kani::any();
        kani::assume(i < 4);
        let mut chunk = [0u8; 8];
        chunk.copy_from_slice(&bytes[i * 8..i * 8 + 8]);
        assert!(words[i] == i64::from_be_bytes(chunk));
        let ws: [Word; 4] = kani::any();
        assert!(word_4_from_u8_32(u8_32_from_word_4(ws)) == ws);
    }

    /// word_8_from_u8_64 / u8_64_from_word_8 are inverse in both directions.
    #[kani::proof]
    fn word8_u8_64_inverse() {
        let bytes: [u8; 64] = kani::any();
        let words = word_8_from_u8_64(bytes);
        assert!(u8_64_from_word_8(words) == bytes);
        let i: usize = kani::any();
        kani::assume(i < 8);
        let mut chunk = [0u8; 8];
        chunk.copy_from_slice(&bytes[i * 8..i * 8 + 8]);
        assert!(words[i] == i64::from_be_bytes(chunk));
        let ws: [Word; 8] = kani::any();
        assert!(word_8_from_u8_64(u8_64_from_word_8(ws)) == ws);
    }

    /// bool_from_word accepts exactly 0 and 1.
    #[kani::proof]
    fn bool_from_word_exact() {
        let w: Word = kani::any();
        match bool_from_word(w) {
            Some(false) => assert!(w == 0),
            Some(true) => assert!(w == 1),
            None => assert!(w != 0 && w != 1),
        }
    }

    /// Signature <-> [u8; 65] and ContentAddress <-> [u8; 32] / [Word; 4] conversions are inverse.
    #[kani::proof]
    fn signature_and_address_conversions() {
        let b: [u8; 65] = kani::any();
        let s = Signature::from(b);
        assert!(s.1 == b[64]);
        let back: [u8; 65] = s.into();
        assert!(back == b);
        let a: [u8; 32] = kani::any();
        let ca = ContentAddress::from(a);
        let ws: [Word; 4] = ca.clone().into();
        assert!(ws == word_4_from_u8_32(a));
        let ca2 = ContentAddress::from(ws);
        assert!(ca2 == ca);
        let a2: [u8; 32] = ca2.into();
        assert!(a2 == a);
    }

    /// word_from_bytes_slice pads short slices with trailing zeros and ignores bytes past 8.
    #[kani::proof]
    fn word_from_bytes_slice_pads() {
        let bytes: [u8; 10] = kani::any();
        let len: usize = kani::any();
        kani::assume(len <= 10);
        let w = word_from_bytes_slice(&bytes[..len]);
        let mut expect = [0u8; 8];
        let mut i = 0;
        while i < 8 {
            if i < len {
                expect[i] = bytes[i];
            }
            i += 1;
        }
        assert!(w == i64::from_be_bytes(expect));
    }
}
