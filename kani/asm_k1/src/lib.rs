//! Kani proofs about the real compiled essential-asm crate (C13, C15).
//! K1 = complete (loop-free or loops bounded by a constant of the code itself, full-domain symbolic inputs);
//! K2 = bounded by the stated byte-string / sequence length.
//! `gen_table.rs` is generated on every run from crates/asm-spec/asm.yml by /verif/tools/asm_yaml.py (independent YAML reading).
#![allow(unused)]
use essential_asm::effects::{self, Effects};
use essential_asm::{self as asm, FromBytesError, Op, Opcode, ToBytes, ToOpcode, TryFromBytes};

mod gen_table;
use gen_table::*;

/// reference twin of the byte-level effect query over well-formed bytecode, written from the property statement:
/// walk the ops (opcode byte + nargs immediate bytes); Some(found) for well-formed input, None otherwise.
fn ref_contains(bytes: &[u8], mask: u8) -> Option<bool> {
    let mut i = 0usize;
    let mut found = false;
    while i < bytes.len() {
        let (flag, nargs) = yaml_op(bytes[i])?;
        if i + 1 + nargs as usize > bytes.len() {
            return None;
        }
        if flag & mask != 0 {
            found = true;
        }
        i += 1 + nargs as usize;
    }
    Some(found)
}

#[cfg(kani)]
mod proofs {
    use super::*;

    /// K1: the bitflags-generated API of `Effects` has its documented bit-level meaning (assumed by the Verus unit asm_core).
    #[kani::proof]
    #[kani::unwind(8)]
    fn effects_api() {
        let a: u8 = kani::any();
        let b: u8 = kani::any();
        let ea = Effects::from_bits_retain(a);
        let eb = Effects::from_bits_retain(b);
        assert!(ea.bits() == a);
        assert!(Effects::empty().bits() == 0);
        assert!(Effects::all().bits() == ALL_FLAGS);
        assert!(ea.contains(eb) == (a & b == b));
        assert!(ea.union(eb).bits() == a | b);
        assert!((ea | eb).bits() == a | b);
        let mut c = ea;
        c |= eb;
        assert!(c.bits() == a | b);
        let mut d = ea;
        d.insert(eb);
        assert!(d.bits() == a | b);
        assert!((ea == eb) == (a == b));
        assert!(Effects::KeyRange.bits() == 1 && Effects::KeyRangeExtern.bits() == 2 && Effects::ThisAddress.bits() == 4);
        assert!(Effects::ThisContractAddress.bits() == 8 && Effects::PostKeyRange.bits() == 16 && Effects::PostKeyRangeExtern.bits() == 32);
    }

    fn collect9(mut it: impl Iterator<Item = u8>) -> ([u8; 10], usize) {
        let mut out = [0u8; 10];
        let mut n = 0usize;
        // an op serialises to at most 9 bytes; the 10th slot detects over-long output
        let mut k = 0;
        while k < 10 {
            match it.next() {
                Some(b) => {
                    out[n] = b;
                    n += 1;
                }
                None => break,
            }
            k += 1;
        }
        (out, n)
    }

    /// K1: parsing any 9 bytes either fails exactly as the specification says or yields an op that serialises to exactly
    /// the consumed bytes; consumed = 1 + num_arg_bytes of asm.yml; the opcode byte denotes the op of asm.yml.
    #[kani::proof]
    #[kani::unwind(11)]
    fn decode_then_encode_9() {
        let bytes: [u8; 9] = kani::any();
        let mut it = bytes.into_iter();
        match Op::try_from_bytes(&mut it) {
            None => assert!(false),
            Some(Ok(op)) => {
                let left = it.len();
                let consumed = 9 - left;
                let spec = yaml_op(bytes[0]);
                assert!(spec.is_some());
                let (flag, nargs) = spec.unwrap();
                assert!(consumed == 1 + nargs as usize);
                assert!(u8::from(op.to_opcode()) == bytes[0]);
                let (enc, n) = collect9(op.to_bytes().into_iter());
                assert!(n == consumed);
                let mut k = 0;
                while k < 9 {
                    if k < n {
                        assert!(enc[k] == bytes[k]);
                    }
                    k += 1;
                }
                assert!(yaml_index(&op) == Some(yaml_byte_index(bytes[0])));
            }
            Some(Err(FromBytesError::InvalidOpcode(e))) => {
                assert!(e.0 == bytes[0]);
                assert!(yaml_op(bytes[0]).is_none());
                assert!(Opcode::try_from(bytes[0]).is_err());
            }
            Some(Err(FromBytesError::NotEnoughBytes(_))) => assert!(false),
        }
    }

    /// K1: serialising Push(w) yields the Push opcode byte followed by the 8 big-endian bytes of w, and parsing that back yields Push(w) (all words).
    #[kani::proof]
    #[kani::unwind(11)]
    fn push_roundtrip() {
        let w: i64 = kani::any();
        let op = Op::Stack(asm::Stack::Push(w));
        let (enc, n) = collect9(op.to_bytes().into_iter());
        assert!(n == 9);
        assert!(yaml_op(enc[0]) == Some((0, 8)));
        let be = w.to_be_bytes();
        let mut k = 0;
        while k < 8 {
            assert!(enc[1 + k] == be[k]);
            k += 1;
        }
        let mut it = enc.into_iter().take(9);
        match Op::try_from_bytes(&mut it) {
            Some(Ok(back)) => assert!(back == op),
            _ => assert!(false),
        }
    }

    /// K1: a truncated immediate (opcode with immediates followed by 0..7 bytes) is NotEnoughBytes; an empty input is None.
    #[kani::proof]
    #[kani::unwind(11)]
    fn truncated_immediate() {
        let bytes: [u8; 8] = kani::any();
        let len: usize = kani::any();
        kani::assume(len <= 8);
        let mut it = bytes.into_iter().take(len);
        let r = Op::try_from_bytes(&mut it);
        if len == 0 {
            assert!(r.is_none());
        } else {
            match yaml_op(bytes[0]) {
                None => assert!(matches!(r, Some(Err(FromBytesError::InvalidOpcode(_))))),
                Some((_, nargs)) => {
                    if 1 + nargs as usize > len {
                        assert!(matches!(r, Some(Err(FromBytesError::NotEnoughBytes(_)))));
                    } else {
                        assert!(matches!(r, Some(Ok(_))));
                    }
                }
            }
        }
    }

    fn pick(sel: u8, w: i64) -> Op {
        match sel % 8 {
            0 => Op::StateRead(asm::StateRead::KeyRange),
            1 => Op::StateRead(asm::StateRead::KeyRangeExtern),
            2 => Op::Access(asm::Access::ThisAddress),
            3 => Op::Access(asm::Access::ThisContractAddress),
            4 => Op::StateRead(asm::StateRead::PostKeyRange),
            5 => Op::StateRead(asm::StateRead::PostKeyRangeExtern),
            6 => Op::Stack(asm::Stack::Pop),
            _ => Op::Stack(asm::Stack::Push(w)),
        }
    }
    fn flag(op: &Op) -> u8 {
        match yaml_index(op) {
            Some(ix) => yaml_flag_by_index(ix),
            None => 0,
        }
    }
    /// K2 (bounded by the program length 7): analyze returns exactly the union of the effect flags of the ops, for every program over the
    /// six effect ops, a plain op and a Push with an arbitrary immediate.
    #[kani::proof]
    #[kani::unwind(9)]
    fn analyze_len_7() {
        let sels: [u8; 7] = kani::any();
        let w: i64 = kani::any();
        let ops = [pick(sels[0], w), pick(sels[1], w), pick(sels[2], w), pick(sels[3], w), pick(sels[4], w), pick(sels[5], w), pick(sels[6], w)];
        let len: usize = kani::any();
        kani::assume(len <= 7);
        let mut want = 0u8;
        let mut i = 0;
        while i < 7 {
            if i < len {
                want |= flag(&ops[i]);
            }
            i += 1;
        }
        assert!(effects::analyze(&ops[..len]).bits() == want);
    }

    macro_rules! bca {
        ($name:ident, $n:expr) => {
            /// K2 (bounded by the byte-string length): on every well-formed byte string of this length and every effect set,
            /// the byte-level query equals the reference walk over the parsed ops.
            #[kani::proof]
            #[kani::unwind(22)]
            fn $name() {
                let bytes: [u8; $n] = kani::any();
                let mask: u8 = kani::any();
                if let Some(expect) = ref_contains(&bytes, mask) {
                    assert!(effects::bytes_contains_any(&bytes, Effects::from_bits_retain(mask)) == expect);
                }
            }
        };
    }
    bca!(bca_len_0, 0);
    bca!(bca_len_1, 1);
    bca!(bca_len_2, 2);
    bca!(bca_len_3, 3);
    bca!(bca_len_9, 9);
    bca!(bca_len_10, 10);
    bca!(bca_len_11, 11);
    bca!(bca_len_12, 12);
    bca!(bca_len_18, 18);
    bca!(bca_len_19, 19);
    bca!(bca_len_20, 20);
}
